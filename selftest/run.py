"""Self-tests of the reference models (numpy-only oracles). A failure here is a harness bug, never a finding."""
import importlib
import pkgutil
import sys

import mc.ref as R

n = 0
for m in pkgutil.iter_modules(R.__path__):
    mod = importlib.import_module(f"mc.ref.{m.name}")
    if hasattr(mod, "selftest"):
        mod.selftest()
        n += 1
        print(f"selftest mc.ref.{m.name}: ok")
print(f"{n} reference modules self-tested")
sys.exit(0)
