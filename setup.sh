#!/bin/bash
# Offline setup: nothing is compiled; run the reference-model self-tests so that an oracle bug is a setup failure.
cd "$(dirname "$(readlink -f "$0")")" || exit 2
export PYTHONHASHSEED=0 OMP_NUM_THREADS=1 PYTHONDONTWRITEBYTECODE=1 PYTHONWARNINGS=ignore
export VERIF_REPO="${VERIF_REPO:-/repo}"
export PYTHONPATH="$VERIF_REPO:$PWD"
mkdir -p evidence replays
/venv/bin/python -W ignore -m selftest.run || { echo "setup: reference self-tests FAILED"; exit 1; }
echo "setup: ok"
