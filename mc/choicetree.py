"""E3: stateless exploration of environment answers (scripted random sources).

run(chooser) executes the real code once; every intercepted random draw calls chooser.choose(n_options, label, info)
which returns the scripted answer (prefix replay, default answer 0 afterwards). explore() enumerates the whole tree
depth-first (optionally deviation-bounded: a deviation is a non-default answer), every execution runs to completion.
"""


class ReplayDivergence(RuntimeError):
    pass


class HorizonExceeded(BaseException):
    """Raised inside choose() when an execution makes more draws than the stated horizon (retry loops).
    BaseException so that `except Exception` clauses in the code under exploration do not swallow it."""


class Chooser:
    def __init__(self, prefix=(), horizon=None):
        self.horizon = horizon
        self.prefix = list(prefix)
        self.trace = []   # (n_options, chosen, label)
        self.infos = []   # argument of each draw (distribution handed to the sampler, ...)

    def choose(self, n, label=None, info=None):
        i = len(self.trace)
        if self.horizon is not None and i >= self.horizon:
            raise HorizonExceeded(f"more than {self.horizon} draws")
        c = self.prefix[i] if i < len(self.prefix) else 0
        if n <= 0:
            raise ReplayDivergence(f"choice point {label} with no options")
        if c >= n:
            raise ReplayDivergence(f"replay divergence at point {i} ({label}): scripted {c} but only {n} options")
        self.trace.append((n, c, label))
        self.infos.append(info)
        return c


def _canon(o):
    """Canonical form for the replay-twice comparison (rounds floats, removes negative zeros)."""
    import numpy as np
    if isinstance(o, np.ndarray):
        a = np.round(o.astype(complex), 10) + 0.0
        return ("nd", a.shape, tuple((float(x.real) + 0.0, float(x.imag) + 0.0) for x in a.reshape(-1)))
    if isinstance(o, dict):
        return tuple(sorted((repr(k), _canon(v)) for k, v in o.items()))
    if isinstance(o, (list, tuple)):
        return tuple(_canon(v) for v in o)
    if isinstance(o, (float, complex, np.floating, np.complexfloating)):
        z = complex(o)
        return (round(z.real, 10) + 0.0, round(z.imag, 10) + 0.0)
    return repr(o)


def explore(run, bound=None, max_exec=None, check_replay=True, horizon=None):
    """Yield (choices, trace, infos, result) for every execution. `bound` = max number of non-default answers."""
    stack = [[]]
    n = 0
    first = True
    capped = False
    while stack:
        prefix = stack.pop()
        ch = Chooser(prefix, horizon)
        try:
            res = run(ch)
        except HorizonExceeded:
            res = "HORIZON"
        if [t[1] for t in ch.trace[:len(prefix)]] != list(prefix):
            raise ReplayDivergence("prefix not replayed")
        if first and check_replay:
            ch2 = Chooser(prefix, horizon)
            try:
                res2 = run(ch2)
            except HorizonExceeded:
                res2 = "HORIZON"
            if ch2.trace != ch.trace or _canon(res2) != _canon(res):
                raise ReplayDivergence(f"same schedule, different observation: {res!r} vs {res2!r}")
            first = False
        n += 1
        yield [t[1] for t in ch.trace], ch.trace, ch.infos, res
        if max_exec and n >= max_exec:
            capped = bool(stack)
            break
        for i in range(len(ch.trace) - 1, len(prefix) - 1, -1):
            nopt, c, _ = ch.trace[i]
            dev_before = sum(1 for t in ch.trace[:i] if t[1] != 0)
            if bound is not None and dev_before + 1 > bound:
                continue
            base = [t[1] for t in ch.trace[:i]]
            for alt in range(nopt - 1, 0, -1):
                stack.append(base + [alt])
    explore.capped = capped


explore.capped = False


def sequences(n_options, length):
    """index -> tuple decoding helper: all sequences of `length` draws over n_options, as one choice point."""
    import itertools
    return list(itertools.product(range(n_options), repeat=length))


