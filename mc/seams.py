"""Scripted random sources installed from the harness side (no repository hook needed).

Every seam turns a random draw of the implementation into a choice point of mc.choicetree.Chooser and records the
argument of the draw (the distribution / state handed to the sampler), which is part of the oracle.
"""
import contextlib
import itertools

import numpy as np

from .choicetree import sequences


class UnownedRandomness(RuntimeError):
    pass


BULK = 8  # draws larger than this are answered by constant arrays (one choice over the support); enumerating sequences is only feasible for a few draws


class _RvProxy:
    def __init__(self, chooser, xk, pk, label):
        self.ch, self.xk, self.pk, self.label = chooser, np.asarray(xk), np.asarray(pk, dtype=float), label

    def rvs(self, size=1, **kw):
        size = int(size)
        if size > BULK:
            # bulk draw (chunked-sampling paths): enumerating sample sequences is impossible; the answer is a constant array
            # whose value is a single choice point over the support, recorded like any other draw
            i = self.ch.choose(len(self.xk), self.label + "[bulk]", {"xk": self.xk.tolist(), "pk": self.pk.tolist(), "size": size, "bulk": True})
            return np.full(size, self.xk[i])
        seqs = sequences(len(self.xk), size)
        i = self.ch.choose(len(seqs), self.label, {"xk": self.xk.tolist(), "pk": self.pk.tolist(), "size": size})
        return np.array([self.xk[j] for j in seqs[i]])


class StatsProxy:
    """Replacement for the `scipy.stats` module object inside a Tangelo module: rv_discrete(...).rvs(size) is scripted."""

    def __init__(self, chooser, label="rv_discrete.rvs"):
        self.ch, self.label = chooser, label

    def rv_discrete(self, name=None, values=None, **kw):
        xk, pk = values
        return _RvProxy(self.ch, xk, pk, self.label)

    def __getattr__(self, name):
        raise UnownedRandomness(f"scipy.stats.{name} used but not scripted")


@contextlib.contextmanager
def patched(obj, attr, value):
    old = getattr(obj, attr)
    setattr(obj, attr, value)
    try:
        yield
    finally:
        setattr(obj, attr, old)


GRID_OFFSET = 0.4  # grid points (i+0.4)/K never coincide with probabilities that are multiples of 1/K or 1/2K


class GridRandom:
    """numpy proxy: np.random.random() is a choice point over the grid {(i+0.4)/K}; everything else delegates."""

    def __init__(self, chooser, K=8):
        self._ch, self._K = chooser, K
        self.random = self  # so that np.random.random() resolves to self.random(...)

    def __call__(self, *a, **k):
        i = self._ch.choose(self._K, "np.random.random", {"K": self._K})
        return (i + GRID_OFFSET) / self._K

    def __getattr__(self, name):
        if name in ("seed", "rand", "randn", "randint", "choice", "uniform", "normal", "shuffle", "permutation"):
            raise UnownedRandomness(f"numpy.random.{name} used but not scripted")
        raise AttributeError(name)


class NumpyProxy:
    def __init__(self, chooser, K=8):
        self.random = GridRandom(chooser, K)

    def __getattr__(self, name):
        return getattr(np, name)


class ScriptedRandomState(np.random.RandomState):
    """Passed to cirq simulators as `seed`: every draw cirq makes goes through choice()/random_sample()."""

    def __init__(self, chooser):
        super().__init__(0)
        self._ch = chooser

    def choice(self, a, size=None, replace=True, p=None):
        n = int(a) if np.isscalar(a) else len(a)
        vals = list(range(n)) if np.isscalar(a) else list(a)
        pp = None if p is None else np.asarray(p, dtype=float).tolist()
        support = [i for i in range(n) if (pp is None or pp[i] > 1e-12)]
        if size is None:
            k = self._ch.choose(len(support), "prng.choice", {"p": pp, "size": None})
            return vals[support[k]]
        m = int(np.prod(size))
        seqs = sequences(len(support), m)
        k = self._ch.choose(len(seqs), "prng.choice", {"p": pp, "size": m})
        return np.array([vals[support[j]] for j in seqs[k]]).reshape(size)

    def _unowned(self, name):
        def f(*a, **k):
            raise UnownedRandomness(f"RandomState.{name} used but not scripted")
        return f

    def random_sample(self, *a, **k):
        raise UnownedRandomness("RandomState.random_sample used but not scripted")

    random = rand = randn = randint = uniform = normal = shuffle = permutation = random_sample


class CirqProxy:
    """Stands in for the `cirq` module held by CirqSimulator.cirq: simulators get a scripted RandomState, the two
    sampling helpers become choice points that record the exact state they were handed."""

    def __init__(self, chooser):
        import cirq
        self._cirq = cirq
        self._ch = chooser

    def Simulator(self, **kw):
        kw["seed"] = ScriptedRandomState(self._ch)
        return self._cirq.Simulator(**kw)

    def DensityMatrixSimulator(self, **kw):
        kw["seed"] = ScriptedRandomState(self._ch)
        return self._cirq.DensityMatrixSimulator(**kw)

    def _sample(self, probs, n, indices, repetitions, label, state):
        support = [i for i in range(len(probs)) if probs[i] > 1e-12]
        seqs = sequences(len(support), int(repetitions))
        k = self._ch.choose(len(seqs), label, {"probs": {format(i, f"0{n}b"): float(probs[i]) for i in support},
                                               "repetitions": int(repetitions), "state": state})
        out = []
        for j in seqs[k]:
            bits = format(support[j], f"0{n}b")
            out.append([int(bits[q]) for q in indices])
        return np.array(out, dtype=np.int8).reshape(int(repetitions), len(indices))

    def sample_state_vector(self, state_vector, indices, repetitions=1, **kw):
        sv = np.asarray(state_vector)
        n = int(round(np.log2(sv.size)))
        return self._sample(np.abs(sv.reshape(-1)) ** 2, n, list(indices), repetitions, "sample_state_vector", sv.reshape(-1).copy())

    def sample_density_matrix(self, density_matrix, indices, repetitions=1, **kw):
        dm = np.asarray(density_matrix)
        dim = int(round(np.sqrt(dm.size)))
        dm = dm.reshape(dim, dim)
        n = int(round(np.log2(dim)))
        return self._sample(np.real(np.diag(dm)), n, list(indices), repetitions, "sample_density_matrix", dm.copy())

    def __getattr__(self, name):
        return getattr(self._cirq, name)
