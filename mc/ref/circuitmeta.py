"""Recomputation of circuit metadata from a plain gate list (descriptors), independent of Tangelo's bookkeeping."""
from collections import Counter


def qubits_of(d):
    return list(d[1]) + (list(d[2]) if d[2] else [])


def meta(descs):
    names = Counter(d[0] for d in descs)
    arity = Counter(len(qubits_of(d)) for d in descs)
    level = {}
    depth = 0
    for d in descs:
        qs = qubits_of(d)
        lvl = 1 + max([level.get(q, 0) for q in qs], default=0)
        for q in qs:
            level[q] = lvl
        depth = max(depth, lvl)
    allq = [q for d in descs for q in qubits_of(d)]
    return {
        "size": len(descs),
        "counts": dict(names),
        "counts_n_qubit": dict(arity),
        "is_variational": any(bool(d[4]) for d in descs),
        "is_mixed_state": ("MEASURE" in names) or ("CMEASURE" in names),
        "depth": depth,
        "min_width": (max(allq) + 1) if allq else 0,
    }


def selftest():
    g = [["H", [0], None, "", False], ["CNOT", [1], [0], "", False], ["X", [2], None, "", True], ["H", [1], None, "", False]]
    m = meta(g)
    assert m["size"] == 4 and m["depth"] == 3 and m["counts"] == {"H": 2, "CNOT": 1, "X": 1}
    assert m["counts_n_qubit"] == {1: 3, 2: 1} and m["is_variational"] and not m["is_mixed_state"] and m["min_width"] == 3
    assert meta([])["depth"] == 0 and meta([])["min_width"] == 0
