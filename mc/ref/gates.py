"""Textbook gate matrices (numpy only, no Tangelo / cirq / openfermion code).

Definitions are the ones the code base documents: RX/RY/RZ(t) = exp(-i t P / 2), PHASE(t) = diag(1, e^{it}),
S = PHASE(pi/2), T = PHASE(pi/4), XX(t) = exp(-i t X(x)X / 2), SWAP, C<G> = G applied iff every control is |1>.
A gate descriptor is  [name, targets(list), controls(list|None), parameter, is_variational].
"""
import numpy as np

I2 = np.eye(2, dtype=complex)
X = np.array([[0, 1], [1, 0]], dtype=complex)
Y = np.array([[0, -1j], [1j, 0]], dtype=complex)
Z = np.array([[1, 0], [0, -1]], dtype=complex)
H = np.array([[1, 1], [1, -1]], dtype=complex) / np.sqrt(2)
SWAP = np.array([[1, 0, 0, 0], [0, 0, 1, 0], [0, 1, 0, 0], [0, 0, 0, 1]], dtype=complex)
PAULI = {"I": I2, "X": X, "Y": Y, "Z": Z}


def rot(P, t):
    return np.cos(t / 2) * np.eye(P.shape[0], dtype=complex) - 1j * np.sin(t / 2) * P


def phase(t):
    return np.array([[1, 0], [0, np.exp(1j * t)]], dtype=complex)


def base_matrix(name, param):
    """Matrix acting on the *targets* of gate `name` (control prefix C stripped by the caller)."""
    if name == "H":
        return H
    if name == "X":
        return X
    if name == "Y":
        return Y
    if name == "Z":
        return Z
    if name == "S":
        return phase(np.pi / 2)
    if name == "SDAG":
        return phase(-np.pi / 2)
    if name == "T":
        return phase(np.pi / 4)
    if name == "RX":
        return rot(X, float(param))
    if name == "RY":
        return rot(Y, float(param))
    if name == "RZ":
        return rot(Z, float(param))
    if name == "PHASE":
        return phase(float(param))
    if name == "XX":
        return rot(np.kron(X, X), float(param))
    if name == "SWAP":
        return SWAP
    raise KeyError(name)


CONTROLLED = {"CNOT": "X", "CX": "X", "CY": "Y", "CZ": "Z", "CH": "H", "CRX": "RX", "CRY": "RY", "CRZ": "RZ",
              "CPHASE": "PHASE", "CSWAP": "SWAP", "CS": "S", "CT": "T"}
UNCONTROLLED = {"H", "X", "Y", "Z", "S", "SDAG", "T", "RX", "RY", "RZ", "PHASE", "XX", "SWAP"}


def gate_matrix(name, param, n_controls):
    """Return (matrix, order) where the matrix acts on qubits listed as controls then targets."""
    if name in CONTROLLED:
        m = base_matrix(CONTROLLED[name], param)
        if n_controls == 0:
            raise KeyError(f"{name} without control")
        dim_t = m.shape[0]
        dim = dim_t * 2 ** n_controls
        M = np.eye(dim, dtype=complex)
        M[dim - dim_t:, dim - dim_t:] = m
        return M
    if name in UNCONTROLLED:
        if n_controls:
            raise KeyError(f"{name} with control")
        return base_matrix(name, param)
    raise KeyError(name)


def selftest():
    for t in (0.3, -1.2, 2 * np.pi + 0.1):
        for P in (X, Y, Z):
            U = rot(P, t)
            assert np.allclose(U @ U.conj().T, I2)
            # exp(-i t P/2) by series
            from math import factorial
            S = sum(((-1j * t / 2) ** k / factorial(k)) * np.linalg.matrix_power(P, k) for k in range(40))
            assert np.allclose(U, S)
    assert np.allclose(phase(np.pi / 2) @ phase(np.pi / 2), Z)
    assert np.allclose(base_matrix("T", None) @ base_matrix("T", None), base_matrix("S", None))
    M = gate_matrix("CNOT", None, 1)
    assert np.allclose(M, np.array([[1, 0, 0, 0], [0, 1, 0, 0], [0, 0, 0, 1], [0, 0, 1, 0]]))
    M = gate_matrix("CSWAP", None, 1)
    assert M.shape == (8, 8) and np.allclose(M[4:, 4:], SWAP) and np.allclose(M[:4, :4], np.eye(4))
    xx = base_matrix("XX", 0.7)
    from scipy.linalg import expm
    assert np.allclose(xx, expm(-1j * 0.35 * np.kron(X, X)))
