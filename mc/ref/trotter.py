"""Reference model for time evolution (numpy + scipy.linalg.expm only; no Tangelo / openfermion / cirq code).

Conventions
  * qubit 0 is the most significant bit of a matrix index (same as mc.ref.statevec, Tangelo "lsq_first");
  * a Pauli word is a tuple/list of (qubit, 'X'|'Y'|'Z') pairs, the identity word is ();
  * a term list is an ORDERED list [(word, real coefficient), ...]; "H_j" below is coefficient_j * word_j.

Exact objects
  evolution(terms, n, t)        exp(-i t sum_j H_j)                     (scipy.linalg.expm on the dense Pauli sum)
  controlled(U, m)              |1..1><1..1| (x) U + (1 - |1..1><1..1|) (x) 1     (projector construction, controls first)
  place(M, qubits, n)           M acting on the listed qubits of an n-qubit register
  controlled_on(U, tq, cq, n)   1 + (prod_c |1><1|_c) (U_tq - 1)        (projector construction on arbitrary positions)
  product_formula(mats, t, r, order)   the exact product formula itself (used by the self-test only)
  fermion_dense(terms, n_modes) ladder operators written out on occupation-number kets (sign = parity of the
                                occupations of the modes in front), mode p = qubit p

Rigorous product-formula error bounds (Childs, Su, Tran, Wiebe, Zhu, "Theory of Trotter error with commutator
scaling", PRX 11, 011020 (2021), Propositions 9 and 10; anti-Hermitian summands -i H_j, so all norms below are norms of
commutators of the Hermitian H_j). With S_j = sum_{k>j} H_k  (k>j = later in the ordered list):

  first order   S1(t) = e^{-itH_L} ... e^{-itH_1}                 (H_1 = first listed = applied first)
        || S1(t/r)^r - e^{-itH} ||  <=  t^2/(2r)  *  sum_j || [S_j, H_j] ||
        (the same expression evaluated on the reversed list is ALSO a valid bound for the same formula, because
         S1_reversed(t) = S1(-t)^-1; pf1_bound uses the order given.)
  second order  S2(t) = e^{-itH_1/2} ... e^{-itH_L/2} e^{-itH_L/2} ... e^{-itH_1/2}   (H_1 outermost)
        || S2(t/r)^r - e^{-itH} ||  <=  |t|^3/r^2 * sum_j ( ||[S_j,[S_j,H_j]]||/12 + ||[H_j,[H_j,S_j]]||/24 )
  even order 2k > 2 (Suzuki recursion S_2k(t) = S_2k-2(p t)^2 S_2k-2((1-4p) t) S_2k-2(p t)^2, p = 1/(4-4^(1/(2k-1)))):
        S_2k(t) is a product of S2(s_i t) with sum_i s_i = 1, therefore by the triangle inequality for unitaries
        || S_2k(t/r)^r - e^{-itH} ||  <=  (second-order bound) * sum_i |s_i|^3          (rigorous, not tight)
  any order of the terms (used when the order used by the code is not observed): every S_j is a sub-sum of the other
        terms, hence  sum_j||[S_j,H_j]|| <= sum_{j<k} ||[H_j,H_k]||  and the analogous triple sums; for Pauli words the
        norms are 2|c_j c_k| resp. 4|c_j c_k c_l| or 0 (decided on the words).
"""
import itertools
import math

import numpy as np
from scipy.linalg import expm

_P = {"I": np.eye(2, dtype=complex),
      "X": np.array([[0, 1], [1, 0]], dtype=complex),
      "Y": np.array([[0, -1j], [1j, 0]], dtype=complex),
      "Z": np.array([[1, 0], [0, -1]], dtype=complex)}
_P1 = np.array([[0, 0], [0, 1]], dtype=complex)   # |1><1|


# ---------------------------------------------------------------------------------------------------------------------
# dense operators

def pauli_dense(word, n):
    ops = ["I"] * n
    for q, p in word:
        if ops[q] != "I":
            raise ValueError(f"qubit {q} twice in {word}")
        ops[q] = p
    M = np.array([[1]], dtype=complex)
    for p in ops:
        M = np.kron(M, _P[p])
    return M


def op_dense(terms, n):
    """terms: iterable of (word, coefficient); duplicates add up."""
    H = np.zeros((2 ** n, 2 ** n), dtype=complex)
    for w, c in terms:
        H += c * pauli_dense(w, n)
    return H


def term_mats(terms, n):
    return [c * pauli_dense(w, n) for w, c in terms]


def evolution_of(H, t=1.0):
    H = np.asarray(H, dtype=complex)
    if np.linalg.norm(H - H.conj().T) > 1e-10 * max(1.0, np.linalg.norm(H)):
        raise ValueError("time evolution under a non-Hermitian operator is outside the property")
    return expm(-1j * t * H)


def evolution(terms, n, t=1.0):
    return evolution_of(op_dense(terms, n), t)


def place(M, qubits, n):
    """M acts on `qubits` (first listed = most significant index bit of M); identity on the other qubits of n."""
    k = len(qubits)
    if len(set(qubits)) != k or M.shape != (2 ** k, 2 ** k):
        raise ValueError("bad placement")
    dim = 2 ** n
    psi = np.eye(dim, dtype=complex).reshape((2,) * n + (dim,))
    Mt = np.asarray(M, dtype=complex).reshape((2,) * (2 * k))
    psi = np.tensordot(Mt, psi, axes=(list(range(k, 2 * k)), list(qubits)))
    psi = np.moveaxis(psi, list(range(k)), list(qubits))
    return psi.reshape(dim, dim)


def controlled(U, m):
    """m controls in front (most significant), U on the remaining qubits."""
    if m == 0:
        return np.array(U, dtype=complex)
    proj = np.array([[1]], dtype=complex)
    for _ in range(m):
        proj = np.kron(proj, _P1)
    d = U.shape[0]
    return np.kron(proj, U) + np.kron(np.eye(2 ** m) - proj, np.eye(d))


def controlled_on(U, target_qubits, control_qubits, n):
    """U acts on target_qubits iff every control qubit is |1>; n-qubit matrix."""
    if set(target_qubits) & set(control_qubits):
        raise ValueError("control among the targets")
    k = len(target_qubits)
    M = place(np.asarray(U, dtype=complex) - np.eye(2 ** k), list(target_qubits), n)
    for c in control_qubits:
        M = place(_P1, [c], n) @ M
    return np.eye(2 ** n, dtype=complex) + M


# ---------------------------------------------------------------------------------------------------------------------
# Pauli words: commutation decided on the words

def words_commute(w1, w2):
    d1 = dict(w1)
    anti = sum(1 for q, p in w2 if q in d1 and d1[q] != p)
    return anti % 2 == 0


def all_commute(words):
    ws = list(words)
    return all(words_commute(a, b) for a, b in itertools.combinations(ws, 2))


def word_product(w1, w2):
    """Product word (phase dropped)."""
    tab = {("X", "Y"): "Z", ("Y", "X"): "Z", ("Y", "Z"): "X", ("Z", "Y"): "X", ("Z", "X"): "Y", ("X", "Z"): "Y"}
    d = dict(w1)
    for q, p in w2:
        if q not in d:
            d[q] = p
        elif d[q] == p:
            del d[q]
        else:
            d[q] = tab[(d[q], p)]
    return tuple(sorted(d.items()))


# ---------------------------------------------------------------------------------------------------------------------
# bounds

def comm(A, B):
    return A @ B - B @ A


def nrm(A):
    if not np.any(A):
        return 0.0
    return float(np.linalg.norm(A, 2))


def pf1_sum(mats):
    """sum_j || [S_j, H_j] ||  for the ordered list."""
    tot = 0.0
    L = len(mats)
    for j in range(L - 1):
        S = sum(mats[j + 1:])
        tot += nrm(comm(S, mats[j]))
    return tot


def pf2_sum(mats):
    """sum_j ( ||[S_j,[S_j,H_j]]||/12 + ||[H_j,[H_j,S_j]]||/24 )  for the ordered list (H_1 outermost)."""
    tot = 0.0
    L = len(mats)
    for j in range(L - 1):
        S = sum(mats[j + 1:])
        Hj = mats[j]
        tot += nrm(comm(S, comm(S, Hj))) / 12.0 + nrm(comm(Hj, comm(Hj, S))) / 24.0
    return tot


def pf1_bound(mats, t=1.0, r=1):
    return (t * t) / (2.0 * r) * pf1_sum(mats)


def pf2_bound(mats, t=1.0, r=1):
    return abs(t) ** 3 / float(r * r) * pf2_sum(mats)


def suzuki_s2_fractions(order):
    """Fractions s_i such that S_order(t) = prod_i S2(s_i t)  (sum s_i = 1)."""
    if order < 2 or order % 2:
        raise ValueError("even order >= 2")
    if order == 2:
        return [1.0]
    p = 1.0 / (4.0 - 4.0 ** (1.0 / (order - 1)))
    inner = suzuki_s2_fractions(order - 2)
    out = []
    for f in (p, p, 1.0 - 4.0 * p, p, p):
        out += [f * s for s in inner]
    return out


def suzuki_cube_factor(order):
    return sum(abs(s) ** 3 for s in suzuki_s2_fractions(order))


def pf_bound(mats, order, t=1.0, r=1):
    """Rigorous bound on || S_order(t/r)^r - exp(-it sum mats) || for the ordered list of Hermitian matrices."""
    if order == 1:
        return pf1_bound(mats, t, r)
    if order == 2:
        return pf2_bound(mats, t, r)
    return pf2_bound(mats, t, r) * suzuki_cube_factor(order)


def any_order_sums_pauli(terms):
    """Order-independent upper bounds (A1, A2) on pf1_sum / pf2_sum for a list of (word, coefficient) with real
    coefficients, evaluated on the words: ||[cP,dQ]|| = 2|cd| iff P,Q anticommute; ||[bR,[cP,dQ]]|| = 4|bcd| iff P,Q
    anticommute and R anticommutes with PQ."""
    ts = [(tuple(w), abs(float(c))) for w, c in terms if abs(c) > 0]
    L = len(ts)
    anti = [[not words_commute(ts[a][0], ts[b][0]) for b in range(L)] for a in range(L)]
    A1 = 0.0
    for a in range(L):
        for b in range(a + 1, L):
            if anti[a][b]:
                A1 += 2 * ts[a][1] * ts[b][1]
    A2 = 0.0
    for j in range(L):
        for l in range(L):
            if l == j or not anti[l][j]:
                continue
            plj = word_product(ts[l][0], ts[j][0])
            # [H_k,[H_l,H_j]] for k != j (k may equal l): 1/12 part
            for k in range(L):
                if k == j:
                    continue
                if not words_commute(ts[k][0], plj):
                    A2 += 4 * ts[k][1] * ts[l][1] * ts[j][1] / 12.0
            # [H_j,[H_j,H_l]]: 1/24 part  (H_j anticommutes with P_j P_l whenever P_j, P_l anticommute)
            A2 += 4 * ts[j][1] * ts[j][1] * ts[l][1] / 24.0
    return A1, A2


def pf_bound_any_order(terms, order, t=1.0, r=1):
    A1, A2 = any_order_sums_pauli(terms)
    if order == 1:
        return (t * t) / (2.0 * r) * A1
    b = abs(t) ** 3 / float(r * r) * A2
    return b if order == 2 else b * suzuki_cube_factor(order)


# ---------------------------------------------------------------------------------------------------------------------
# the product formula itself (self-test and documentation of the convention; never used as an oracle)

def _s1(mats, t):
    U = np.eye(mats[0].shape[0], dtype=complex)
    for M in mats:                       # first listed is applied first
        U = expm(-1j * t * M) @ U
    return U


def _s(mats, order, t):
    if order == 1:
        return _s1(mats, t)
    if order == 2:
        return _s1(mats[::-1], t / 2) @ _s1(mats, t / 2)
    U = np.eye(mats[0].shape[0], dtype=complex)
    for s in suzuki_s2_fractions(order):
        U = _s(mats, 2, s * t) @ U
    return U


def product_formula(mats, t, r, order):
    return np.linalg.matrix_power(_s(mats, order, t / r), r)


# ---------------------------------------------------------------------------------------------------------------------
# fermions, written out on occupation kets (mode p = qubit p = bit p from the left)

def ladder_dense(p, dagger, n_modes):
    dim = 2 ** n_modes
    M = np.zeros((dim, dim), dtype=complex)
    for i in range(dim):
        occ = [(i >> (n_modes - 1 - q)) & 1 for q in range(n_modes)]
        if occ[p] == (1 if dagger else 0):
            continue                              # a^ on occupied / a on empty -> 0
        sign = (-1) ** sum(occ[:p])
        occ2 = list(occ)
        occ2[p] = 1 - occ[p]
        j = sum(b << (n_modes - 1 - q) for q, b in enumerate(occ2))
        M[j, i] = sign
    return M


def fermion_dense(terms, n_modes):
    """terms: iterable of (tuple of (mode, 1=creation|0=annihilation) left to right, coefficient)."""
    dim = 2 ** n_modes
    H = np.zeros((dim, dim), dtype=complex)
    for lad, c in terms:
        M = np.eye(dim, dtype=complex)
        for p, d in lad:
            M = M @ ladder_dense(p, bool(d), n_modes)
        H += c * M
    return H


# ---------------------------------------------------------------------------------------------------------------------

def selftest():
    X, Y, Z = _P["X"], _P["Y"], _P["Z"]
    # dense words, index convention
    assert np.allclose(pauli_dense(((0, "X"), (1, "Z")), 2), np.kron(X, Z))
    assert np.allclose(pauli_dense(((1, "Y"),), 3), np.kron(np.kron(np.eye(2), Y), np.eye(2)))
    # exp(-i c P) = cos c - i sin c P
    for c in (0.4, -7.1, 2 * math.pi + 0.3):
        P = pauli_dense(((0, "Y"), (2, "X")), 3)
        assert np.allclose(evolution([(((0, "Y"), (2, "X")), c)], 3), math.cos(c) * np.eye(8) - 1j * math.sin(c) * P)
    assert np.allclose(evolution([((), 0.3)], 1), np.exp(-0.3j) * np.eye(2))
    try:
        evolution([(((0, "X"),), 1j)], 1)
        raise AssertionError("non-Hermitian accepted")
    except ValueError:
        pass
    # controlled: block structure, agreement of the two constructions, and with mc.ref.statevec / gates
    U = evolution([(((0, "X"), (1, "Y")), 0.37)], 2)
    C = controlled(U, 2)
    assert np.allclose(C[:12, :12], np.eye(12)) and np.allclose(C[12:, 12:], U)
    assert np.allclose(controlled_on(U, [2, 3], [0, 1], 4), C)
    assert np.allclose(controlled_on(U, [2, 3], [1, 0], 4), C)
    from . import statevec as SV
    assert np.allclose(place(U, [3, 1], 4), SV.embed(U, [3, 1], 4))
    rz = SV.unitary([["CRZ", [0], [2, 1], 0.8, False]], 3)
    assert np.allclose(controlled_on(evolution([(((0, "Z"),), 0.4)], 1), [0], [1, 2], 3), rz)
    cph = SV.unitary([["PHASE", [1], None, -0.3, False]], 2)
    assert np.allclose(controlled_on(evolution([((), 0.3)], 1), [0], [1], 2), cph)
    assert np.allclose(SV.op_matrix({((0, "X"), (1, "Z")): 0.5, (): -0.2}, 2), op_dense([(((0, "X"), (1, "Z")), 0.5), ((), -0.2)], 2))
    # commutation on words == commutation of matrices; word_product
    W = [tuple((q, p) for q, p in enumerate(ps) if p != "I") for ps in itertools.product("IXYZ", repeat=2)]
    for a, b in itertools.product(W, W):
        A, B = pauli_dense(a, 2), pauli_dense(b, 2)
        assert words_commute(a, b) == (np.linalg.norm(comm(A, B)) < 1e-12)
        Pab = pauli_dense(word_product(a, b), 2)
        AB = A @ B
        ph = AB[np.nonzero(Pab)][0] / Pab[np.nonzero(Pab)][0]
        assert np.allclose(AB, ph * Pab) and abs(abs(ph) - 1) < 1e-12
    # Suzuki fractions
    for o in (2, 4, 6):
        fr = suzuki_s2_fractions(o)
        assert abs(sum(fr) - 1) < 1e-12 and len(fr) == 5 ** (o // 2 - 1)
        assert suzuki_cube_factor(o) <= 1 + 1e-12
    # bounds vs the exact product formula: every ordered pair/triple of a 7-word alphabet, several coefficient/time/step sets
    alpha = [W[i] for i in (0, 1, 3, 6, 9, 11, 15)]
    coefs = (0.7, -0.45, 2.1)
    n_chk = n_tight = 0
    for k in (2, 3):
        for ws in itertools.permutations(alpha, k):
            cs = [coefs[(i + len(ws[0])) % 3] for i in range(k)]
            terms = list(zip(ws, cs))
            mats = term_mats(terms, 2)
            H = op_dense(terms, 2)
            com = all_commute(ws)
            for t in (0.3, -0.6):
                V = evolution_of(H, t)
                for r in (1, 2):
                    for o in (1, 2, 4, 6):
                        if o > 2 and (k == 3 or r == 2):
                            continue
                        err = np.linalg.norm(product_formula(mats, t, r, o) - V, 2)
                        b = pf_bound(mats, o, t, r)
                        assert err <= b + 1e-12, ("bound violated", terms, t, r, o, err, b)
                        assert b <= pf_bound_any_order(terms, o, t, r) + 1e-12
                        if o == 1:   # the reversed-list expression also bounds the first-order formula
                            assert err <= pf1_bound(mats[::-1], t, r) + 1e-12
                        if com:
                            assert err < 1e-12 and b < 1e-12
                        n_chk += 1
                        if o <= 2 and not com and err > 0.2 * b:
                            n_tight += 1
    assert n_chk > 1000 and n_tight > 100, (n_chk, n_tight)
    # the second-order bound is sensitive to which term is outermost: with a heavy inner term the bound evaluated on
    # the reversed list is violated by the formula whose first-listed term is outermost (so the convention is pinned)
    A, B = 0.2 * pauli_dense(((0, "X"),), 1), 1.5 * pauli_dense(((0, "Z"),), 1)
    t = 0.2
    err = np.linalg.norm(product_formula([A, B], t, 1, 2) - evolution_of(A + B, t), 2)
    assert err <= pf2_bound([A, B], t, 1) and err > pf2_bound([B, A], t, 1)
    # asymptotic tightness for two terms (leading error term = t^3 || -[A,[A,B]]/24 + [B,[B,A]]/12 ||)
    t = 1e-2
    err = np.linalg.norm(product_formula([A, B], t, 1, 2) - evolution_of(A + B, t), 2)
    lead = t ** 3 * nrm(-comm(A, comm(A, B)) / 24 + comm(B, comm(B, A)) / 12)
    assert abs(err - lead) < 1e-2 * lead
    err1 = np.linalg.norm(product_formula([A, B], t, 1, 1) - evolution_of(A + B, t), 2)
    assert abs(err1 - pf1_bound([A, B], t, 1)) < 1e-2 * err1
    # fermions: CAR on the written-out ladder matrices; number operator diagonal; hopping is Hermitian
    n = 3
    a = [ladder_dense(p, False, n) for p in range(n)]
    ad = [ladder_dense(p, True, n) for p in range(n)]
    for p in range(n):
        assert np.allclose(ad[p], a[p].conj().T)
        for q in range(n):
            assert np.allclose(a[p] @ ad[q] + ad[q] @ a[p], np.eye(8) * (p == q))
            assert np.allclose(a[p] @ a[q] + a[q] @ a[p], 0)
    N1 = fermion_dense([(((1, 1), (1, 0)), 1.0)], n)
    assert np.allclose(N1, np.diag([(i >> 1) & 1 for i in range(8)]))
    # mode p = qubit p with Z-string in front: a_1 = Z_0 (X_1 + iY_1)/2
    ref = np.kron(np.kron(Z, (X + 1j * Y) / 2), np.eye(2))
    assert np.allclose(a[1], ref)
    return True


if __name__ == "__main__":
    selftest()
    print("ref.trotter selftest ok")
