"""Reference statevector / unitary simulator (numpy only).

Internal convention "Q0MSB": amplitude index i = sum_q b_q 2^(n-1-q); the bitstring b_0 b_1 ... b_{n-1} lists qubit 0
first. This is exactly what Backend._int_to_binstr calls "lsq_first" (binary representation of i read left to right is
qubit 0, 1, ...). "msq_first" is the opposite: i = sum_q b_q 2^q.
"""
import itertools

import numpy as np

from . import gates as G


def desc(g):
    """Tangelo Gate (or descriptor) -> descriptor list."""
    if isinstance(g, (list, tuple)):
        return list(g)
    return [g.name, list(g.target), (None if g.control is None else list(g.control)), g.parameter, bool(g.is_variational)]


def apply_matrix(psi, n, M, qubits):
    """psi: array with shape (2,)*n + batch; M acts on `qubits` in that order (first listed = most significant)."""
    k = len(qubits)
    Mt = M.reshape((2,) * (2 * k))
    psi = np.tensordot(Mt, psi, axes=(list(range(k, 2 * k)), list(qubits)))
    # tensordot puts the k output axes first; move them back
    return np.moveaxis(psi, list(range(k)), list(qubits))


def apply_gate(psi, n, g, qmap=None):
    name, tgt, ctl, par, _ = desc(g)
    ctl = list(ctl) if ctl else []
    M = G.gate_matrix(name, par, len(ctl))
    qs = ctl + list(tgt)
    if qmap is not None:
        qs = [qmap[q] for q in qs]
    return apply_matrix(psi, n, M, qs)


def unitary(gates, n, qmap=None):
    """Unitary of the gate list on n qubits (columns = images of basis states), Q0MSB."""
    dim = 2 ** n
    psi = np.eye(dim, dtype=complex).reshape((2,) * n + (dim,))
    for g in gates:
        psi = apply_gate(psi, n, g, qmap)
    return psi.reshape(dim, dim)


def unitary_on(gates, qubits):
    """Unitary restricted to the ordered qubit list `qubits` (every gate must act inside it)."""
    qmap = {q: i for i, q in enumerate(qubits)}
    return unitary(gates, len(qubits), qmap)


def run(gates, n, init=None):
    if init is None:
        psi = np.zeros(2 ** n, dtype=complex)
        psi[0] = 1
    else:
        psi = np.asarray(init, dtype=complex).copy()
    psi = psi.reshape((2,) * n)
    for g in gates:
        psi = apply_gate(psi, n, g)
    return psi.reshape(-1)


def to_order(vec, n, order):
    """Q0MSB vector -> vector in the named Tangelo order."""
    vec = np.asarray(vec)
    if order == "lsq_first":
        return vec
    if order == "msq_first":
        return vec.reshape((2,) * n).transpose(*reversed(range(n))).reshape(-1)
    raise ValueError(order)


from_order = to_order  # the permutation is an involution


def bitstr(i, n):
    return format(i, f"0{n}b")


def freqs(vec, n, threshold=0.0):
    p = np.abs(np.asarray(vec)) ** 2
    return {bitstr(i, n): float(p[i]) for i in range(2 ** n) if p[i] - threshold >= 0 and p[i] > 0}


def phase_align(A, B):
    """Return the unit phase ph maximising Re <B, ph*... > i.e. minimising ||A - ph*B||_F."""
    ov = np.vdot(B, A)
    if abs(ov) < 1e-300:
        return 1.0
    return ov / abs(ov)


def dist_up_to_phase(A, B):
    """Spectral-norm (matrices) / 2-norm (vectors) distance after optimal global phase alignment."""
    A = np.asarray(A, dtype=complex)
    B = np.asarray(B, dtype=complex)
    if A.shape != B.shape:
        return float("inf")
    ph = phase_align(A, B)
    D = A - ph * B
    if D.ndim == 2:
        return float(np.linalg.norm(D, 2))
    return float(np.linalg.norm(D))


def dist(A, B):
    A = np.asarray(A, dtype=complex)
    B = np.asarray(B, dtype=complex)
    if A.shape != B.shape:
        return float("inf")
    D = A - B
    return float(np.linalg.norm(D, 2) if D.ndim == 2 else np.linalg.norm(D))


def embed(U, sub_qubits, n):
    """Embed unitary U acting on ordered sub_qubits into n qubits (identity elsewhere), Q0MSB."""
    dim = 2 ** n
    psi = np.eye(dim, dtype=complex).reshape((2,) * n + (dim,))
    psi = apply_matrix(psi, n, U, list(sub_qubits))
    return psi.reshape(dim, dim)


def pauli_matrix(term, n):
    """term: iterable of (qubit, 'X'|'Y'|'Z'); dense 2^n matrix, Q0MSB."""
    ops = ["I"] * n
    for q, p in term:
        ops[q] = p
    M = np.array([[1]], dtype=complex)
    for p in ops:
        M = np.kron(M, G.PAULI[p])
    return M


def op_matrix(terms, n):
    """terms: dict {term tuple: coeff}"""
    M = np.zeros((2 ** n, 2 ** n), dtype=complex)
    for t, c in terms.items():
        M += c * pauli_matrix(t, n)
    return M


def selftest():
    G.selftest()
    # CNOT(target 1, control 0) on |10> -> |11>
    v = run([["X", [0], None, "", False], ["CNOT", [1], [0], "", False]], 2)
    assert abs(v[3] - 1) < 1e-12
    # qubit 0 is the most significant bit
    v = run([["X", [0], None, "", False]], 3)
    assert abs(v[4] - 1) < 1e-12 and freqs(v, 3) == {"100": 1.0}
    assert abs(to_order(v, 3, "msq_first")[1] - 1) < 1e-12
    # unitary vs kron
    U = unitary([["H", [1], None, "", False]], 2)
    assert np.allclose(U, np.kron(G.I2, G.H))
    U = unitary([["CRZ", [0], [1], 0.4, False]], 2)
    # control is qubit 1 (LSB), target qubit 0 (MSB)
    exp = np.eye(4, dtype=complex)
    rz = G.rot(G.Z, 0.4)
    exp[1, 1], exp[3, 3] = rz[0, 0], rz[1, 1]
    assert np.allclose(U, exp)
    U3 = unitary([["CSWAP", [0, 2], [1], "", False]], 3)
    for i in range(8):
        b = bitstr(i, 3)
        if b[1] == "1":
            b = b[2] + b[1] + b[0]
        assert abs(U3[int(b, 2), i] - 1) < 1e-12
    # unitary_on agrees with embedding
    gl = [["H", [5], None, "", False], ["CNOT", [2], [5], "", False]]
    A = unitary_on(gl, [2, 5])
    B = unitary(gl, 6)
    assert np.allclose(embed(A, [2, 5], 6), B)
    assert dist_up_to_phase(np.exp(0.3j) * A, A) < 1e-12
    assert np.allclose(pauli_matrix([(0, "X"), (1, "Z")], 2), np.kron(G.X, G.Z))


# ---------------------------------------------------------------------------------------------------------------------
# projective measurement (reference for mid-circuit MEASURE gates)

def project(psi, n, qubit, outcome):
    """Project qubit on |outcome>; return (unnormalised projected state, probability)."""
    t = np.array(psi, dtype=complex).reshape((2,) * n)
    idx = [slice(None)] * n
    idx[qubit] = 1 - int(outcome)
    t[tuple(idx)] = 0
    v = t.reshape(-1)
    return v, float(np.vdot(v, v).real)


def run_measured(gates, n, outcomes, init=None):
    """Run a gate list containing MEASURE gates, post-selecting the i-th MEASURE on outcomes[i].
    Returns (normalised final state or None if the branch has probability 0, branch probability)."""
    if init is None:
        psi = np.zeros(2 ** n, dtype=complex)
        psi[0] = 1
    else:
        psi = np.asarray(init, dtype=complex).copy()
    prob = 1.0
    k = 0
    for g in gates:
        d = desc(g)
        if d[0] == "MEASURE":
            v, p = project(psi, n, d[1][0], int(outcomes[k]))
            k += 1
            prob *= p
            if p < 1e-14:
                return None, 0.0
            psi = v / np.sqrt(p)
        else:
            psi = apply_gate(psi.reshape((2,) * n), n, d).reshape(-1)
    return psi, prob


def n_measures(gates):
    return sum(1 for g in gates if desc(g)[0] == "MEASURE")


def pauli_basis_distribution(psi, n, term):
    """Joint distribution of the eigenvalue bits (0 <-> +1) of the single-qubit Paulis of `term` on its qubits and of Z on
    all other qubits; keys are bitstrings with qubit 0 first. Independent of which rotation circuit realises the basis
    change. psi may be a vector or a density matrix."""
    R = np.array([[1]], dtype=complex)
    ops = {q: p for q, p in term}
    Hm = G.H
    Sdg = G.phase(-np.pi / 2)
    for q in range(n):
        p = ops.get(q, "Z")
        r = {"Z": G.I2, "I": G.I2, "X": Hm, "Y": Hm @ Sdg}[p]
        R = np.kron(R, r)
    psi = np.asarray(psi, dtype=complex)
    if psi.ndim == 1:
        pr = np.abs(R @ psi) ** 2
    else:
        pr = np.real(np.diag(R @ psi @ R.conj().T))
    return {bitstr(i, n): float(pr[i]) for i in range(2 ** n) if pr[i] > 1e-12}


def parity_value(bits, term):
    return (-1) ** sum(int(bits[q]) for q, _ in term)
