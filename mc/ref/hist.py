"""Reference arithmetic for measurement histograms (collections.Counter / plain dicts, numpy-free, no Tangelo).

A histogram is a dict {bitstring: weight}; the bitstring lists qubit 0 first (Tangelo "lsq_first"); weights are shot
counts (ints) or probabilities. All functions return new dicts and keep every key they produce (zero weights included);
`same()` compares two histograms as multisets, i.e. ignoring zero-weight entries.
"""
from collections import Counter
from fractions import Fraction


def clean(d):
    return {k: v for k, v in d.items() if v != 0}


def total(d):
    return sum(d.values())


def same(a, b, tol=0.0):
    """Multiset equality (zero-weight entries are immaterial); tol = absolute tolerance per entry."""
    a, b = clean(a), clean(b)
    if tol == 0.0:
        return a == b
    return all(abs(a.get(k, 0) - b.get(k, 0)) <= tol for k in set(a) | set(b))


def width(d):
    ls = {len(k) for k in d}
    if len(ls) != 1:
        raise ValueError("no common bitstring length")
    return ls.pop()


def add(*ds):
    out = Counter()
    for d in ds:
        for k, v in d.items():
            out[k] += v
    return dict(out)


def reverse(d):
    """Bit-order reversal (msq_first <-> lsq_first)."""
    out = {}
    for k, v in d.items():
        out[k[::-1]] = out.get(k[::-1], 0) + v
    return out


def remove(d, indices):
    """Marginalise (sum out) the qubits in `indices`; the remaining bits keep their relative order."""
    idx = set(indices)
    out = {}
    for k, v in d.items():
        nk = "".join(c for i, c in enumerate(k) if i not in idx)
        out[nk] = out.get(nk, 0) + v
    return out


def keep(d, indices):
    n = width(d)
    return remove(d, [i for i in range(n) if i not in set(indices)])


def matches(key, expected):
    return all(key[int(q)] == b for q, b in expected.items())


def select(d, expected):
    """Post-selection on {qubit: '0'|'1'}: (mass of the matching outcomes, unnormalised histogram of the matching
    outcomes with the selected qubits removed)."""
    kept = {k: v for k, v in d.items() if matches(k, expected)}
    return total(kept), remove(kept, [int(q) for q in expected])


def normalise(d):
    t = total(d)
    if t == 0:
        raise ZeroDivisionError("empty histogram")
    return {k: v / t for k, v in d.items()}


def split_last(d, n):
    """(marginal of the first len-n bits, marginal of the last n bits)."""
    L = width(d)
    return remove(d, range(L - n, L)), remove(d, range(0, L - n))


def parity_expectation(d, qubits):
    """<prod_{q in qubits} Z_q> under the normalised histogram."""
    t = total(d)
    s = 0
    for k, v in d.items():
        s += v * (-1) ** sum(int(k[q]) for q in qubits)
    return s / t


def shift_term(term, removed):
    """Indices of a Pauli term after the qubits in `removed` (none of them in the term) were deleted."""
    rem = sorted(set(removed))
    out = []
    for q, p in term:
        if q in rem:
            raise ValueError("term acts on a removed qubit")
        out.append((q - sum(1 for r in rem if r < q), p))
    return tuple(out)


def exact(d):
    """Weights as Fractions (floats are converted exactly), for cross-checking float arithmetic."""
    return {k: Fraction(v) for k, v in d.items()}


def selftest():
    h = {"00": 40, "01": 30, "10": 20, "11": 10}
    assert total(h) == 100 and width(h) == 2
    assert remove(h, [1]) == {"0": 70, "1": 30} and remove(h, [0]) == {"0": 60, "1": 40}
    assert remove(h, [0, 1]) == {"": 100} and remove(h, []) == h
    assert keep(h, [0]) == remove(h, [1])
    assert reverse({"110": 60, "001": 40}) == {"011": 60, "100": 40}
    assert select(h, {0: "0"}) == (70, {"0": 40, "1": 30})
    assert select(h, {0: "1", 1: "1"}) == (10, {"": 10})
    assert select(h, {}) == (100, h)
    assert select({"00": 1}, {1: "1"}) == (0, {})
    assert add({"00": 60, "11": 40}, {"00": 60, "01": 40}, {"00": 60, "11": 40}) == {"00": 180, "11": 80, "01": 40}
    assert same({"0": 0, "1": 3}, {"1": 3}) and not same({"0": 1}, {"1": 1})
    assert same({"0": 0.5}, {"0": 0.5 + 1e-14}, 1e-12) and not same({"0": 0.5}, {"0": 0.6}, 1e-12)
    assert normalise({"0": 1, "1": 3}) == {"0": 0.25, "1": 0.75}
    assert split_last({"001": 1, "011": 2, "110": 5}, 1) == ({"00": 1, "01": 2, "11": 5}, {"1": 3, "0": 5})
    assert split_last(h, 0) == (h, {"": 100}) and split_last(h, 2) == ({"": 100}, h)
    # <Z0> = (70 - 30)/100, <Z1> = (60 - 40)/100, <Z0 Z1> = (40 + 10 - 30 - 20)/100
    assert parity_expectation(h, [0]) == 0.4 and parity_expectation(h, [1]) == 0.2 and parity_expectation(h, [0, 1]) == 0.0
    assert parity_expectation(h, []) == 1.0
    # marginalising a qubit outside the support keeps the expectation; indices shift
    g = {"010": 1, "111": 2, "100": 5}
    assert shift_term(((2, "Z"),), [0]) == ((1, "Z"),) and shift_term(((0, "X"), (2, "Y")), [1]) == ((0, "X"), (1, "Y"))
    assert parity_expectation(g, [2]) == parity_expectation(remove(g, [0]), [1]) == parity_expectation(remove(g, [0, 1]), [0])
    # the two halves of a split are the marginals of one table: both carry the whole mass
    a, b = split_last(g, 2)
    assert total(a) == total(b) == total(g) == 8
    assert exact({"0": 0.25}) == {"0": Fraction(1, 4)}
    try:
        shift_term(((1, "Z"),), [1])
    except ValueError:
        pass
    else:
        raise AssertionError("shift_term accepted a removed qubit")
