"""Reference fermionic Fock-space model (numpy only; no Tangelo, no openfermion, no qubit mapping).

Conventions (all explicit, nothing is inferred)
-----------------------------------------------
* n modes (spin-orbitals) 0..n-1.  The occupation-number ket is
        |n_0 n_1 ... n_{n-1}>  :=  (a_0^)^{n_0} (a_1^)^{n_1} ... (a_{n-1}^)^{n_{n-1}} |vac>
  (creation operators in increasing mode order).  From {a_p, a_q^} = delta_pq, {a_p, a_q} = 0 this gives the sign rule
        a_p  |.. n_p ..> =    n_p  * (-1)^{sum_{q<p} n_q} |.. 0 ..>
        a_p^ |.. n_p ..> = (1-n_p) * (-1)^{sum_{q<p} n_q} |.. 1 ..>
  which is what `apply_ladder` writes out.  Nothing else defines the matrices.
* Ket index = sum_p n_p 2^(n-1-p): mode 0 is the most significant bit (the convention of mc/ref/statevec.py and
  mc/ref/pauli.py, so the Jordan-Wigner image with qubit p = mode p has literally the same matrix).
* A *term* is a tuple of (mode, action) factors, action 1 = creation, 0 = annihilation, written in operator-product order
  (the rightmost factor acts first) - the shape of the keys of an openfermion/Tangelo FermionOperator.  An *operator* is
  a dict {term: complex}; the empty tuple is the identity.
* Spin layout is always an explicit parameter `up_then_down`:
      False (Tangelo default, "interleaved"): mode 2i = alpha of spatial orbital i, mode 2i+1 = beta of i;
      True:                                    mode i = alpha of spatial i, mode n/2 + i = beta of spatial i.
  spin label 0 = alpha (up), 1 = beta (down).
"""
import itertools

import numpy as np


# ---------------------------------------------------------------------------------------------------------------------
# kets

def occupations(n):
    """All occupation tuples in ket-index order."""
    return list(itertools.product((0, 1), repeat=n))


def index_of(occ):
    n = len(occ)
    return sum(int(b) << (n - 1 - p) for p, b in enumerate(occ))


def occ_of(index, n):
    return tuple((index >> (n - 1 - p)) & 1 for p in range(n))


def apply_ladder(occ, p, action):
    """One ladder operator on a ket: returns (sign, new_occ) or (0, None)."""
    if action == 1:
        if occ[p] == 1:
            return 0, None
    elif action == 0:
        if occ[p] == 0:
            return 0, None
    else:
        raise ValueError(action)
    sign = -1 if (sum(occ[:p]) % 2) else 1
    new = list(occ)
    new[p] = action
    return sign, tuple(new)


def apply_term(term, occ):
    """A product of ladder operators on a ket; the RIGHTMOST factor acts first."""
    sign = 1
    for p, action in reversed(term):
        s, occ = apply_ladder(occ, p, action)
        if s == 0:
            return 0, None
        sign *= s
    return sign, occ


# ---------------------------------------------------------------------------------------------------------------------
# matrices

def ladder_matrix(n, p, action):
    """2^n x 2^n matrix of a_p (action 0) or a_p^ (action 1); column = input ket."""
    return term_matrix(n, ((p, action),))


def term_matrix(n, term):
    dim = 2 ** n
    M = np.zeros((dim, dim), dtype=complex)
    for p, _ in term:
        if not 0 <= p < n:
            raise ValueError(f"mode {p} outside a register of {n} modes")
    for j, occ in enumerate(occupations(n)):
        s, new = apply_term(term, occ)
        if s:
            M[index_of(new), j] += s
    return M


def op_matrix(n, op):
    dim = 2 ** n
    M = np.zeros((dim, dim), dtype=complex)
    for term, c in op.items():
        if c != 0:
            M += c * term_matrix(n, term)
    return M


def restrict(M, idx):
    idx = list(idx)
    return M[np.ix_(idx, idx)]


def leaks(M, idx, tol=1e-12):
    """Largest |M_ij| coupling the index set `idx` with its complement (0.0 when `idx` is an invariant subspace of M
    and of M^)."""
    idx = sorted(set(idx))
    comp = [i for i in range(M.shape[0]) if i not in set(idx)]
    if not idx or not comp:
        return 0.0
    return float(max(np.abs(M[np.ix_(comp, idx)]).max(), np.abs(M[np.ix_(idx, comp)]).max()))


def eigvals_hermitian(M, tol=1e-9):
    M = np.asarray(M, dtype=complex)
    if M.shape[0] == 0:
        return np.zeros(0)
    if np.abs(M - M.conj().T).max() > tol:
        raise ValueError("matrix is not Hermitian")
    return np.linalg.eigvalsh((M + M.conj().T) / 2)


def spectrum_distance(ev_a, ev_b):
    """Max distance between two sorted eigenvalue multisets (inf when sizes differ)."""
    a, b = np.sort(np.asarray(ev_a, dtype=float)), np.sort(np.asarray(ev_b, dtype=float))
    if a.shape != b.shape:
        return float("inf")
    return float(np.abs(a - b).max()) if a.size else 0.0


# ---------------------------------------------------------------------------------------------------------------------
# symbolic operators (dict {term: coeff}); used to build inputs and expected products without any normal ordering

def op(term=(), c=1.0):
    return {tuple((int(p), int(a)) for p, a in term): complex(c)}


def op_add(A, B, ca=1.0, cb=1.0):
    out = {t: ca * v for t, v in A.items()}
    for t, v in B.items():
        out[t] = out.get(t, 0) + cb * v
    return out


def op_mul(A, B):
    """Product = concatenation of the factor lists (A's factors to the left)."""
    out = {}
    for ta, ca in A.items():
        for tb, cb in B.items():
            out[ta + tb] = out.get(ta + tb, 0) + ca * cb
    return out


def op_adjoint(A):
    """(c f_1 f_2 ... f_k)^ = conj(c) f_k^ ... f_1^"""
    out = {}
    for t, c in A.items():
        ta = tuple((p, 1 - a) for p, a in reversed(t))
        out[ta] = out.get(ta, 0) + complex(c).conjugate()
    return out


def op_modes(A):
    return {p for t in A for p, _ in t}


def op_to_str(A):
    def c2s(c):
        c = complex(c)
        if abs(c.imag) < 1e-12:
            return f"{c.real:g}"
        if abs(c.real) < 1e-12:
            return f"{c.imag:g}j"
        return f"({c.real:g}{c.imag:+g}j)"
    if not A:
        return "0"
    return " + ".join(f"{c2s(c)} [{' '.join(str(p) + ('^' if a else '') for p, a in t)}]" for t, c in A.items())


# ---------------------------------------------------------------------------------------------------------------------
# spin layout

def mode_of(spatial, spin, n, up_then_down=False):
    """Mode index of (spatial orbital, spin label 0=alpha/1=beta) in a register of n (even) spin-orbitals."""
    if up_then_down:
        return spatial + spin * (n // 2)
    return 2 * spatial + spin


def spatial_spin_of(mode, n, up_then_down=False):
    if up_then_down:
        return mode % (n // 2), mode // (n // 2)
    return mode // 2, mode % 2


def interleaved_to_up_then_down(n):
    """perm[p] = index, in the all-alpha-then-all-beta layout, of the spin-orbital that has index p in the interleaved
    layout (n even)."""
    if n % 2:
        raise ValueError("even number of spin-orbitals required")
    return [mode_of(*spatial_spin_of(p, n, False), n, True) for p in range(n)]


def relabel(A, perm):
    """Rename modes p -> perm[p] in a symbolic operator."""
    out = {}
    for t, c in A.items():
        tt = tuple((perm[p], a) for p, a in t)
        out[tt] = out.get(tt, 0) + c
    return out


def spin_counts(occ, up_then_down=False):
    """(n_alpha, n_beta, seniority) of a ket (n even)."""
    n = len(occ)
    na = nb = sen = 0
    for i in range(n // 2):
        a = occ[mode_of(i, 0, n, up_then_down)]
        b = occ[mode_of(i, 1, n, up_then_down)]
        na += a
        nb += b
        sen += (a + b) % 2
    return na, nb, sen


def sector_indices(n, up_then_down=False, n_elec=None, n_alpha=None, n_beta=None, sz2=None, seniority=None,
                   parity_elec=None, parity_alpha=None):
    """Ket indices satisfying all the given constraints.  sz2 = n_alpha - n_beta (= 2 S_z); parity_* in {0,1}.
    Spin-resolved constraints need an even n."""
    spin_needed = any(v is not None for v in (n_alpha, n_beta, sz2, seniority, parity_alpha))
    out = []
    for i, occ in enumerate(occupations(n)):
        N = sum(occ)
        if n_elec is not None and N != n_elec:
            continue
        if parity_elec is not None and N % 2 != parity_elec:
            continue
        if spin_needed:
            na, nb, sen = spin_counts(occ, up_then_down)
            if n_alpha is not None and na != n_alpha:
                continue
            if n_beta is not None and nb != n_beta:
                continue
            if sz2 is not None and na - nb != sz2:
                continue
            if seniority is not None and sen != seniority:
                continue
            if parity_alpha is not None and na % 2 != parity_alpha:
                continue
        out.append(i)
    return out


def projector(n, idx):
    P = np.zeros((2 ** n, 2 ** n), dtype=complex)
    for i in idx:
        P[i, i] = 1
    return P


# ---------------------------------------------------------------------------------------------------------------------
# reference symmetry operators (symbolic), from their definitions

def number_operator(n, modes=None):
    out = {}
    for p in (range(n) if modes is None else modes):
        out[((p, 1), (p, 0))] = 1.0
    return out


def sz_operator(n, up_then_down=False):
    """S_z = 1/2 sum_i (n_{i alpha} - n_{i beta})"""
    out = {}
    for i in range(n // 2):
        a, b = mode_of(i, 0, n, up_then_down), mode_of(i, 1, n, up_then_down)
        out[((a, 1), (a, 0))] = 0.5
        out[((b, 1), (b, 0))] = -0.5
    return out


def s_plus_operator(n, up_then_down=False):
    """S_+ = sum_i a_{i alpha}^ a_{i beta}"""
    return {((mode_of(i, 0, n, up_then_down), 1), (mode_of(i, 1, n, up_then_down), 0)): 1.0 for i in range(n // 2)}


def s2_operator(n, up_then_down=False):
    """S^2 = S_- S_+ + S_z (S_z + 1)"""
    sp = s_plus_operator(n, up_then_down)
    sz = sz_operator(n, up_then_down)
    return op_add(op_mul(op_adjoint(sp), sp), op_add(op_mul(sz, sz), sz))


# ---------------------------------------------------------------------------------------------------------------------

def selftest():
    for n in (1, 2, 3, 4):
        dim = 2 ** n
        a = [ladder_matrix(n, p, 0) for p in range(n)]
        ad = [ladder_matrix(n, p, 1) for p in range(n)]
        I = np.eye(dim)
        for p in range(n):
            assert np.allclose(ad[p], a[p].conj().T)
            for q in range(n):
                assert np.allclose(a[p] @ ad[q] + ad[q] @ a[p], I * (p == q)), ("CAR", n, p, q)
                assert np.allclose(a[p] @ a[q] + a[q] @ a[p], 0)
                assert np.allclose(ad[p] @ ad[q] + ad[q] @ ad[p], 0)
        # number operator is diagonal with the popcount; kets are built in increasing mode order from the vacuum
        N = op_matrix(n, number_operator(n))
        for i, occ in enumerate(occupations(n)):
            assert index_of(occ) == i and occ_of(i, n) == occ
            assert abs(N[i, i] - sum(occ)) < 1e-12
            v = np.zeros(dim, dtype=complex)
            v[0] = 1
            for p in reversed(range(n)):
                if occ[p]:
                    v = ad[p] @ v
            e = np.zeros(dim)
            e[i] = 1
            assert np.allclose(v, e), ("ket definition", occ)
        assert np.allclose(N, np.diag(np.diag(N)))
        # term matrices are products of ladder matrices (leftmost factor = leftmost matrix)
        lad = {(p, 0): a[p] for p in range(n)}
        lad.update({(p, 1): ad[p] for p in range(n)})
        for t in itertools.product(list(lad), repeat=2):
            assert np.allclose(term_matrix(n, t), lad[t[0]] @ lad[t[1]])
    # symbolic algebra against matrices
    n = 4
    A = {((0, 1), (2, 0)): 0.5 - 1j, ((3, 1),): 2.0, (): -1.0}
    B = {((1, 1), (0, 0)): 1.5, ((2, 0), (3, 0)): 1j}
    MA, MB = op_matrix(n, A), op_matrix(n, B)
    assert np.allclose(op_matrix(n, op_mul(A, B)), MA @ MB)
    assert np.allclose(op_matrix(n, op_add(A, B, 2.0, -1j)), 2 * MA - 1j * MB)
    assert np.allclose(op_matrix(n, op_adjoint(A)), MA.conj().T)
    # spin layout
    assert interleaved_to_up_then_down(6) == [0, 3, 1, 4, 2, 5]
    for utd in (False, True):
        for p in range(6):
            assert mode_of(*spatial_spin_of(p, 6, utd), 6, utd) == p
        # sectors partition the space
        tot = []
        for na in range(3):
            for nb in range(3):
                tot += sector_indices(4, utd, n_alpha=na, n_beta=nb)
        assert sorted(tot) == list(range(16))
        assert len(sector_indices(4, utd, seniority=0)) == 4
        assert len(sector_indices(4, utd, parity_elec=1, parity_alpha=0)) == 4
        assert sector_indices(4, utd, n_elec=2, sz2=0) == sorted(sector_indices(4, utd, n_alpha=1, n_beta=1))
        # S^2: commutes with N and S_z, eigenvalues s(s+1); S_z = (n_alpha - n_beta)/2 on kets
        S2 = op_matrix(4, s2_operator(4, utd))
        Sz = op_matrix(4, sz_operator(4, utd))
        N = op_matrix(4, number_operator(4))
        assert np.allclose(S2 @ Sz, Sz @ S2) and np.allclose(S2 @ N, N @ S2) and np.allclose(S2, S2.conj().T)
        ev = np.round(np.linalg.eigvalsh(S2), 9)
        assert set(ev) <= {0.0, 0.75, 2.0} and sorted(ev).count(2.0) == 3 and sorted(ev).count(0.75) == 8
        for i, occ in enumerate(occupations(4)):
            na, nb, _ = spin_counts(occ, utd)
            assert abs(Sz[i, i] - (na - nb) / 2) < 1e-12
    P = projector(3, [1, 2])
    assert np.allclose(P @ P, P) and abs(np.trace(P) - 2) < 1e-12
    M = np.diag([1.0, 2.0, 3.0, 4.0]).astype(complex)
    M[0, 3] = M[3, 0] = 0.5
    assert leaks(M, [0, 3]) == 0.0 and leaks(M, [0, 1]) == 0.5
    assert spectrum_distance([1, 2], [2, 1.0]) == 0.0 and spectrum_distance([1], [1, 2]) == float("inf")
    # cross-check of the two reference modules (harness-internal): hand-written Jordan-Wigner has the same matrices
    from . import pauli as P_
    n = 3
    for p in range(n):
        zs = tuple((q, "Z") for q in range(p))
        jw = {zs + ((p, "X"),): 0.5, zs + ((p, "Y"),): 0.5j}
        assert np.allclose(P_.matrix(jw, n), ladder_matrix(n, p, 0))
