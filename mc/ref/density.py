"""Reference density-matrix evolution with Pauli and depolarising channels (numpy only). Q0MSB convention.

Channels (as specified by Tangelo's NoiseModel documentation):
  pauli (px,py,pz) on one qubit:  rho -> (1-px-py-pz) rho + px X rho X + py Y rho Y + pz Z rho Z
  depol q on k qubits jointly:    rho -> (1-q) rho + q * (I/2^k (x) Tr_k rho)
"""
import itertools

import numpy as np

from . import gates as G
from . import statevec as SV


def apply_unitary(rho, n, g):
    U = SV.unitary([g], n)
    return U @ rho @ U.conj().T


def pauli_channel(rho, n, q, px, py, pz):
    out = (1 - px - py - pz) * rho
    for p, name in ((px, "X"), (py, "Y"), (pz, "Z")):
        if p:
            P = SV.pauli_matrix([(q, name)], n)
            out = out + p * (P @ rho @ P)
    return out


def depolarize(rho, n, qubits, q):
    """(1-q) rho + q * (maximally mixed on `qubits`) (x) (partial trace over `qubits`)."""
    k = len(qubits)
    # twirl: I/2^k (x) Tr_k rho == (1/4^k) sum_P P rho P over all Pauli strings on `qubits`
    acc = np.zeros_like(rho)
    for names in itertools.product("IXYZ", repeat=k):
        P = SV.pauli_matrix([(qq, nm) for qq, nm in zip(qubits, names) if nm != "I"], n)
        acc = acc + P @ rho @ P
    return (1 - q) * rho + q * acc / (4 ** k)


def run(gates, n, noise=None, rho0=None):
    """noise: dict gate name -> list of (type, params) in insertion order."""
    if rho0 is None:
        rho = np.zeros((2 ** n, 2 ** n), dtype=complex)
        rho[0, 0] = 1
    else:
        rho = np.asarray(rho0, dtype=complex)
    noise = noise or {}
    for g in gates:
        d = SV.desc(g)
        rho = apply_unitary(rho, n, d)
        touched = list(d[1]) + (list(d[2]) if d[2] else [])
        for kind, par in noise.get(d[0], []):
            if kind == "pauli":
                for q in touched:
                    rho = pauli_channel(rho, n, q, *par)
            elif kind == "depol":
                rho = depolarize(rho, n, touched, par)
            else:
                raise KeyError(kind)
    return rho


def run_measured(gates, n, noise=None, desired="", rho0=None):
    """Like run(), with projective MEASURE gates post-selected on the outcome string `desired` (one character per MEASURE in gate
    order). Returns (normalised state or None if the branch has probability 0, branch probability, [outcome distribution at each
    measurement])."""
    if rho0 is None:
        rho = np.zeros((2 ** n, 2 ** n), dtype=complex)
        rho[0, 0] = 1
    else:
        rho = np.asarray(rho0, dtype=complex)
    noise = noise or {}
    prob, k, dists = 1.0, 0, []
    for g in gates:
        d = SV.desc(g)
        if d[0] == "MEASURE":
            q = d[1][0]
            Z = SV.pauli_matrix([(q, "Z")], n)
            I = np.eye(2 ** n)
            P = [(I + Z) / 2, (I - Z) / 2]
            ps = [float(np.real(np.trace(P[b] @ rho))) for b in (0, 1)]
            dists.append(ps)
            b = int(desired[k])
            k += 1
            if ps[b] < 1e-14:
                return None, 0.0, dists
            rho = P[b] @ rho @ P[b] / ps[b]
            prob *= ps[b]
        else:
            rho = apply_unitary(rho, n, d)
        touched = list(d[1]) + (list(d[2]) if d[2] else [])
        for kind, par in noise.get(d[0], []):
            if kind == "pauli":
                for q in touched:
                    rho = pauli_channel(rho, n, q, *par)
            elif kind == "depol":
                rho = depolarize(rho, n, touched, par)
            else:
                raise KeyError(kind)
    return rho, prob, dists


def selftest():
    n = 2
    rho = run([["H", [0], None, "", False], ["CNOT", [1], [0], "", False]], n)
    assert abs(np.trace(rho) - 1) < 1e-12 and abs(rho[0, 3] - 0.5) < 1e-12
    # full depolarisation of both qubits -> maximally mixed
    r2 = depolarize(rho, n, [0, 1], 1.0)
    assert np.allclose(r2, np.eye(4) / 4)
    # one-qubit depol == pauli(q/4,q/4,q/4)
    q = 0.3
    a = depolarize(rho, n, [1], q)
    b = pauli_channel(rho, n, 1, q / 4, q / 4, q / 4)
    assert np.allclose(a, b)
    # trace preserved, hermitian
    c = pauli_channel(rho, n, 0, 0.1, 0.2, 0.05)
    assert abs(np.trace(c) - 1) < 1e-12 and np.allclose(c, c.conj().T)
    # partial trace form: depol on qubit 0 of |1><1| (x) |+><+|
    psi = np.kron([0, 1], [1 / np.sqrt(2), 1 / np.sqrt(2)])
    r = depolarize(np.outer(psi, psi.conj()), 2, [0], 1.0)
    assert np.allclose(r, np.kron(np.eye(2) / 2, np.full((2, 2), 0.5)))
