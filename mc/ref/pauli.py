"""Reference Pauli-word algebra (pure python + numpy; no Tangelo, no openfermion).

Data model
----------
* A *word* is a tuple of (qubit, letter) pairs, letter in "XYZ", sorted by qubit, at most one letter per qubit; the empty
  tuple is the identity.  This is the same shape as the keys of an openfermion/Tangelo ``QubitOperator.terms`` dict, so
  ``from_terms(qop.terms)`` imports a real operator (and validates the shape of every key on the way in).
* An *operator* is a plain dict {word: complex}.  Missing word == coefficient 0.  Functions never mutate their arguments.

Dense matrices use the same convention as mc/ref/statevec.py ("Q0MSB"): qubit 0 is the most significant bit of the row
index, i.e. matrix(word, n) = kron(P_0, P_1, ..., P_{n-1}).  ``order="q0_lsb"`` gives the opposite index order.
"""
import itertools

import numpy as np

I2 = np.eye(2, dtype=complex)
X = np.array([[0, 1], [1, 0]], dtype=complex)
Y = np.array([[0, -1j], [1j, 0]], dtype=complex)
Z = np.array([[1, 0], [0, -1]], dtype=complex)
MAT = {"I": I2, "X": X, "Y": Y, "Z": Z}

# single-qubit products written out: (left, right) -> (phase, letter);  XY = iZ, YZ = iX, ZX = iY and the reverses with -i
_PROD = {
    ("X", "X"): (1, "I"), ("Y", "Y"): (1, "I"), ("Z", "Z"): (1, "I"),
    ("X", "Y"): (1j, "Z"), ("Y", "X"): (-1j, "Z"),
    ("Y", "Z"): (1j, "X"), ("Z", "Y"): (-1j, "X"),
    ("Z", "X"): (1j, "Y"), ("X", "Z"): (-1j, "Y"),
}


# ---------------------------------------------------------------------------------------------------------------------
# construction

def word(*pairs):
    """word((0,'X'),(3,'Z')) or word('X0 Z3') -> canonical word tuple."""
    if len(pairs) == 1 and isinstance(pairs[0], str):
        pairs = [(int(tok[1:]), tok[0]) for tok in pairs[0].split()]
    return check_word(tuple(sorted((int(q), str(p)) for q, p in pairs)))


def check_word(w):
    """Validate the shape of a word; returns it as a tuple of (int, str)."""
    w = tuple((int(q), str(p)) for q, p in w)
    qs = [q for q, _ in w]
    if qs != sorted(qs) or len(set(qs)) != len(qs):
        raise ValueError(f"not a canonical Pauli word (unsorted or repeated qubit): {w!r}")
    for q, p in w:
        if q < 0 or p not in ("X", "Y", "Z"):
            raise ValueError(f"not a canonical Pauli word (bad factor): {w!r}")
    return w


def from_terms(terms):
    """Import {word: coeff} (e.g. QubitOperator.terms).  Words are validated; coefficients become python complex."""
    out = {}
    for w, c in terms.items():
        w = check_word(w)
        out[w] = out.get(w, 0) + complex(c)
    return out


def identity(c=1.0):
    return {(): complex(c)}


def single(q, letter, c=1.0):
    return {((int(q), letter),): complex(c)}


# ---------------------------------------------------------------------------------------------------------------------
# algebra

def word_mul(w1, w2):
    """Product of two words -> (phase, word) with phase in {1,-1,1j,-1j}."""
    d = dict(w1)
    phase = 1
    for q, p in w2:
        if q in d:
            ph, r = _PROD[(d[q], p)]
            phase *= ph
            if r == "I":
                del d[q]
            else:
                d[q] = r
        else:
            d[q] = p
    return phase, tuple(sorted(d.items()))


def mul(A, B):
    out = {}
    for wa, ca in A.items():
        for wb, cb in B.items():
            ph, w = word_mul(wa, wb)
            out[w] = out.get(w, 0) + ph * ca * cb
    return out


def scale(A, c):
    return {w: c * v for w, v in A.items()}


def add(A, B, ca=1.0, cb=1.0):
    """ca*A + cb*B"""
    out = {w: ca * v for w, v in A.items()}
    for w, v in B.items():
        out[w] = out.get(w, 0) + cb * v
    return out


def adjoint(A):
    """Pauli words are Hermitian: the adjoint conjugates the coefficients."""
    return {w: complex(v).conjugate() for w, v in A.items()}


def commutator(A, B):
    return add(mul(A, B), mul(B, A), 1.0, -1.0)


def anticommutator(A, B):
    return add(mul(A, B), mul(B, A), 1.0, 1.0)


def clean(A, tol=1e-12):
    return {w: v for w, v in A.items() if abs(v) > tol}


def max_abs_diff(A, B):
    """max_w |A_w - B_w|  (0.0 for two empty operators)."""
    return max([abs(A.get(w, 0) - B.get(w, 0)) for w in set(A) | set(B)] + [0.0])


def equal(A, B, tol=1e-9):
    return max_abs_diff(A, B) <= tol


def norm1(A):
    return sum(abs(v) for v in A.values())


def support(A):
    """Set of qubits on which A acts non-trivially (words with |coeff| <= 1e-12 ignored)."""
    return {q for w, v in A.items() if abs(v) > 1e-12 for q, _ in w}


def n_qubits(A):
    s = support(A)
    return max(s) + 1 if s else 0


def is_hermitian(A, tol=1e-9):
    return all(abs(complex(v).imag) <= tol for v in A.values())


def to_str(A, tol=1e-12):
    items = sorted(clean(A, tol).items(), key=lambda t: (len(t[0]), t[0]))
    if not items:
        return "0"
    def c2s(c):
        c = complex(c)
        if abs(c.imag) < 1e-12:
            return f"{c.real:g}"
        if abs(c.real) < 1e-12:
            return f"{c.imag:g}j"
        return f"({c.real:g}{c.imag:+g}j)"
    return " + ".join(f"{c2s(c)} [{' '.join(p + str(q) for q, p in w)}]" for w, c in items)


# ---------------------------------------------------------------------------------------------------------------------
# action on computational-basis states, dense matrices

def expectation_basis(A, bits):
    """<b|A|b> for the computational basis state with bits[q] in {0,1}: only I/Z words contribute, Z_q -> (-1)^b_q."""
    tot = 0
    for w, c in A.items():
        if all(p == "Z" for _, p in w):
            s = 1
            for q, _ in w:
                s *= -1 if bits[q] else 1
            tot += c * s
    return complex(tot)


def apply_word_to_basis(w, bits):
    """word|b> = phase |b'>.  X flips, Y flips with i (0->1) / -i (1->0), Z gives (-1)^b."""
    b = list(bits)
    ph = 1
    for q, p in w:
        if p == "X":
            b[q] ^= 1
        elif p == "Y":
            ph *= 1j if b[q] == 0 else -1j
            b[q] ^= 1
        else:
            ph *= -1 if b[q] else 1
    return ph, tuple(b)


def apply_to_basis(A, bits):
    """A|b> as dict {bits': amplitude}."""
    out = {}
    for w, c in A.items():
        ph, b = apply_word_to_basis(w, bits)
        out[b] = out.get(b, 0) + ph * c
    return {b: v for b, v in out.items() if abs(v) > 1e-14}


def word_matrix(w, n, order="q0_msb"):
    letters = ["I"] * n
    for q, p in w:
        if q >= n:
            raise ValueError(f"word {w!r} acts outside a register of {n} qubits")
        letters[q] = p
    if order == "q0_lsb":
        letters = letters[::-1]
    elif order != "q0_msb":
        raise ValueError(order)
    M = np.array([[1]], dtype=complex)
    for p in letters:
        M = np.kron(M, MAT[p])
    return M


def matrix(A, n, order="q0_msb"):
    """Dense 2^n x 2^n matrix.  Built by acting on basis states (cheaper than kron sums for many words)."""
    dim = 2 ** n
    M = np.zeros((dim, dim), dtype=complex)
    if not A:
        return M
    idx = np.arange(dim)
    for w, c in A.items():
        if c == 0:
            continue
        flip = 0
        phase = np.ones(dim, dtype=complex)
        for q, p in w:
            if q >= n:
                raise ValueError(f"word {w!r} acts outside a register of {n} qubits")
            sh = (n - 1 - q) if order == "q0_msb" else q
            bit = (idx >> sh) & 1
            if p == "X":
                flip |= 1 << sh
            elif p == "Y":
                flip |= 1 << sh
                phase = phase * np.where(bit == 0, 1j, -1j)
            else:
                phase = phase * np.where(bit == 0, 1, -1)
        # column = input state idx, row = idx ^ flip
        M[idx ^ flip, idx] += c * phase
    return M


def bits_to_index(bits, order="q0_msb"):
    n = len(bits)
    if order == "q0_msb":
        return sum(int(b) << (n - 1 - q) for q, b in enumerate(bits))
    return sum(int(b) << q for q, b in enumerate(bits))


# ---------------------------------------------------------------------------------------------------------------------

def selftest():
    # single-qubit table against matrices
    for a, b in itertools.product("XYZ", repeat=2):
        ph, r = _PROD[(a, b)]
        assert np.allclose(MAT[a] @ MAT[b], ph * MAT[r]), (a, b)
    # word product against dense matrices, all pairs of 2-qubit words
    letters = ["I", "X", "Y", "Z"]
    words = []
    for l0, l1 in itertools.product(letters, repeat=2):
        words.append(tuple((q, p) for q, p in ((0, l0), (1, l1)) if p != "I"))
    for w1, w2 in itertools.product(words, repeat=2):
        ph, w = word_mul(w1, w2)
        assert np.allclose(word_matrix(w1, 2) @ word_matrix(w2, 2), ph * word_matrix(w, 2))
    # matrix() against kron construction, both orders
    A = {word("X0 Y2"): 0.5 - 1j, word("Z1"): 2.0, (): -0.25, word("Y0 Z1 X2"): 1j}
    for order in ("q0_msb", "q0_lsb"):
        ref = sum(c * word_matrix(w, 3, order) for w, c in A.items())
        assert np.allclose(matrix(A, 3, order), ref)
    assert np.allclose(word_matrix(word("X0 Z1"), 2), np.kron(X, Z))
    assert np.allclose(word_matrix(word("X0 Z1"), 2, "q0_lsb"), np.kron(Z, X))
    # algebra against matrices
    B = {word("Z0 Z2"): 1.5, word("X1"): -1j, (): 1.0}
    MA, MB = matrix(A, 3), matrix(B, 3)
    assert np.allclose(matrix(mul(A, B), 3), MA @ MB)
    assert np.allclose(matrix(add(A, B, 2.0, -1j), 3), 2 * MA - 1j * MB)
    assert np.allclose(matrix(adjoint(A), 3), MA.conj().T)
    assert np.allclose(matrix(commutator(A, B), 3), MA @ MB - MB @ MA)
    assert np.allclose(matrix(anticommutator(A, B), 3), MA @ MB + MB @ MA)
    assert equal(mul(single(0, "X"), single(0, "X")), identity())
    assert not equal(A, B) and equal(A, dict(A)) and max_abs_diff({}, {}) == 0.0
    # basis-state action and expectation against matrices
    for bits in itertools.product((0, 1), repeat=3):
        i = bits_to_index(bits)
        col = MA[:, i]
        img = apply_to_basis(A, bits)
        v = np.zeros(8, dtype=complex)
        for b, amp in img.items():
            v[bits_to_index(b)] += amp
        assert np.allclose(v, col)
        assert abs(expectation_basis(A, bits) - MA[i, i]) < 1e-12
    assert bits_to_index((1, 0, 0)) == 4 and bits_to_index((1, 0, 0), "q0_lsb") == 1
    # validation
    for bad in (((1, "X"), (0, "Z")), ((0, "X"), (0, "Z")), ((0, "Q"),)):
        try:
            check_word(bad)
        except ValueError:
            pass
        else:
            raise AssertionError(bad)
    assert support({word("X3"): 1e-15, word("Z1"): 1.0}) == {1} and n_qubits(A) == 3
