"""Independent chemistry oracle (PySCF only + numpy). No Tangelo, no openfermion.

Given a converged PySCF mean-field object (only its Mole is used: AO integrals, nuclear repulsion), explicit MO
coefficients and explicit frozen-occupied / active orbital index lists (per spin), this module computes

  * det_energy     - the energy of a single determinant (textbook  E = E_nuc + tr(D h) + 1/2 sum_s tr(D_s V_s));
  * active_space   - the effective active-space Hamiltonian with the textbook frozen-core fold done in the AO basis
                     (V_s = J[D_a + D_b] - K[D_s] of the frozen-occupied density), NOT on MO integrals as Tangelo does;
  * cas_energy     - lowest energy in the (n_alpha, n_beta) sector of that Hamiltonian with pyscf.fci.direct_spin1
                     (same alpha/beta orbitals) or pyscf.fci.direct_uhf (different orbitals; unequal alpha/beta active
                     spaces are padded with decoupled orbitals at +PAD_ENERGY so that they are never occupied);
  * casci_crosscheck - the same number through pyscf.mcscf.CASCI / UCASCI (its own core folding) where that class is
                     applicable (equal numbers of alpha and beta active orbitals);
  * fock_space_min - a deliberately naive numpy-only determinant-space diagonalisation (selftest cross-check of the
                     FCI kernels and of the padding trick).

Everything is in the unrestricted formalism: a restricted reference is the special case Ca == Cb.
Chemist notation throughout: eri[p,q,r,s] = (pq|rs).
"""
import itertools

import numpy as np

PAD_ENERGY = 1.0e3   # one-body energy of padding orbitals (never occupied in the lowest state; exactly decoupled)


def ao_integrals(mf):
    """(hcore, eri (nao,nao,nao,nao), e_nuc) recomputed from the Mole of the mean field (the hcore of the mean-field
    object is used so that ECP / point-charge embeddings would be included; for the catalogue it is T + V_nuc)."""
    mol = mf.mol
    h = np.asarray(mf.get_hcore())
    eri = np.asarray(mol.intor("int2e", aosym="s1"))
    return h, eri, float(mf.energy_nuc())


def _jk(eri, D):
    J = np.einsum("pqrs,rs->pq", eri, D)
    K = np.einsum("prqs,rs->pq", eri, D)
    return J, K


def _pair_C(C):
    """C (2-d ndarray) -> (C, C); (Ca, Cb) -> (Ca, Cb)."""
    if isinstance(C, np.ndarray) and C.ndim == 2:
        return C, C
    return np.asarray(C[0]), np.asarray(C[1])


def _pair_idx(x):
    """[i, j, ...] -> same list for both spins; ([..], [..]) -> per spin."""
    if len(x) == 2 and all(isinstance(e, (list, tuple, np.ndarray)) for e in x):
        return [int(i) for i in x[0]], [int(i) for i in x[1]]
    return [int(i) for i in x], [int(i) for i in x]


def core_potentials(ints, Ca, Cb, occ_a, occ_b):
    """Energy and mean-field potentials of the determinant with alpha orbitals occ_a and beta orbitals occ_b."""
    h, eri, enuc = ints
    Da = Ca[:, list(occ_a)] @ Ca[:, list(occ_a)].T
    Db = Cb[:, list(occ_b)] @ Cb[:, list(occ_b)].T
    Ja, Ka = _jk(eri, Da)
    Jb, Kb = _jk(eri, Db)
    Va = Ja + Jb - Ka
    Vb = Ja + Jb - Kb
    e = enuc + np.sum((Da + Db) * h) + 0.5 * (np.sum(Da * Va) + np.sum(Db * Vb))
    return float(e), Va, Vb


def det_energy(mf, C, occ_a, occ_b, ints=None):
    """Energy of the determinant |occ_a; occ_b> built from the columns of C (C or (Ca, Cb))."""
    ints = ints or ao_integrals(mf)
    Ca, Cb = _pair_C(C)
    return core_potentials(ints, Ca, Cb, occ_a, occ_b)[0]


def active_space(mf, C, frozen_occ, active, ints=None):
    """Effective Hamiltonian of the active space.

    frozen_occ, active: list (restricted, same for both spins) or (list_alpha, list_beta).
    Returns ecore, (h_a, h_b), (eri_aa, eri_ab, eri_bb) with eri_ab[p,q,r,s] = (p_a q_a | r_b s_b)."""
    ints = ints or ao_integrals(mf)
    h, eri, _ = ints
    Ca, Cb = _pair_C(C)
    fa, fb = _pair_idx(frozen_occ)
    aa, ab = _pair_idx(active)
    ecore, Va, Vb = core_potentials(ints, Ca, Cb, fa, fb)
    A, B = Ca[:, list(aa)], Cb[:, list(ab)]
    h_a = A.T @ (h + Va) @ A
    h_b = B.T @ (h + Vb) @ B
    eri_aa = np.einsum("pqrs,pi,qj,rk,sl->ijkl", eri, A, A, A, A, optimize=True)
    eri_ab = np.einsum("pqrs,pi,qj,rk,sl->ijkl", eri, A, A, B, B, optimize=True)
    eri_bb = np.einsum("pqrs,pi,qj,rk,sl->ijkl", eri, B, B, B, B, optimize=True)
    return ecore, (h_a, h_b), (eri_aa, eri_ab, eri_bb)


def _pad(h1, g2, n):
    """Pad a UHF active-space Hamiltonian to n orbitals per spin with decoupled orbitals at +PAD_ENERGY."""
    (h_a, h_b), (gaa, gab, gbb) = h1, g2
    na, nb = h_a.shape[0], h_b.shape[0]
    Ha = np.zeros((n, n)); Ha[:na, :na] = h_a
    Hb = np.zeros((n, n)); Hb[:nb, :nb] = h_b
    for i in range(na, n):
        Ha[i, i] = PAD_ENERGY
    for i in range(nb, n):
        Hb[i, i] = PAD_ENERGY
    Gaa = np.zeros((n,) * 4); Gaa[:na, :na, :na, :na] = gaa
    Gab = np.zeros((n,) * 4); Gab[:na, :na, :nb, :nb] = gab
    Gbb = np.zeros((n,) * 4); Gbb[:nb, :nb, :nb, :nb] = gbb
    return (Ha, Hb), (Gaa, Gab, Gbb)


def cas_energy(mf, C, frozen_occ, active, nelec, ints=None, force_uhf_kernel=False):
    """Lowest energy with nelec = (n_alpha, n_beta) electrons in the active space. Returns (energy, info dict)."""
    from pyscf import fci
    ecore, (h_a, h_b), (gaa, gab, gbb) = active_space(mf, C, frozen_occ, active, ints)
    na_orb, nb_orb = h_a.shape[0], h_b.shape[0]
    n_alpha, n_beta = int(nelec[0]), int(nelec[1])
    if n_alpha > na_orb or n_beta > nb_orb or n_alpha < 0 or n_beta < 0:
        raise ValueError(f"electron numbers {nelec} do not fit active spaces ({na_orb},{nb_orb})")
    # restricted kernel only when alpha and beta Hamiltonians are identical to rounding (NB: no relative tolerance -
    # a UHF solution that collapsed onto RHF differs by ~1e-6 in the orbitals and must go through direct_uhf)
    same = (na_orb == nb_orb and np.allclose(h_a, h_b, rtol=0, atol=1e-13) and np.allclose(gaa, gbb, rtol=0, atol=1e-13)
            and np.allclose(gaa, gab, rtol=0, atol=1e-13))
    if same and not force_uhf_kernel:
        solver = fci.direct_spin1.FCISolver()
        solver.conv_tol = 1e-13
        solver.max_cycle = 400
        solver.verbose = 0
        e, _ = solver.kernel(h_a, gaa, na_orb, (n_alpha, n_beta), ecore=ecore)
        return float(e), {"kernel": "direct_spin1", "norb": na_orb, "ecore": ecore}
    n = max(na_orb, nb_orb)
    h1, g2 = (h_a, h_b), (gaa, gab, gbb)
    if na_orb != nb_orb:
        h1, g2 = _pad(h1, g2, n)
    solver = fci.direct_uhf.FCISolver()
    solver.conv_tol = 1e-13
    solver.max_cycle = 400
    solver.verbose = 0
    e, _ = solver.kernel(h1, g2, n, (n_alpha, n_beta), ecore=ecore)
    return float(e), {"kernel": "direct_uhf", "norb": (na_orb, nb_orb), "padded": na_orb != nb_orb, "ecore": ecore}


def casci_crosscheck(mf, C, frozen_occ, active, frozen_virt, nelec):
    """Same number from pyscf.mcscf.CASCI / UCASCI (PySCF's own frozen-core folding) or None when not applicable.

    Restricted: C 2-d array, lists of ints. Unrestricted: C = (Ca, Cb), per-spin lists, equal active sizes."""
    from pyscf import mcscf, fci
    if isinstance(C, np.ndarray) and C.ndim == 2:
        mo = np.hstack([C[:, list(frozen_occ)], C[:, list(active)], C[:, list(frozen_virt)]])
        mc = mcscf.CASCI(mf, len(active), (int(nelec[0]), int(nelec[1])), ncore=len(frozen_occ))
        mc.fcisolver = fci.direct_spin1.FCISolver(mf.mol)   # no singlet-only restriction
        mc.fcisolver.conv_tol = 1e-13
        mc.verbose = 0
        mc.canonicalization = False
        return float(mc.kernel(mo)[0])
    Ca, Cb = C
    if len(active[0]) != len(active[1]):
        return None
    mo = (np.hstack([Ca[:, list(frozen_occ[0])], Ca[:, list(active[0])], Ca[:, list(frozen_virt[0])]]),
          np.hstack([Cb[:, list(frozen_occ[1])], Cb[:, list(active[1])], Cb[:, list(frozen_virt[1])]]))
    mc = mcscf.UCASCI(mf, len(active[0]), (int(nelec[0]), int(nelec[1])),
                      ncore=(len(frozen_occ[0]), len(frozen_occ[1])))
    mc.fcisolver.conv_tol = 1e-13
    mc.verbose = 0
    return float(mc.kernel(mo)[0])


# ---------------------------------------------------------------------------------------------------------------------
# naive determinant-space diagonalisation (numpy only) - used by selftest()

def fock_space_min(ecore, h1, g2, nelec):
    """Lowest eigenvalue of  ecore + sum h_pq a+_p a_q + 1/2 sum (pq|rs) a+_p a+_r a_s a_q  in the sector
    (n_alpha, n_beta); alpha and beta orbital sets may have different sizes. Occupation kets with the sign rule
    written out: a spin-orbital list [alpha_0..alpha_{na-1}, beta_0..beta_{nb-1}], sign = (-1)^(occupied before)."""
    (h_a, h_b), (gaa, gab, gbb) = h1, g2
    na, nb = h_a.shape[0], h_b.shape[0]
    n = na + nb
    hso = np.zeros((n, n))
    hso[:na, :na] = h_a
    hso[na:, na:] = h_b
    gso = np.zeros((n, n, n, n))
    gso[:na, :na, :na, :na] = gaa
    gso[na:, na:, na:, na:] = gbb
    gso[:na, :na, na:, na:] = gab
    gso[na:, na:, :na, :na] = gab.transpose(2, 3, 0, 1)
    dets = []
    for oa in itertools.combinations(range(na), nelec[0]):
        for ob in itertools.combinations(range(na, n), nelec[1]):
            dets.append(tuple(sorted(oa + ob)))
    index = {d: i for i, d in enumerate(dets)}

    def ann(det, sign, p):
        if det is None or p not in det:
            return None, 0
        k = det.index(p)
        return det[:k] + det[k + 1:], sign * (-1) ** k

    def cre(det, sign, p):
        if det is None or p in det:
            return None, 0
        k = sum(1 for q in det if q < p)
        return det[:k] + (p,) + det[k:], sign * (-1) ** k

    nz2 = [(tuple(int(x) for x in ix), float(gso[tuple(ix)])) for ix in np.argwhere(gso != 0.0)]
    H = np.zeros((len(dets), len(dets)))
    for j, d in enumerate(dets):
        H[j, j] += ecore
        for p in range(n):
            for q in range(n):
                if abs(hso[p, q]) > 0:
                    x, s = ann(d, 1, q)
                    x, s = cre(x, s, p)
                    if x is not None:
                        H[index[x], j] += hso[p, q] * s
        for (p, q, r, t), v in nz2:
            x, s = ann(d, 1, q)
            x, s = ann(x, s, t)
            x, s = cre(x, s, r)
            x, s = cre(x, s, p)
            if x is not None:
                H[index[x], j] += 0.5 * v * s
    assert np.allclose(H, H.T, atol=1e-10)
    return float(np.linalg.eigvalsh(H)[0])


# ---------------------------------------------------------------------------------------------------------------------

def _rot(n, i, j, theta):
    R = np.eye(n)
    c, s = np.cos(theta), np.sin(theta)
    R[i, i] = c; R[j, j] = c; R[i, j] = -s; R[j, i] = s
    return R


def selftest():
    from pyscf import gto, scf, fci, ao2mo
    # 1. H2: plain PySCF FCI in the MO basis == cas_energy with nothing frozen; determinant energy == SCF energy
    mol = gto.M(atom="H 0 0 0; H 0 0 0.74", basis="sto-3g", verbose=0)
    mf = scf.RHF(mol).run(conv_tol=1e-12)
    C = mf.mo_coeff
    h1 = C.T @ mf.get_hcore() @ C
    eri = ao2mo.restore(1, ao2mo.kernel(mol, C), 2)
    e_ref = fci.direct_spin1.kernel(h1, eri, 2, (1, 1), ecore=mol.energy_nuc())[0]
    e, _ = cas_energy(mf, C, [], [0, 1], (1, 1))
    assert abs(e - e_ref) < 1e-10, (e, e_ref)
    assert abs(e - fci.FCI(mf).kernel()[0]) < 1e-10
    assert abs(det_energy(mf, C, [0], [0]) - mf.e_tot) < 1e-10
    e2, _ = cas_energy(mf, C, [], [0, 1], (1, 1), force_uhf_kernel=True)
    assert abs(e2 - e_ref) < 1e-10
    # 2. H4 chain 6-31g-free: frozen core + frozen interior virtual, rotated orbitals: AO fold == mcscf.CASCI == naive
    mol = gto.M(atom="H 0 0 0; H 0 0 0.9; H 0 0 1.85; H 0 0 2.8", basis="sto-3g", verbose=0)
    mf = scf.RHF(mol).run(conv_tol=1e-12)
    C = mf.mo_coeff @ _rot(4, 1, 3, 0.3)
    e, info = cas_energy(mf, C, [0], [1, 3], (1, 1))
    ec = casci_crosscheck(mf, C, [0], [1, 3], [2], (1, 1))
    ecore, h1, g2 = active_space(mf, C, [0], [1, 3])
    en = fock_space_min(ecore, h1, g2, (1, 1))
    assert abs(e - ec) < 1e-9 and abs(e - en) < 1e-9, (e, ec, en)
    # full space: invariance under rotation and agreement with FCI
    e_full, _ = cas_energy(mf, C, [], [0, 1, 2, 3], (2, 2))
    assert abs(e_full - fci.FCI(mf).kernel()[0]) < 1e-9
    # 3. ROHF doublet H3 with the doubly occupied orbital frozen, and UHF with unequal active spaces (padding)
    mol = gto.M(atom="H 0 0 0; H 0 0 0.95; H 0 0.3 1.9", basis="sto-3g", spin=1, verbose=0)
    mf = scf.RHF(mol).run(conv_tol=1e-12)
    e, _ = cas_energy(mf, mf.mo_coeff, [0], [1, 2], (1, 0))
    ec = casci_crosscheck(mf, mf.mo_coeff, [0], [1, 2], [], (1, 0))
    assert abs(e - ec) < 1e-9, (e, ec)
    assert abs(det_energy(mf, mf.mo_coeff, [0, 1], [0]) - mf.e_tot) < 1e-9
    mfu = scf.UHF(mol).run(conv_tol=1e-12)
    Cu = (mfu.mo_coeff[0], mfu.mo_coeff[1])
    assert abs(det_energy(mfu, Cu, [0, 1], [0]) - mfu.e_tot) < 1e-9
    e, _ = cas_energy(mfu, Cu, ([], []), ([0, 1, 2], [0, 1, 2]), (2, 1))
    ec = casci_crosscheck(mfu, Cu, ([], []), ([0, 1, 2], [0, 1, 2]), ([], []), (2, 1))
    assert abs(e - ec) < 1e-9, (e, ec)
    assert abs(e - fci.direct_spin1.kernel(*_mo_ints(mf), 3, (2, 1), ecore=mol.energy_nuc())[0]) < 1e-9
    e, info = cas_energy(mfu, Cu, ([0], []), ([1, 2], [0, 1, 2]), (1, 1))
    assert info["padded"]
    ecore, h1, g2 = active_space(mfu, Cu, ([0], []), ([1, 2], [0, 1, 2]))
    en = fock_space_min(ecore, h1, g2, (1, 1))
    assert abs(e - en) < 1e-9, (e, en)
    e, info = cas_energy(mfu, Cu, ([], [0]), ([0, 1, 2], [2]), (2, 0))
    ecore, h1, g2 = active_space(mfu, Cu, ([], [0]), ([0, 1, 2], [2]))
    assert abs(e - fock_space_min(ecore, h1, g2, (2, 0))) < 1e-9


def _mo_ints(mf):
    from pyscf import ao2mo
    C = mf.mo_coeff
    n = C.shape[1]
    return C.T @ mf.get_hcore() @ C, ao2mo.restore(1, ao2mo.kernel(mf.mol, C), n)


if __name__ == "__main__":
    selftest()
    print("chem selftest ok")
