"""Common machinery: accumulators, process pool, evidence, verdicts, known findings, replay.

Every property module exposes
    PID, DESIGN_REF, RULE, ASSUMPTIONS
    shards(tier, seed)      -> list of JSON-able shard descriptors (deterministic, covers the whole bounded space)
    run_shard(shard)        -> Acc           (explores the shard exhaustively on the real code)
    replay_case(case)       -> Acc           (re-executes one case, no explorer)
and calls  main(module)  from  __main__.
"""
import argparse
import hashlib
import json
import multiprocessing as mp
import os
import sys
import time
import traceback

VERIF_DIR = os.environ.get("VERIF_DIR", os.path.dirname(os.path.dirname(os.path.abspath(__file__))))
REPO = os.environ.get("VERIF_REPO", "/repo")
# mutant / scratch runs write their evidence and replays elsewhere so that committed evidence only comes from /repo
OUT_DIR = os.environ.get("VERIF_OUT", VERIF_DIR)


def assert_repo():
    """The checks must exercise the working tree they were pointed at."""
    import tangelo
    here = os.path.realpath(tangelo.__file__)
    want = os.path.realpath(REPO) + os.sep
    if not here.startswith(want):
        print(f"HARNESS-ERROR: tangelo imported from {here}, expected under {want}")
        sys.exit(2)


def h64(obj):
    if not isinstance(obj, (bytes, str)):
        obj = json.dumps(obj, sort_keys=True, default=repr)
    if isinstance(obj, str):
        obj = obj.encode()
    return int.from_bytes(hashlib.blake2b(obj, digest_size=8).digest(), "big")


def seed_delta(seed):
    """Perturbation of the *generic* members of continuous alphabets (DESIGN 1.3)."""
    return (int(seed) % 997) * 1e-3


def jsonable(o):
    import numpy as np
    if isinstance(o, dict):
        return {str(k): jsonable(v) for k, v in o.items()}
    if isinstance(o, (list, tuple, set, frozenset)):
        return [jsonable(v) for v in o]
    if isinstance(o, (np.integer,)):
        return int(o)
    if isinstance(o, (np.floating,)):
        return float(o)
    if isinstance(o, complex) or isinstance(o, np.complexfloating):
        return {"re": float(o.real), "im": float(o.imag)}
    if isinstance(o, np.ndarray):
        return jsonable(o.tolist())
    if isinstance(o, (str, int, float, bool)) or o is None:
        return o
    return repr(o)


class Acc:
    """Accumulates what one shard explored."""

    def __init__(self):
        self.evals = 0            # oracle evaluations (executions of real code compared with the reference)
        self.states = 0           # distinct canonical states / programs visited
        self.transitions = 0      # transitions taken (appended symbols / operations applied)
        self.nontrivial = set()   # hashes of distinct non-trivial cases
        self.outcomes = set()     # hashes of distinct observed outcomes (vacuity guard)
        self.viol = {}            # key -> (size, witness)
        self.samples = []
        self.extra = {}           # free-form counters
        self.caps = []            # caps hit (=> exhaustive False)

    def ev(self, n=1):
        self.evals += n

    def nt(self, obj):
        self.nontrivial.add(h64(obj))

    def out(self, obj):
        self.outcomes.add(h64(obj))

    def count(self, name, n=1):
        self.extra[name] = self.extra.get(name, 0) + n

    def sample(self, obj, cap=4):
        if len(self.samples) < cap:
            self.samples.append(jsonable(obj))

    def violation(self, key, case, detail=None, group=None):
        """key: full finding key (call site + discriminating signature); group: reporting group (default key).
        Known findings are matched on the full key; the remaining keys are reported once per group with
        the shortest witness."""
        w = {"key": key, "group": group or key, "case": jsonable(case), "detail": jsonable(detail)}
        c = w["case"]
        size = len(json.dumps(c.get("word", c) if isinstance(c, dict) else c))
        old = self.viol.get(key)
        if old is None or size < old[0]:
            self.viol[key] = (size, w)
        self.count("violating_cases")

    def merge(self, o):
        self.evals += o.evals
        self.states += o.states
        self.transitions += o.transitions
        self.nontrivial |= o.nontrivial
        self.outcomes |= o.outcomes
        for k, v in o.viol.items():
            if k not in self.viol or v[0] < self.viol[k][0]:
                self.viol[k] = v
        for s in o.samples:
            if len(self.samples) < 8:
                self.samples.append(s)
        for k, v in o.extra.items():
            self.extra[k] = self.extra.get(k, 0) + v
        self.caps += o.caps
        return self


_MOD = None


def exception_origin(exc):
    """'library' if the deepest frame of the traceback that belongs to either the repository under test or the harness lies in
    the repository (the code under test raised on an input the harness considers valid), else 'harness'."""
    repo = os.path.realpath(REPO) + os.sep
    verif = os.path.realpath(VERIF_DIR) + os.sep
    origin = "harness"
    tb = exc.__traceback__
    while tb is not None:
        fn = os.path.realpath(tb.tb_frame.f_code.co_filename)
        if fn.startswith(repo):
            origin = "library"
        elif fn.startswith(verif):
            origin = "harness"
        tb = tb.tb_next
    return origin


def library_exception_acc(shard, exc, where="shard"):
    """An exception raised by the code under test outside any guarded call: reported as a violation (with the shard as replayable
    case), never as a harness error - the unchanged tree runs every shard without raising."""
    acc = Acc()
    acc.states += 1
    acc.transitions += 1
    acc.ev()
    acc.nt(("library-exception", json.dumps(jsonable(shard))[:200]))
    acc.nt(("library-exception-2", type(exc).__name__))
    tail = traceback.format_exception(type(exc), exc, exc.__traceback__)[-6:]
    kind = str(shard.get("kind", "?")) if isinstance(shard, dict) else "?"
    acc.violation(f"uncaught-exception-in-code-under-test/{kind}/{type(exc).__name__}", {"kind": "__shard__", "shard": jsonable(shard)},
                  {"error": repr(exc)[:300], "traceback_tail": "".join(tail)[-1500:], "where": where},
                  group=f"uncaught-exception-in-code-under-test/{type(exc).__name__}")
    return acc


def _worker(shard):
    try:
        return ("ok", _MOD.run_shard(shard))
    except Exception as e:
        if exception_origin(e) == "library":
            return ("ok", library_exception_acc(shard, e))
        return ("err", f"shard={json.dumps(jsonable(shard))[:400]}\n{traceback.format_exc()}")
    except BaseException:
        return ("err", f"shard={json.dumps(jsonable(shard))[:400]}\n{traceback.format_exc()}")


def pmap(module, shards, jobs):
    """Run run_shard over all shards in a fork pool; return merged Acc. Harness errors abort with exit 2."""
    global _MOD
    _MOD = module
    acc = Acc()
    if jobs <= 1 or len(shards) <= 1:
        for s in shards:
            st, r = _worker(s)
            if st == "err":
                print("HARNESS-ERROR in shard:\n" + r)
                sys.exit(2)
            acc.merge(r)
        return acc
    # ProcessPoolExecutor (not mp.Pool): if a worker process dies (e.g. killed for memory) the run ends with a harness error instead
    # of waiting forever for the lost shard
    import concurrent.futures as cf
    ctx = mp.get_context("fork")
    ex = cf.ProcessPoolExecutor(max_workers=min(jobs, len(shards)), mp_context=ctx)
    try:
        futs = [ex.submit(_worker, s) for s in shards]
        for fut in cf.as_completed(futs):
            try:
                st, r = fut.result()
            except cf.process.BrokenProcessPool:
                print("HARNESS-ERROR: a worker process died (out of memory?); the exploration is incomplete")
                ex.shutdown(wait=False, cancel_futures=True)
                os._exit(2)
            if st == "err":
                print("HARNESS-ERROR in shard:\n" + r)
                ex.shutdown(wait=False, cancel_futures=True)
                sys.stdout.flush()
                os._exit(2)
            acc.merge(r)
    finally:
        ex.shutdown(wait=False, cancel_futures=True)
    return acc


def load_known():
    p = os.path.join(VERIF_DIR, "known_findings.json")
    if not os.path.exists(p):
        return {"known": [], "fixed": []}
    with open(p) as f:
        return json.load(f)


def _validate_evidence(ev):
    try:
        import jsonschema
        with open("/root/.vp/EVIDENCE.schema.json") as f:
            schema = json.load(f)
        jsonschema.validate(ev, schema)
        return "jsonschema"
    except ImportError:
        pass
    except FileNotFoundError:
        pass
    # /venv has no jsonschema; the tooling interpreter has (it is only used to validate the JSON document).
    import shutil
    import subprocess
    vt = shutil.which("python3-vt") or "/opt/veriftools/pyvenv/bin/python"
    if os.path.exists(vt) and os.path.exists("/root/.vp/EVIDENCE.schema.json"):
        code = ("import json,sys,jsonschema; ev=json.load(sys.stdin); "
                "jsonschema.validate(ev, json.load(open('/root/.vp/EVIDENCE.schema.json')))")
        env = {k: v for k, v in os.environ.items() if k not in ("PYTHONPATH",)}
        r = subprocess.run([vt, "-c", code], input=json.dumps(ev).encode(), capture_output=True, env=env)
        if r.returncode == 0:
            return "jsonschema(python3-vt)"
        if b"ValidationError" in r.stderr:
            print("HARNESS-ERROR: evidence does not validate:\n" + r.stderr.decode()[-800:])
            sys.exit(2)
    cov = ev["coverage"]
    for k in ("states", "transitions", "traces_validated_against_impl", "evaluations", "distinct_nontrivial"):
        assert isinstance(cov[k], int) and cov[k] >= 0, k
    assert cov["states"] >= 1 and cov["transitions"] >= 1 and len(cov["samples"]) >= 1
    return "builtin"


def safe_key(key):
    return "".join(c if (c.isalnum() or c in "-_.") else "_" for c in key)[:150]


def finish(module, acc, tier, seed, t0, exhaustive=True, bounds=None):
    pid = module.PID
    known = load_known()
    known_keys = {k["key"]: k for k in known.get("known", []) if k.get("property") == pid}
    new_all, listed = [], []
    for key, (sz, w) in sorted(acc.viol.items()):
        if key in known_keys:
            listed.append((key, w))
        else:
            new_all.append((sz, key, w))
    # report one witness (the shortest) per group
    best = {}
    for sz, key, w in new_all:
        g = w.get("group", key)
        if g not in best or sz < best[g][0]:
            best[g] = (sz, key, w)
    new = [(key, w) for _, key, w in sorted(best.values(), key=lambda t: t[1])]
    n_new_keys = len(new_all)

    os.makedirs(os.path.join(OUT_DIR, "evidence"), exist_ok=True)
    cov = {
        "states": int(acc.states),
        "transitions": int(acc.transitions),
        "traces_validated_against_impl": int(acc.evals),
        "evaluations": int(acc.evals),
        "distinct_nontrivial": len(acc.nontrivial),
        "distinct_observed_outcomes": len(acc.outcomes),
        "rule": module.RULE,
        "samples": acc.samples[:8] if acc.samples else ["(no sample recorded)"],
        "exhaustive": bool(exhaustive and not acc.caps),
        "caps_hit": acc.caps,
        "bounds": jsonable(bounds or {}),
        "counters": acc.extra,
        "violation_keys": [k for k, _ in new],
        "violation_keys_total": n_new_keys,
        "known_finding_keys": [k for k, _ in listed],
        "engine": getattr(module, "ENGINE", "seqspace"),
        "repo": REPO,
    }
    ev = {
        "property_id": pid, "tier": tier, "seed": int(seed), "level": "model_checking",
        "coverage": cov, "assumptions": list(module.ASSUMPTIONS),
        "wall_s": round(time.time() - t0, 3), "violations": len(new),
    }
    how = _validate_evidence(ev)
    ev["coverage"]["evidence_validated_by"] = how
    evp = os.path.join(OUT_DIR, "evidence", f"{pid}.json")
    with open(evp, "w") as f:
        json.dump(ev, f, indent=1, sort_keys=True)

    print(f"[{pid}] tier={tier} seed={seed} states={acc.states} transitions={acc.transitions} "
          f"evaluations={acc.evals} distinct_nontrivial={len(acc.nontrivial)} outcomes={len(acc.outcomes)} "
          f"exhaustive={cov['exhaustive']} wall={ev['wall_s']}s")
    for k, v in sorted(acc.extra.items()):
        print(f"[{pid}]   {k}={v}")
    for key, w in listed:
        print(f"KNOWN-FINDING: property={pid} {known_keys[key].get('what', key)} [key={key}]")
    if acc.evals == 0 or len(acc.nontrivial) < 2:
        print(f"HARNESS-ERROR: vacuous exploration (evaluations={acc.evals}, nontrivial={len(acc.nontrivial)})")
        sys.exit(2)
    if new:
        rd = os.path.join(OUT_DIR, "replays", pid)
        os.makedirs(rd, exist_ok=True)
        for key, w in new:
            p = os.path.join(rd, safe_key(key) + ".json")
            w = dict(w, property=pid)
            with open(p, "w") as f:
                json.dump(w, f, indent=1, sort_keys=True)
            print(f"VIOLATION property={pid} replay={p}")
            print(f"    key={key} detail={json.dumps(w['detail'])[:300]}")
        sys.exit(1)
    sys.exit(0)


def main(module):
    ap = argparse.ArgumentParser()
    ap.add_argument("--tier", default=os.environ.get("VERIF_TIER", "quick"), choices=["quick", "thorough"])
    ap.add_argument("--replay", default=None)
    ap.add_argument("--jobs", type=int, default=int(os.environ.get("VERIF_JOBS", "16")))
    ap.add_argument("--only", default=None, help="debug: restrict to shards whose 'kind' contains this string")
    ap.add_argument("--stride", type=int, default=1, help="debug/triage: run every N-th shard only (evidence says exhaustive=false)")
    a = ap.parse_args()
    seed = int(os.environ.get("VERIF_SEED", "0") or 0)
    t0 = time.time()
    assert_repo()
    if a.replay:
        with open(a.replay) as f:
            w = json.load(f)
        if isinstance(w["case"], dict) and w["case"].get("kind") == "__shard__":
            global _MOD
            _MOD = module
            st, r = _worker(w["case"]["shard"])
            if st == "err":
                print("HARNESS-ERROR in shard:\n" + r)
                sys.exit(2)
            acc = r
        else:
            acc = module.replay_case(w["case"])
        print(f"[{module.PID}] replay of {a.replay}: case={json.dumps(w['case'])[:600]}")
        if acc.viol:
            for key, (_, ww) in acc.viol.items():
                print(f"VIOLATION property={module.PID} replay={a.replay}")
                print(f"    key={key} detail={json.dumps(ww['detail'])[:600]}")
            sys.exit(1)
        print(f"[{module.PID}] replay: no violation reproduced")
        sys.exit(0)
    if hasattr(module, "selftest"):
        module.selftest()
    if hasattr(module, "explore"):
        acc = module.explore(a.tier, seed, a.jobs)
    else:
        sh = module.shards(a.tier, seed)
        if a.only:
            sh = [s for s in sh if a.only in str(s.get("kind", ""))]
        if a.stride > 1:
            sh = sh[::a.stride]
        acc = pmap(module, sh, a.jobs)
        if a.only or a.stride > 1:
            acc.caps.append(f"debug run: only={a.only} stride={a.stride}")
    finish(module, acc, a.tier, seed, t0, bounds=getattr(module, "bounds", lambda t, s: {})(a.tier, seed))
