"""E2: explicit-state breadth-first exploration of live objects.

A state is identified by the event history reaching it (replayed on fresh objects); the canonical projection of the
object is hashed for deduplication. The property module supplies:
    sg_starts(tier, seed)            -> list of start descriptors
    sg_build(start)                  -> fresh live object for that start
    sg_ops(obj, hist)                -> list of JSON-able operations enabled in this state
    sg_step(obj, op, acc, hist)      -> next object (may be the same object mutated); checks per-transition oracles
    sg_canon(obj)                    -> hashable canonical projection
    sg_check(obj, hist, acc)         -> invariants in this state (+ read-only operations, which are self-loops)
Breadth-first: the first witness of a violation is a shortest history.
"""
import copy
import json
import multiprocessing as mp
import sys
import traceback

from .runner import Acc, h64, jsonable

_M = None


def rebuild(module, hist):
    obj = module.sg_build(hist[0])
    quiet = Acc()
    for op in hist[1:]:
        obj = module.sg_step(obj, op, quiet, None)
    return obj


def _expand(args):
    hists, check_deepcopy = args
    try:
        acc = Acc()
        out = []
        for hist in hists:
            base = rebuild(_M, hist)
            k0 = _M.sg_canon(base)
            for op in _M.sg_ops(base, hist):
                if check_deepcopy:
                    obj = copy.deepcopy(base)
                    if _M.sg_canon(obj) != k0:
                        raise RuntimeError("deepcopy of a state differs from the state (harness)")
                else:
                    obj = rebuild(_M, hist)
                h2 = hist + [op]
                nxt = _M.sg_step(obj, op, acc, h2)
                acc.transitions += 1
                _M.sg_check(nxt, h2, acc)
                out.append((h64(repr(_M.sg_canon(nxt))), h2))
        return ("ok", acc, out)
    except BaseException:
        return ("err", f"hist={json.dumps(jsonable(hists[0]))[:300]}\n{traceback.format_exc()}", None)


def explore(module, starts, depth, jobs=16, max_states=None, check_deepcopy=True):
    global _M
    _M = module
    acc = Acc()
    seen = {}
    frontier = []
    for s in starts:
        obj = module.sg_build(s)
        module.sg_check(obj, [s], acc)
        k = h64(repr(module.sg_canon(obj)))
        if k not in seen:
            seen[k] = True
            frontier.append([s])
    acc.states = len(seen)
    ctx = mp.get_context("fork")
    for lvl in range(depth):
        if not frontier:
            break
        nchunk = max(1, min(len(frontier), jobs * 8))
        chunks = [frontier[i::nchunk] for i in range(nchunk)]
        results = []
        if jobs > 1 and len(chunks) > 1:
            with ctx.Pool(min(jobs, len(chunks))) as pool:
                for r in pool.imap(_expand, [(c, check_deepcopy) for c in chunks], chunksize=1):
                    results.append(r)
        else:
            results = [_expand((c, check_deepcopy)) for c in chunks]
        nxt_frontier = []
        for st, a, out in results:
            if st == "err":
                print("HARNESS-ERROR in state expansion:\n" + a)
                sys.exit(2)
            acc.merge(a)
            for k, h in out:
                if k not in seen:
                    seen[k] = True
                    nxt_frontier.append(h)
        # deterministic order: shortest / lexicographically first history per state was kept by insertion order
        frontier = nxt_frontier
        acc.states = len(seen)
        acc.count(f"states_after_depth_{lvl + 1}", len(seen) - acc.extra.get("_prev_states", 0))
        acc.extra["_prev_states"] = len(seen)
        if max_states and len(seen) > max_states:
            acc.caps.append(f"state cap {max_states} reached at depth {lvl + 1}")
            break
    acc.extra.pop("_prev_states", None)
    acc.count("frontier_unexpanded", len(frontier))
    return acc
