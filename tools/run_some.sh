#!/bin/bash
# Run the given tier for the listed checks, each under a time limit: tools/run_some.sh <tier> <limit_s> C01 C02 ...
cd "$(dirname "$(readlink -f "$0")")/.." || exit 2
tier="$1"; lim="$2"; shift 2
for id in "$@"; do
  t0=$(date +%s)
  out=$(VERIF_OUT="${VERIF_OUT:-/var/tmp/run_some_out}" timeout "$lim" ./check $id --tier $tier 2>&1); rc=$?
  t1=$(date +%s)
  echo "$id rc=$rc wall=$((t1-t0))s  $(echo "$out" | grep -E "^\[$id\] tier" | head -1)"
  if [ $rc -ne 0 ]; then echo "$out" | grep -E "VIOLATION|key=|HARNESS|Error" | head -6; fi
done
