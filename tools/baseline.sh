#!/bin/bash
# Run the repository's test-suite on a tree (default /repo) and compare with BASELINE.json's stable_pass list.
# usage: tools/baseline.sh [repo_dir] ; prints "BASELINE: pass=<n>/486 missing=<k>" and lists regressions.
R="${1:-/repo}"
OUT="$(mktemp -d /var/tmp/baseline.XXXXXX)"
( cd "$R" && OMP_NUM_THREADS=1 OPENBLAS_NUM_THREADS=1 MKL_NUM_THREADS=1 PYTHONPATH="$R" /venv/bin/python -m pytest -q -p no:cacheprovider --timeout=900 \
    --continue-on-collection-errors -n 16 --junitxml="$OUT/j.xml" >"$OUT/log" 2>&1 )
/venv/bin/python - "$OUT/j.xml" <<'P'
import json, sys, xml.etree.ElementTree as ET
base = set(json.load(open("/root/.vp/BASELINE.json"))["stable_pass"])
ok = set()
for tc in ET.parse(sys.argv[1]).getroot().iter("testcase"):
    if not any(ch.tag in ("failure", "error", "skipped") for ch in tc):
        ok.add(f"{tc.get('classname')}::{tc.get('name')}")
miss = sorted(base - ok)
print(f"BASELINE: pass={len(base & ok)}/{len(base)} missing={len(miss)} (total passing now {len(ok)})")
for m in miss[:40]:
    print("  REGRESSION", m)
sys.exit(1 if miss else 0)
P
rc=$?
rm -rf "$OUT"
exit $rc
