#!/bin/bash
# Copy a seeding sub-agent's output (<worktree>/seed_out/<k>/) into /verif/seeded/<Cxx>-<n>/ and confirm demo + check.
# usage: tools/seed_ingest.sh <worktree> <Cxx>   (numbers continue after the highest existing seed of that property)
cd "$(dirname "$(readlink -f "$0")")/.." || exit 2
wt="$1"; id="$2"
last=$(ls -d seeded/$id-* 2>/dev/null | sed "s/.*-//" | sort -n | tail -1); last=${last:-0}
for k in $(ls "$wt/seed_out" 2>/dev/null | sort -n); do
  src="$wt/seed_out/$k"
  [ -f "$src/patch.diff" ] && [ -f "$src/demo.py" ] && [ -f "$src/meta.json" ] || { echo "skip $src (incomplete)"; continue; }
  last=$((last+1)); dst="seeded/$id-$last"
  mkdir -p "$dst"; cp "$src/patch.diff" "$src/demo.py" "$src/meta.json" "$dst/"
  python3 tools/seed_eval.py "$id-$last" demo
  python3 tools/seed_eval.py "$id-$last" check --tier quick
done
