#!/bin/bash
# Run every claimed check's quick (or given tier) command sequentially; print exit code and wall time per check.
cd "$(dirname "$(readlink -f "$0")")/.." || exit 2
tier="${1:-quick}"
ids=$(python3 -c "import json; print(' '.join(c['property_id'] for c in json.load(open('MANIFEST.json'))['checks']))")
fail=0
for id in $ids; do
  t0=$(date +%s)
  out=$(./check $id --tier $tier 2>&1); rc=$?
  t1=$(date +%s)
  line=$(echo "$out" | grep -E "^\[$id\] tier" | head -1)
  echo "$id rc=$rc wall=$((t1-t0))s  $line"
  if [ $rc -ne 0 ]; then fail=1; echo "$out" | grep -E "VIOLATION|key=|HARNESS|Error" | head -6; fi
done
exit $fail
