#!/bin/bash
# Run the repository test-suite on every seeded change that has no "tests" confirmation yet (sequentially, niced).
cd "$(dirname "$(readlink -f "$0")")/.."
for d in seeded/*/; do
  n=$(basename $d)
  if ! grep -q '"tests"' $d/meta.json 2>/dev/null; then
    nice -n 5 python3 tools/seed_eval.py $n tests
  fi
done
