#!/bin/bash
# Run the repository test-suite on every seeded change that has no "tests" confirmation yet.
# usage: tools/seed_tests_all.sh [k n]   -> handles the seeds whose index % n == k (run several in parallel)
cd "$(dirname "$(readlink -f "$0")")/.."
k=${1:-0}; n=${2:-1}; i=0
for d in seeded/*/; do
  name=$(basename $d); i=$((i+1))
  [ $((i % n)) -eq $k ] || continue
  [ -f $d/meta.json ] || continue
  if ! grep -q '"tests"' $d/meta.json 2>/dev/null; then
    nice -n 5 python3 tools/seed_eval.py $name tests
  fi
done
