#!/usr/bin/env python3
"""Evaluate one seeded change kept under /verif/seeded/<name>/ (patch.diff, demo.py, meta.json).
  tools/seed_eval.py <name> demo            run demo.py on /repo (must exit 0) and on a scratch copy with the patch (must exit != 0)
  tools/seed_eval.py <name> tests           run the repository test-suite on a scratch copy with the patch (baseline must hold)
  tools/seed_eval.py <name> check [args]    run the property's check on a scratch copy with the patch (must exit 1 with VIOLATION)
Results are appended to meta.json under "confirmed". Scratch copies live in /var/tmp and are removed."""
import json, os, shutil, subprocess, sys, tempfile, time

V = os.path.dirname(os.path.dirname(os.path.abspath(__file__)))
name, what, extra = sys.argv[1], sys.argv[2], sys.argv[3:]
d = os.path.join(V, "seeded", name)
meta = json.load(open(os.path.join(d, "meta.json")))
pid = meta["property"]


def scratch():
    s = tempfile.mkdtemp(prefix="tgl-seed.", dir="/var/tmp")
    subprocess.check_call(["rsync", "-a", "--exclude", ".git", "--exclude", "*.egg-info", "--exclude", "__pycache__", "--exclude", "seed_out", "/repo/", s + "/repo/"])
    subprocess.check_call(["git", "init", "-q", "."], cwd=s + "/repo")
    r = subprocess.run(["git", "apply", "--whitespace=nowarn", os.path.join(d, "patch.diff")], cwd=s + "/repo", capture_output=True, text=True)
    if r.returncode:
        shutil.rmtree(s)
        sys.exit(f"patch does not apply: {r.stderr}")
    return s


env0 = dict(os.environ, OMP_NUM_THREADS="1", PYTHONWARNINGS="ignore")
conf = meta.setdefault("confirmed", {})
if what == "demo":
    r0 = subprocess.run(["/venv/bin/python", "-W", "ignore", os.path.join(d, "demo.py")], env=dict(env0, PYTHONPATH="/repo"), capture_output=True, text=True, cwd="/repo")
    s = scratch()
    try:
        r1 = subprocess.run(["/venv/bin/python", "-W", "ignore", os.path.join(d, "demo.py")], env=dict(env0, PYTHONPATH=s + "/repo"), capture_output=True, text=True, cwd=s + "/repo")
    finally:
        shutil.rmtree(s)
    conf["demo"] = {"clean_exit": r0.returncode, "patched_exit": r1.returncode, "patched_tail": (r1.stdout + r1.stderr)[-300:]}
    print(name, "demo: clean", r0.returncode, "patched", r1.returncode)
elif what == "tests":
    s = scratch()
    try:
        r = subprocess.run([os.path.join(V, "tools", "baseline.sh"), s + "/repo"], capture_output=True, text=True)
    finally:
        shutil.rmtree(s)
    line = [l for l in r.stdout.splitlines() if l.startswith("BASELINE")]
    conf["tests"] = {"exit": r.returncode, "summary": line[0] if line else r.stdout[-300:], "regressions": [l.strip() for l in r.stdout.splitlines() if "REGRESSION" in l][:10]}
    print(name, "tests:", conf["tests"]["summary"])
elif what == "check":
    s = scratch()
    t0 = time.time()
    try:
        r = subprocess.run([os.path.join(V, "check"), pid] + extra, env=dict(os.environ, VERIF_REPO=s + "/repo", VERIF_OUT=s + "/out"), capture_output=True, text=True, cwd=V)
    finally:
        shutil.rmtree(s)
    out = r.stdout
    viol = [l for l in out.splitlines() if l.startswith("VIOLATION")]
    keys = [l.strip() for l in out.splitlines() if l.strip().startswith("key=")]
    conf["check:" + " ".join(extra)] = {"exit": r.returncode, "violations": len(viol), "first_keys": [k[:200] for k in keys[:4]], "wall_s": round(time.time() - t0, 1)}
    print(name, "check", " ".join(extra), "-> exit", r.returncode, "violations", len(viol))
    for k in keys[:3]:
        print("   ", k[:220])
    if r.returncode == 2:
        print(out[-1500:])
json.dump(meta, open(os.path.join(d, "meta.json"), "w"), indent=1)
