ENGINES = [
    {"name": "seqspace", "path": "/verif/mc/runner.py + props/*.py (shards/iter_words)", "serves_properties": ["C09"],
     "kind_free_text": "bounded-exhaustive enumeration of programs/inputs over a finite alphabet (prefix tree = state graph), real code vs numpy reference model, 16-way fork pool"},
]
NOTES = ("All checks explore the real implementation (no abstract model): traces_validated_against_impl equals the number of "
         "executions compared with the reference model. VERIF_SEED only perturbs generic representatives of continuous alphabets. "
         "Exit 2 = harness error (never a violation).")
CLAIMED = {
    "C09": {
        "engine": "seqspace+stategraph",
        "technique": "bounded exhaustive exploration: all gate words <= depth 3 over a 71-gate alphabet x placements x every transformation, vs numpy reference unitaries",
        "text": "Every circuit of depth <= 2 (71-gate alphabet incl. controlled rotations around 2pi/4pi, thresholds) on 4 qubit placements with and without fixed width, and depth <= 3 over a 30-gate alphabet, is put through inverse/copy/+/*/split/stack/trim/reindex/the three passes (function and method)/simplify and all two-pass chains; the resulting gate list's unitary is compared with the original's (numpy reference, up to phase, dropped-rotation bound) and inputs are snapshotted for out-of-place operations; all gate pairs for ==, all inverses, all Clifford angles k*pi/2 (|k|<=8). Exhaustive inside those bounds, which is the right level for 'for all circuits': the defects live in interactions of two or three adjacent gates.",
        "note": "Trusted: numpy reference gate matrices (self-tested at setup). Not covered: angles outside the alphabet, depth > 3 (4 in thorough on a 22-gate alphabet), > 3 logical qubits.",
    },
}
NOT_CLAIMED = {}
