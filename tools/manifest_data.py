ENGINES = [
    {"name": "seqspace", "path": "/verif/mc/runner.py + props/*.py (shards/iter_words)", "serves_properties": ["C09"],
     "kind_free_text": "bounded-exhaustive enumeration of programs/inputs over a finite alphabet (prefix tree = state graph), real code vs numpy reference model, 16-way fork pool"},
]
NOTES = ("All checks explore the real implementation (no abstract model): traces_validated_against_impl equals the number of "
         "executions compared with the reference model. VERIF_SEED only perturbs generic representatives of continuous alphabets. "
         "Exit 2 = harness error (never a violation).")
CLAIMED = {
    "C09": {
        "engine": "seqspace+stategraph",
        "technique": "bounded exhaustive exploration: all gate words <= depth 3 over a 71-gate alphabet x placements x every transformation, vs numpy reference unitaries",
        "text": "Every circuit of depth <= 2 (71-gate alphabet incl. controlled rotations around 2pi/4pi, thresholds) on 4 qubit placements with and without fixed width, and depth <= 3 over a 30-gate alphabet, is put through inverse/copy/+/*/split/stack/trim/reindex/the three passes (function and method)/simplify and all two-pass chains; the resulting gate list's unitary is compared with the original's (numpy reference, up to phase, dropped-rotation bound) and inputs are snapshotted for out-of-place operations; all gate pairs for ==, all inverses, all Clifford angles k*pi/2 (|k|<=8). Exhaustive inside those bounds, which is the right level for 'for all circuits': the defects live in interactions of two or three adjacent gates.",
        "note": "Trusted: numpy reference gate matrices (self-tested at setup). Not covered: angles outside the alphabet, depth > 3 (4 in thorough on a 22-gate alphabet), > 3 logical qubits.",
    },
}
CLAIMED["C11"] = {
    "engine": "stategraph",
    "technique": "explicit-state BFS over live Circuit objects (33 operations per state, depth 3/4), invariant = metadata recomputed from the gate list; exhaustive menu of invalid constructions",
    "text": "Breadth-first exploration of every state of a Circuit object reachable within 3 (quick) / 4 (thorough) operations from 4 start circuits under add_gate (9 gates incl. string parameter, multi-control, MEASURE, out-of-range), +, *, copy, inverse, trim, reindex, split, stack, the four simplifiers (in place and module level) and IonQ/ProjectQ round trips; in every state width/size/counts/arity counts/flags/depth and the identity of the variational gates are recomputed from the gate list, and 13 read-only operations (translate to 4 formats, simulate on cirq and sympy, expectation value, depth, serialize, iterate, ...) are run with operand snapshots. 270 invalid Gate constructions and out-of-range add_gate calls must raise and leave the circuit untouched. All histories within the bound are covered, which is what 'after any sequence of operations' needs; unit tests only look at fresh circuits.",
    "note": "Trusted: the recomputation in mc/ref/circuitmeta.py (self-tested). Not covered: histories longer than the bound, gates outside the 9-gate menu, backends not installed.",
}
ENGINES.append({"name": "stategraph", "path": "/verif/mc/stategraph.py", "serves_properties": ["C11"],
                "kind_free_text": "explicit-state breadth-first search; transitions call the real methods on live objects; states rebuilt by replaying histories and cross-checked against deepcopy; canonical projection hashed for dedup"})
CLAIMED["C01"] = {
    "engine": "seqspace+choicetree",
    "technique": "bounded exhaustive exploration: every gate of Sigma_1..4 (all placements, control lists of length 1-3 in every order, 7 angles) at depth 1 from every basis state, all depth-2 words over Sigma_3, on cirq and sympy, vs a numpy reference simulator; sampled mode by exhaustive enumeration of scripted sampler answers",
    "text": "Every gate of the alphabet on registers of width 1-4 is simulated on cirq from |0..0>, from every computational basis state (full unitary) and from a dense complex vector supplied in the advertised index order; every depth-2 word over Sigma_3 (thorough: all 7 angles, plus depth 3 over a 30-gate alphabet) likewise; the cirq translation alone is compared through cirq.unitary; sympy: every gate of Sigma_2/Sigma_3 and depth-2 words over a 20/30-gate alphabet; empty circuits with initial vectors; registers wider than the highest index used. Frequencies (qubit-0-first keys), the statevector read in the advertised order and unsupported-gate refusal are compared with a numpy reference. Sampled mode: the scipy sampler is replaced by a scripted one and every sample sequence for n_shots in {1,2} is explored; the distribution handed to the sampler and the returned frequencies are checked exactly. Exhaustive within these bounds; unit tests only simulate a handful of hand-picked circuits.",
    "note": "Trusted: numpy reference gate matrices and simulator (self-tested). Not covered: angles outside the 7-value alphabet, width > 4, backends not installed.",
}
ENGINES.append({"name": "choicetree", "path": "/verif/mc/choicetree.py + /verif/mc/seams.py", "serves_properties": ["C01"],
                "kind_free_text": "stateless DFS over the answers of scripted random sources (prefix replay, first schedule replayed twice); records the argument of every draw"})
CLAIMED["C02"] = {
    "engine": "seqspace+choicetree",
    "technique": "bounded exhaustive exploration of operator x state-preparation catalogue on every evaluation route, plus exhaustive enumeration of scripted sampler answers for finite shots, vs numpy <psi|H|psi>",
    "text": "915 operators (all 64 Pauli words on <=3 qubits x 5 real/complex coefficients, 66 word pairs x 9 coefficient pairs, a 5-term operator with identity) x 12 preparations (empty, dense, idle qubits, wider than the operator) x {no, dense} initial vector on cirq; preparations with 1-2 MEASURE gates under every desired outcome string (zero-probability branches must be refused); a third of the product on sympy; exact variance and standard error. Finite shots (n_shots 1,2): the scipy sampler and cirq's samplers are scripted; every sample sequence is explored, the distribution handed to each sampler call must be the exact (post-selected where requested) distribution of the rotated state and the returned estimate / variance / standard error must be the documented arithmetic of the samples. Each route selected by get_expectation_value's branch conditions is reached by at least one family of cases.",
    "note": "Trusted: numpy reference simulator and Pauli matrices. Not covered: operators with more than 2 non-identity terms (one 5-term case), > 3-4 qubits, n_shots > 2; post-selection with finite shots is only checked for the distributions handed to full-distribution samplers (shot filtering itself is C10).",
}
ENGINES[0]["serves_properties"] = ["C01", "C02", "C09"]
CLAIMED["C10"] = {
    "engine": "seqspace+choicetree",
    "technique": "bounded exhaustive exploration of measurement programs (length<=4/5) against a reference branch tree; exhaustive enumeration of every answer of the scripted random sources (np.random.random grid, cirq prng.choice, state samplers) for n_shots 1-2",
    "text": "All words of length <= 4 (thorough 5) over {H,X,RY,CNOT,CRY,MEASURE} and over a CMEASURE alphabet (dictionary control incl. nested controlled measurements with trailing gates; function and class control with a two-round repeat-until-success) are simulated in exact mode for EVERY outcome string: post-measurement state, branch distribution, recorded success probability, applied gate list (simulate and generate_applied_gates), probabilities summing to one and weighted branches reproducing the unconditioned distribution; zero-probability strings must be refused. Sampled modes run under a choice-tree explorer owning every random draw: for CMEASURE circuits every grid value of each random() draw must select the outcome the Born probability dictates and the state handed to the final sampler must be the branch state; for MEASURE circuits the executions weighted by the probabilities recorded at their draws must induce exactly the i.i.d. distribution of the reference joint table, and all_frequencies / mid_circuit_meas_freqs / frequencies must be marginals of one table.",
    "note": "Trusted: numpy reference simulator + branch unfolding (self-tested); cirq.Simulator draws only through the scripted RandomState. Not covered: > 2-3 qubits, > 3 measurement gates, n_shots > 2, noise together with measurement.",
}
CLAIMED["C03"] = {
    "engine": "seqspace",
    "technique": "exhaustive enumeration of ladder-operator pairs, monomial pairs and small Hamiltonians for n=2..6(7) spin-orbitals, all encodings/orderings/sectors, vs explicit Fock-space matrices",
    "text": "For JW/BK/JKMN (n=2..6, thorough 7), scBK (n=4,6, every (n_alpha,n_beta)), HCB (2-3 spatial orbitals) and combinatorial (2-3 modes, every sector): CAR for all ordered ladder pairs, products/sums/adjoints over all ordered monomial pairs, spectra of every Hermitianised one-/two-body generator and of all Hamiltonians with <= 3 generators, compared with ladder matrices built from occupation kets (no qubit mapping, no openfermion in the oracle). Exhaustive for the stated sizes, both orderings, operators not touching the top orbital and pure constants included.",
    "note": "Trusted: mc/ref/fermion.py and mc/ref/pauli.py (self-tested: CAR, Pauli products). Not covered: n > 7, Hamiltonians with more than 3 generators, scBK operators changing N by 2 (docstring and property disagree on them).",
}
CLAIMED["C05"] = {
    "engine": "seqspace",
    "technique": "exhaustive enumeration of (n_spinorbitals, n_electrons, spin, encoding, ordering) and of every occupation vector up to length 6 (13 thorough), oracle = encoded occupation-number operators",
    "text": "Every reference circuit for n in {2,4,6,8} (thorough to 14), every electron count and admissible spin (negative, odd N, None), JW/BK/scBK/JKMN, both orderings, and the encoding of every occupation vector of length 1..6 (thorough 1..10,12,13) must be an X-only circuit whose basis state gives expectation exactly 1/0 of the encoded number operator of each requested/other spin-orbital.",
    "note": "Trusted: fermion_to_qubit_mapping of number operators is used as the measuring device (its faithfulness is C03's subject) plus mc/ref/pauli.py. Not covered: registers beyond the bound.",
}
ENGINES[0]["serves_properties"] = ["C01", "C02", "C03", "C05", "C09", "C10"]
ENGINES[2]["serves_properties"] = ["C01", "C02", "C10"]
CLAIMED["C04"] = {
    "engine": "seqspace",
    "technique": "exhaustive product of a finite catalogue (molecule x geometry x reference x frozen-orbital pattern x encoding x ordering x active-space rotation) with an independent PySCF CASCI/UCASCI/FCI oracle",
    "text": "Full product of 9 (thorough 10) small molecules x 2 geometries x RHF/ROHF/UHF x every valid frozen-orbital pattern (int, contiguous, non-contiguous occupied+virtual, interior virtual, per-spin equal/shifted/unequal lists) x JW/BK/scBK/JKMN x both orderings x 4-5 active-space rotations: the qubit Hamiltonian's diagonal element on the encoded reference determinant equals the mean-field energy; its lowest eigenvalue in the (n_alpha,n_beta) sector (dense, leak-checked) equals an independently folded PySCF CASCI/UCASCI energy (two oracle routes cross-checked at run time) and FCISolver/CCSDSolver where they apply; the sector minimum is invariant under active-active rotations. Bookkeeping of active/frozen lists, electron and spin counts is compared with a harness-side partition.",
    "note": "Trusted: PySCF integrals/FCI kernels as chemistry oracle, numpy eigensolver. Not covered: > 12 active spin-orbitals, other basis sets, Psi4, molecules containing He (no CRENBL set for He in the installed PySCF: construction fails, counted as skipped).",
}
CLAIMED["C16"] = {
    "engine": "stategraph",
    "technique": "explicit-state BFS over pools of operator objects (every ordered pair x {+,-,*,+=,-=,*=,==}, results join the pool, depth 2/3) with a dict-based algebra oracle and operand snapshots; exhaustive word-pair enumeration for the array form",
    "text": "Level-synchronous BFS over pools of Tangelo/openfermion fermionic and qubit operators, annotated and bare QubitHamiltonians and scalars: every ordered pair (including x op x) under + - * and their in-place forms and ==; after each transition every operand other than an in-place target must keep its value and annotations and the result must equal a dict-based reference computed from the pre-state; results join the pool so chains on shared operands are explored. MultiformOperator: all 16x16 two-qubit word pairs, 12x12 three-qubit pairs, all pairs of 2-term operators, every small integer array for collapse, do_commute against the symbolic commutator.",
    "note": "Trusted: local dict-based fermionic/Pauli reference (self-tested against dense matrices). Tolerated: documented rejections; x += x / x -= x with the same object failing inside openfermion's SymbolicOperator (not Tangelo code). Not covered: depth > 3, cross-family operations.",
}
CLAIMED["C17"] = {
    "engine": "seqspace",
    "technique": "bounded exhaustive exploration: every gate word of depth <= 2 (3) over each format's full supported alphabet (all placements, 11 parameter values, width variants) exported and re-imported; every gate for repr/eval; every Pauli word x coefficient for operator conversion",
    "text": "IonQ JSON (dict and json text routes) and ProjectQ text: all words of depth <= 2 over the complete supported alphabet (807 / 163 symbols incl. 1-2 controls, 11 parameter values incl. 1e-5, -1e-17, 12345.678, numpy floats) in six width variants, depth 3 on a one-parameter alphabet; import(export(c)) must equal c under Circuit.__eq__ and under a structural comparison (names modulo CNOT==CX, targets, controls, bit-exact parameters, width); every gate outside a format's set must be refused (at export or loudly at import), never altered. eval(repr(g)) for 3516 gates; tangelo<->cirq and tangelo<->openfermion operator round trips for every Pauli word on <= 3 qubits x 4 coefficients and all 2-term sums.",
    "note": "OpenQASM / qiskit / braket / projectq-operator clauses auto-skip (packages absent) and are counted in the evidence. Operator terms with |coef| <= 1e-8 may vanish (library equality tolerance).",
}
ENGINES[0]["serves_properties"] = ["C01", "C02", "C03", "C04", "C05", "C09", "C10", "C17"]
ENGINES[1]["serves_properties"] = ["C11", "C16"]
CLAIMED["C19"] = {
    "engine": "seqspace+choicetree",
    "technique": "bounded exhaustive exploration of circuit words x noise-model assignments against a numpy density-matrix reference; exhaustive enumeration of scripted cirq sampler answers, observing the mixed state handed to the sampler",
    "text": "Every circuit of depth <= 2 (thorough 3) over a 10-gate alphabet with 1-, 2- and 3-qubit gates (controls, multi-controlled CNOT, CSWAP) is combined with every assignment of {none, 4 pauli, 4 depol, 8 pauli+depol in both insertion orders} to each gate name present and to an absent name. Checked against a numpy density-matrix evolution (pauli channel per touched qubit, joint depolarisation of all touched qubits): the translated cirq circuit run on cirq's density-matrix simulator, the state kept by the backend and the matrix handed to the sampler; frequencies from every scripted sample; zero rates equal the noiseless state; for expectation values (6 observables, n_shots 1-2) the mixed state handed to the sampler for each term after the noisy basis rotation and the estimate arithmetic for every sample sequence; 14 malformed specifications, noise on sympy and noise without shots must be rejected, 3 boundary-valid ones accepted.",
    "note": "Trusted: mc/ref/density.py (self-tested: trace preservation, 1-qubit depol == pauli(q/4,q/4,q/4), partial-trace form). Not covered: rates outside the alphabets, > 3 qubits, depth > 3, n_shots > 2; noise combined with mid-circuit measurement only for 4 two-qubit programs x 4 noise models.",
}
ENGINES[0]["serves_properties"] = ["C01", "C02", "C03", "C04", "C05", "C09", "C10", "C17", "C19"]
ENGINES[2]["serves_properties"] = ["C01", "C02", "C10", "C19"]
CLAIMED["C06"] = {
    "engine": "seqspace",
    "technique": "exhaustive enumeration of Pauli words x coefficient/control alphabets and of ordered 1-3-term operators x time/order/step/control options; oracle = exact matrix exponentials and rigorous commutator bounds",
    "text": "(a) all 63 non-identity Pauli words on 3 qubits x 7 coefficients (both signs, beyond 2pi, tiny, zero) x 7 control choices: the gate list's unitary equals (controlled-)exp(-i c P) including phase; (b) ordered 1-3-term operators over the 16 two-qubit words and a 10-word three-qubit alphabet x scalar / per-term times x Trotter orders 1,2 (4,6 with a composite rigorous bound and a convergence-ratio check) x 1-3 steps x 7 control shapes for trotterize and get_exponentiated_qubit_operator_circuit: exact for commuting term sets, within the Childs et al. first/second-order commutator bound for the ordered term list otherwise; (c) 31 Hermitian fermionic generators and pairs under JW/BK/scBK/JKMN x both orderings; (d) TrotterSuzukiUnitary.build_circuit with steps, controls and methods.",
    "note": "Trusted: mc/ref/trotter.py (self-test: bound >= true error of the exact product formula on > 1000 ordered operators; order-2 convention pinned). Not covered: > 6 qubits, values outside the alphabets, full cross product of coefficients for 3-term operators.",
}
CLAIMED["C07"] = {
    "engine": "stategraph",
    "technique": "explicit-state BFS per ansatz instance: transitions update_var_params(v) / build_circuit(v) / add_operator over a parameter-vector alphabet (K=6/9, depth 2/3); in every state the circuit's reference statevector is compared with a fresh build",
    "text": "One state graph per (ansatz class, molecule, encoding, ordering, options) - 118 graphs quick, 250 thorough covering UCCSD closed/open/UHF, UCC1/UCC3, UpCCGSD k=1..4, UCCGD, HEA, QMF, QCC, ILC, VSQS (orders 1,2, with/without navigator), pUCCD, ADAPT (add_operator as a transition) and user circuits. From the state after build_circuit(v0), every sequence of updates / rebuilds over a vector alphabet with exact zeros, one-hot, sign changes, repeated values and values beyond 2pi is explored breadth-first with canonical-state dedup; in every state the numpy statevector of ansatz.circuit must equal (up to phase) that of a fresh object built with the last vector; lengths n-1, n+1, 0 must be rejected by all three entry points; the zero vector must give the reference state for the excitation-based ansaetze.",
    "note": "Both sides of the comparison are Tangelo-built circuits (only the simulator is independent): the check decides history-independence, not the correctness of the parameter-to-gate assignment of a fresh build. Not covered: > 8 qubits, user-supplied generator lists.",
}
CLAIMED["C14"] = {
    "engine": "seqspace",
    "technique": "exhaustive catalogue product for tapering (dense spectra), exhaustive per-qubit pattern assignment x all Pauli words for trimming, exhaustive subsets of Pauli sets x epsilons for truncation",
    "text": "(a) 228 (thorough 330) tapering cases: molecules x JW/BK/JKMN x orderings x spins; every eigenvalue of the tapered operator occurs in the original spectrum, the qubit count drops by the number of symmetries, and the (N,S_z)-sector minimum computed from the fermionic Hamiltonian in the occupation basis is retained; also with N/S_z penalties added. (b) every assignment of 15 (25) single-qubit gate patterns to 3 qubits, entangled pairs, fixed widths x all 64 Pauli words and 20 multi-term operators: expectation value before == after trim_trivial_qubits (and trim_trivial_operator with unsorted dictionaries). (c) every subset of commuting and mixed Pauli sets on 1-4 qubits x coefficient and epsilon alphabets: Weyl bound |shift| <= epsilon.",
    "note": "Trusted: numpy eigensolver, mc/ref/fermion.py, mc/ref/statevec.py. Not covered: > 12 spin-orbitals, non-Z-type symmetries, angles within 1e-5 of odd multiples of pi.",
}
CLAIMED["C18"] = {
    "engine": "seqspace+choicetree",
    "technique": "exhaustive enumeration of small operators x every shuffle sequence of the grouping heuristic (scripted RandomState), and of all small histograms x operations against Counter arithmetic; resampling through the scripted sampler with every draw sequence",
    "text": "Grouping: all 1940 operators of 1-4 distinct two-qubit words and ~300 three-qubit operators x coefficient alphabet x seeds x n_repeat, with the heuristic's shuffle scripted so that EVERY permutation sequence is explored (509k executions quick): groups partition the terms with coefficients, each term diagonal in its group's basis, compatible-basis map exact, expectation assembled from exact per-basis histograms equals the term-by-term value. Histograms: 22632 count histograms and 370 dyadic tables under +, +=, aggregate, remove_qubit_indices, post_select, msq_first, the four post-selection functions, with exact conservation of counts / normalisation and marginalisation invariance of term expectation values; resample / get_resampled_frequencies: the law over all scripted draw sequences equals the multinomial law of the frequencies. Un-owned random draws raise (exit 2).",
    "note": "Trusted: mc/ref/hist.py Counter arithmetic and mc/ref/statevec.py. Not covered: operators with > 4 words / > 3 qubits, resampling with n > 3 (beyond the constant-valued bulk draws at the chunk boundary).",
}
ENGINES[0]["serves_properties"] = ["C01", "C02", "C03", "C04", "C05", "C06", "C09", "C10", "C14", "C17", "C18", "C19"]
ENGINES[1]["serves_properties"] = ["C07", "C11", "C16"]
ENGINES[2]["serves_properties"] = ["C01", "C02", "C10", "C18", "C19"]
CLAIMED["C12"] = {
    "engine": "seqspace",
    "technique": "exhaustive over all 4^n determinants (n_orbs 1-3, 4 thorough), every encoding/ordering/sector, every penalty target x weight, and every one-hot / two-hot parameter vector of the particle-conserving ansaetze, vs explicit Fock-space N, S_z, S^2 matrices",
    "text": "(a) number/spinz/spin2 operators as matrices in the reference Fock basis equal the reference N, S_z, S^2 on all determinants; (b) under JW/BK/scBK (each sector)/JKMN and both orderings the encoded operators have the reference spectra and every encoded determinant is an eigenstate with zero variance; (c) [H,N]=[H,S_z]=[H,S^2]=0 for a molecular catalogue, fermionic (normal-ordered term by term) and encoded; (d) all penalties equal mu*(O-t)^2, are PSD and vanish exactly on the target sector, combined_penalty over every key subset; (e) under Jordan-Wigner, both orderings: UCCSD (RHF/ROHF/UHF), UpCCGSD k=1,2, UCCGD, UCC1/UCC3, pUCCD, ADAPT with fermionic pools conserve N and S_z for one-hot at every position, two-hot at every pair and dense vectors (numpy statevector, independent JW of the reference operators).",
    "note": "Trusted: mc/ref/fermion.py, statevec.py. Not claimed: S^2 conservation by ansaetze, UHF [H,S^2]. Penalty targets within 1e-8 of a cancellation value excluded (openfermion drops terms below 1e-8).",
}
CLAIMED["C13"] = {
    "engine": "seqspace",
    "technique": "exhaustive product of a catalogue (molecule x reference x frozen pattern x solver x encoding x ordering x parameter vector x spin form) with numpy contractions against PySCF integrals",
    "text": "For H2, H3 doublet, H4, H4 triplet (thorough: LiH, H2O) x RHF/ROHF/UHF x 3-6 frozen patterns: FCI, CCSD, MP2 and VQE (UCCSD, UpCCGSD; JW+scBK quick, all four encodings thorough; both orderings; zero/dense/one-hot/alternating parameters; sum_spin on/off, get_rdm_uhf) RDMs must reproduce the solver's energy at the same point (VQE: energy_estimation(theta)) through mol.energy_from_rdms, the module-level function and an independent numpy contraction; 1-RDM Hermitian, 2-RDM Hermitian in its stated convention; traces equal active electron counts when the state is a number eigenstate; padding with frozen orbitals leaves its arguments bytewise unchanged, carries the total electron count and the same energy.",
    "note": "Trusted: PySCF integrals (mc/ref/chem.py). Not asserted: return format of MP2Solver.get_rdm for ROHF (spin-resolved tuples; no documented energy), particle-exchange symmetry of CCSD ROHF 2-RDM (counted).",
}
CLAIMED["C15"] = {
    "engine": "seqspace",
    "technique": "exhaustive product inside each family: ONIOM (geometry x selection x solver pair x link x factor), Link.relink (every ordered atom pair x species x factor), DMET (molecule x fragmentation x localisation x solver x every atom relabelling), method of increments (complete tables on 1-4(5) centres)",
    "text": "ONIOM: 1105 (2675) runs - identical levels give E_low(system), whole-system model gives E_high(system), the defining formula with layer energies recomputed in the harness; Link.relink: 2064 cases, cap position at the requested fraction (1e-12), group rigidity and axis. DMET: whole-molecule, pair, single and nested fragmentations with meta-Lowdin/NAO (IAO thorough), fci/ccsd(/vqe) fragment solvers, every permutation of the atom order: full-span embeddings (measured from the bath sizes) reproduce the exact energy at mu=0 and after simulate(), final electron mismatch within the optimiser tolerance, invariance under relabelling. MI: full-order mi_summation equals the complete fragment's energy for one-hot, two-hot and dense tables with corrections and overrides.",
    "note": "Trusted: PySCF FCI/CCSD as exact solvers. Not covered: FNO increments, QM/MM (external data), UHF/ROHF DMET, ECPs, fragments > 8 qubits for VQE.",
}
CLAIMED["C20"] = {
    "engine": "seqspace+choicetree",
    "technique": "exhaustive enumeration of qubit lists/options (QFT), of amplitude vectors over a small alphabet (StateVector), of (register size, k, Hamiltonian family, unitary kind) for QPE; iterative QPE under the choice-tree explorer owning every random draw",
    "text": "QFT: every ordered list of 1-3 (thorough 4) qubits of a width-4 register, int form, n_qubits, swap, inverse: unitary equals the DFT on the listed register (first listed least significant) tensor identity, inverse equals adjoint. StateVector: all 24 one-qubit, 624 two-qubit vectors over {0,1,-1,i,1+i}, 480 sparse and 40 dense three-qubit vectors x both orders x set_n_qubits: e^{i phase} circuit|0> == v, uncomputing circuit maps v to |0..0>. QPE: m in {1,2,3}, every k, diagonal and commuting non-diagonal Hamiltonians, Trotter (orders 1,2,4; time/repeat) and circuit unitaries: the bitstring of k has frequency 1 and the returned phase is k/2^m; iterative QPE with n_shots 1-2: in EVERY execution of the choice tree every measured bit is the bit of k and every branch probability is 0/1.",
    "note": "Each QPE case's premise (exact eigenphase) is verified on a dense numpy unitary first (a failed premise is a harness error). Only the cirq backend; registers up to m=3.",
}
ENGINES[0]["serves_properties"] = ["C01", "C02", "C03", "C04", "C05", "C06", "C09", "C10", "C12", "C13", "C14", "C15", "C17", "C18", "C19", "C20"]
ENGINES[2]["serves_properties"] = ["C01", "C02", "C10", "C18", "C19", "C20"]
CLAIMED["C08"] = {
    "engine": "seqspace",
    "technique": "exhaustive product of a catalogue (molecule or 2-qubit Hamiltonian x ansatz x mapping spelling x ordering x parameter vector x reference-state / projective / deflation / penalty options) against numpy <psi|H|psi> of exactly the circuit the solver runs",
    "text": "286 (thorough 636) solver configurations over H2, H3 doublet, H3+ triplet, H4, H4 with frozen orbitals (thorough LiH) and a bare 2-qubit Hamiltonian x 12 ansaetze x JW/BK/scBK(3 spellings)/JKMN (HCB for pUCCD) x both orderings; per configuration every variant of reference-state override, projective circuit, deflation circuits x coefficients and penalty terms over a 5-vector parameter alphabet: energy_estimation equals <psi|H|psi> of the numpy statevector of reference + ansatz (+ post-selected projective) circuit, is >= lambda_min(H), the deflation increment equals sum_k c |<phi_k|psi>|^2, N/Sz/S^2 expectation values equal those of the reference Fock-space operators under the solver's own encoding (HCB: physical pair embedding), the target Hamiltonian is restored afterwards, and the zero vector gives the mean-field energy for UCC-type ansaetze.",
    "note": "Trusted: numpy reference simulator, mc/ref/fermion.py. Counted as loud refusals, not violations: occupation-vector ref_state with QMF/QCC/ILC/pUCCD (build raises), deflation together with a projective circuit (MEASURE not invertible). Not covered: sampled/noisy backends (C02/C19), systems > 8 qubits in full product.",
}
ENGINES[0]["serves_properties"].append("C08")
NOT_CLAIMED = {}

# Families added after the seed waves 2 and 3 (DESIGN.md 8.1, 8.2): appended to the level text of each check.
ADDENDA = {
    "C01": "Added: controlled rotations at depth 1 with angles on both sides of the 2pi/4pi periods and rare-outcome angles (p = 3.6e-5, 1e-8); "
           "E2 histories of simulate calls on ONE backend object (circuits of different widths, initial vectors) and on ONE Circuit object that is "
           "modified in place between simulations (add_gate, variational parameter written, reindex_qubits, trim_qubits), depth <= 4 (5); repeat call with "
           "the same argument objects; shot numbers on both sides of (multiples of) the 10**7 sampling chunk with constant-valued bulk draws.",
    "C02": "Added: operator / circuit / initial vector unchanged and the same objects giving the same value again; post-selected finite-shot estimates on "
           "registers of 9-12 qubits (measurement keys with two digits).",
    "C03": "Added: symbolic CAR / adjoint check of all ladder operators on 8-17 (thorough up to 41) modes; every mapping applied three times to the same "
           "operator object, the third time with the mapping name in another letter case.",
    "C04": "Added: three routes to rotated orbitals (setter, explicit mo_coeff argument, live array modified in place) must give identical integrals; list-valued "
           "frozen-orbital selections are handed over in one list object re-filled in place from pattern to pattern, with the Hamiltonian evaluated before each change.",
    "C05": "Added: for scBK with the spin left at its default on both the circuit and the operator side.",
    "C06": "Added: arguments (operator, time dictionary, pauli_order) unchanged, second call with the same objects identical, reversed insertion order of the time "
           "dictionary; E2 histories of build_circuit calls on ONE TrotterSuzukiUnitary (342 / 6174 histories per object) vs fresh objects; Pauli words listed in "
           "non-ascending qubit order; fermionic evolution in two register sizes (4 and 6 spin-orbitals) alternating in one process.",
    "C07": "Added: vector with every entry beyond 2pi (both signs); the user-circuit ansatz is compared with the user's gate list with literal values; first-build "
           "exceptions are violations.",
    "C08": "Added: with penalty_terms the solver Hamiltonian equals H + sum w (O - t)^2 built from the reference N/Sz/S^2 under the solver's encoding; "
           "operator_expectation with QubitOperator and FermionOperator inputs; the energy re-evaluated after all intermediate calls.",
    "C10": "Added: deterministic programs on registers of 9-12 qubits with 1-2 mid-circuit measurements and finite shots (all tables and the post-selected expectation value).",
    "C12": "Added: triplet H4 in the quick-tier conservation set.",
    "C13": "Added: a second get_rdm on the same classical solver returns the same matrices.",
    "C14": "Added: every ordered pair over a 12-gate single-qubit alphabet as two-gate pattern on an unentangled qubit.",
    "C15": "Added: capping groups with exactly two / three atoms and a ghost off the origin; override dictionary of mi_summation unchanged and a second summation identical.",
    "C16": "Added: empty operators in the pools; remove_terms histories before do_commute.",
    "C17": "Added: wide registers (gates on / idle qubits beyond indices 9, 19, 99) for every format.",
    "C18": "Added: per-basis histogram dictionary in three insertion orders; derived views (n_shots, n_qubits, frequencies) read before every in-place operation and "
           "compared with a fresh histogram afterwards; resampling with shot numbers on both sides of the 10**7 chunk.",
    "C19": "Added: E2 histories on ONE live NoiseModel + backend (add_quantum_error after use, simulate on shared / new backend, translate), depth <= 4 (5); noise "
           "together with a mid-circuit MEASURE, a desired outcome and an initial statevector (retry loop explored with horizon 3 attempts).",
    "C20": "Added: circuit unitaries that leave a qubit below their width idle; the StateVector object asked again after its first answers.",
}
for _k, _v in ADDENDA.items():
    CLAIMED[_k]["text"] += " " + _v
NOTES += (" An exception raised by the code under test on input the harness considers valid is reported as a violation "
          "(uncaught-exception-in-code-under-test/...), with the shard as replay case.")

# Families added after waves 3 (late) and 4 (DESIGN.md 8.2, 8.3).
ADDENDA2 = {
    "C02": "Also: variance / standard error with finite shots for complex coefficients; expectation values with 2500001 and 10**7 +- 1 shots "
           "(chunked sampling: draws grouped into calls of exactly n_shots samples; bulk trees capped at 64 executions).",
    "C04": "Also: list selections handed to freeze_mos in descending order; ONE IntegralSolverPySCF object building molecules at two geometries in a row.",
    "C06": "Also: coefficient x time exactly a multiple of pi (pi/2 .. 3pi, both signs) with every control form.",
    "C07": "Also: sign-decorrelated dense vectors and a lattice family (parameters related by x_j = +-x_i, +-2 x_i: all vectors over {+-a,+-2a} for "
           "n <= 3, related pairs inside the dense vector otherwise), one update from the generic start state each.",
    "C09": "Added: structural E2 histories on one Circuit object: all 64 sequences of 3 operations over {get_entangled_indices, split, "
           "reindex_qubits, trim_qubits} per circuit; oracle = subsets / parts / relabelling of the current gate list.",
    "C10": "Also: the same Circuit and backend objects serve both initial states of a program; CMEASURE programs with a requested outcome string "
           "and 1-2 shots (every shot conditioned).",
    "C11": "Added: translate / simulate with a noise model (depol + pauli on every gate name) as read-only operations of the state graph.",
    "C17": "Also: the exported artefact is imported a second time (same object).",
    "C20": "Also: ONE unitary object serving QPE solvers with 3-, 2-, 1-, 3-qubit registers in a row.",
}
for _k, _v in ADDENDA2.items():
    CLAIMED[_k]["text"] += " " + _v
