#!/usr/bin/env python3
"""Regenerate MANIFEST.json from tools/manifest_data.py (claimed checks) + properties.jsonl (everything else is
listed under not_applicable with its reason). Validates against the schema when jsonschema is importable."""
import json
import os
import sys

HERE = os.path.dirname(os.path.dirname(os.path.abspath(__file__)))
sys.path.insert(0, os.path.join(HERE, "tools"))
import manifest_data as D  # noqa

props = [json.loads(l) for l in open(os.path.join(HERE, "properties.jsonl"))]
ids = [p["id"] for p in props]
checks, na = [], []
for pid in ids:
    if pid in D.CLAIMED:
        c = D.CLAIMED[pid]
        checks.append({
            "property_id": pid,
            "quick_cmd": f"./check {pid} --tier quick",
            "thorough_cmd": f"./check {pid} --tier thorough",
            "evidence_file": f"/verif/evidence/{pid}.json",
            "replay_cmd_template": f"./check {pid} --replay {{path}}",
            "engine": c["engine"],
            "level_claimed": {"category": "model_checking", "text": c["text"], "design_ref": f"DESIGN.md 2/{pid}"},
            "level_note": c["note"],
            "technique": c["technique"],
        })
    else:
        na.append({"property_id": pid, "reason": D.NOT_CLAIMED.get(pid, "check not built yet in this round; see DESIGN.md section 2 for the planned bounded exploration")})
m = {
    "version": 1,
    "setup_cmd": "./setup.sh",
    "hooks": {
        "guard": "TANGELO_VERIF",
        "enable": "none needed: all seams (random sources, samplers) are module/instance attributes replaced from the harness; checks import /repo's working tree via PYTHONPATH",
        "baseline_off_cmd": "cd /repo && OMP_NUM_THREADS=1 /venv/bin/python -m pytest -ra -q -p no:cacheprovider --timeout=900 --continue-on-collection-errors -n 16",
        "source_commits": [],
        "add_only": True,
    },
    "engines": D.ENGINES,
    "checks": checks,
    "not_applicable": na,
    "notes": D.NOTES,
}
out = os.path.join(HERE, "MANIFEST.json")
json.dump(m, open(out, "w"), indent=1)
try:
    import jsonschema
    jsonschema.validate(m, json.load(open("/root/.vp/MANIFEST.schema.json")))
    print("MANIFEST.json valid;", len(checks), "claimed,", len(na), "not claimed")
except ImportError:
    print("MANIFEST.json written (jsonschema not importable here; run with python3-vt to validate)")
