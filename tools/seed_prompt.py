#!/usr/bin/env python3
"""Print the prompt given to a fresh seeding sub-agent for one property (only the property text + its worktree)."""
import json, sys
pid, wt, n = sys.argv[1], sys.argv[2], (sys.argv[3] if len(sys.argv) > 3 else "2")
focus = sys.argv[4] if len(sys.argv) > 4 else ""
p = [json.loads(l) for l in open("/verif/properties.jsonl") if json.loads(l)["id"] == pid][0]
print(f"""You are helping to evaluate a verification effort for the open-source Python library Tangelo (quantum-chemistry workflows: circuits, simulators, qubit mappings, ansaetze, solvers). You have your own scratch git worktree of the repository at {wt} (work ONLY there; never touch /repo or /verif; do not read anything under /verif). The library's dependencies are installed in /venv; always run Python as `cd {wt} && PYTHONPATH={wt} OMP_NUM_THREADS=1 /venv/bin/python ...` and verify once that `import tangelo; tangelo.__file__` points into {wt}.

Here is a semantic property the library is supposed to satisfy:

TITLE: {p['title']}
STATEMENT: {p['statement']}
QUANTIFIER: {p['quantifier']['text']}
CODE ANCHORS: {', '.join(p['anchors']['files'])}

Your task: produce {n} DIFFERENT, independent, realistic changes (bugs a developer could plausibly introduce: a refactoring slip, an off-by-one, a wrong index/sign/period, a stale cache, a lost control qubit, aliasing instead of copying, a swapped argument order, two cooperating sites that each look fine alone ...) to the library source under {wt}/tangelo (not to its tests) such that each change
  (1) BREAKS the property above,
  (2) still imports/compiles, and the library's existing test-suite still passes with it (run at least the test modules near the code you touch, e.g. `PYTHONPATH={wt} OMP_NUM_THREADS=1 /venv/bin/python -m pytest -q -p no:cacheprovider -x -n 4 tangelo/linq/tests` or the relevant `tangelo/**/tests` folder; tests that already fail without your change do not count),
  (3) needs something SPECIFIC to manifest — a particular multi-step sequence of operations, an unusual but legal input (e.g. a particular angle range, index pattern, operand order, option combination), a particular random draw, or two features used together — and is NOT exposed at once by ordinary use or by the simplest call of the function.
Keep each change small (a few lines). Prefer variety: the {n} changes should touch different mechanisms/functions.{(" For this round, concentrate on this part of the property and the code behind it: " + focus) if focus else ""}

For each change k = 1..{n} write, in {wt}/seed_out/k/ :
  - patch.diff : output of `git diff` for that change alone (apply it on a clean tree; revert with `git checkout -- tangelo` before making the next change),
  - demo.py : a small standalone program using only public Tangelo calls (plus numpy) that exits 0 on the unchanged library and exits 1 (printing what is wrong) with the change applied; run it both ways and record the outputs,
  - meta.json : {{"property": "{pid}", "summary": "<one sentence: what was changed>", "needs": "<what specific input/sequence/draw it needs in order to manifest>", "tests_run": "<the pytest command(s) you ran and their pass/fail counts with the change>", "demo_without": "<exit code/output on clean tree>", "demo_with": "<exit code/output with the change>"}}.
Leave the worktree clean (git checkout -- tangelo) at the end; do not commit anything. In your final answer list the {n} changes in two lines each. Do not run `git worktree` or `git stash` commands (the stash is shared between worktrees; use `git diff > file`, `git checkout -- tangelo`, `git apply file`). The machine is shared: do not use more than 4 pytest workers.""")
