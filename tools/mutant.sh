#!/bin/bash
# Run a check against a scratch copy of /repo with a patch applied (never touches /repo, /verif/evidence or /verif/replays).
# usage: tools/mutant.sh <patch.diff> <Cxx> [check args...]        (env KEEP=1 keeps the scratch dir)
#        tools/mutant.sh --tests <patch.diff>                      (run the repository test-suite on the mutant)
set -u
V="$(cd "$(dirname "$(readlink -f "$0")")/.." && pwd)"
mode=check
if [ "$1" = "--tests" ]; then mode=tests; shift; fi
patch="$(readlink -f "$1")"; shift
S="$(mktemp -d /var/tmp/tgl-mut.XXXXXX)"
trap '[ -n "${KEEP:-}" ] || rm -rf "$S"' EXIT
mkdir -p "$S/repo" "$S/out"
rsync -a --exclude .git --exclude "*.egg-info" --exclude __pycache__ /repo/ "$S/repo/" || exit 2
( cd "$S/repo" && git init -q . && git apply --whitespace=nowarn "$patch" ) || { echo "MUTANT: patch does not apply"; exit 2; }
if [ "$mode" = tests ]; then
  "$V/tools/baseline.sh" "$S/repo"; exit $?
fi
id="$1"; shift
VERIF_REPO="$S/repo" VERIF_OUT="$S/out" "$V/check" "$id" "$@" 2>&1 | grep -v "auto_activate_base\|SyntaxWarning\|^\s*\"\"\"" | grep -E "^\[|VIOLATION|KNOWN|HARNESS|key=" | head -${LINES_MAX:-14}
exit ${PIPESTATUS[0]}
