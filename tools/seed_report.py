#!/usr/bin/env python3
"""Summarise /verif/seeded/*/meta.json into seeded/RESULTS.md (which check catches which seeded change)."""
import glob, json, os
V = os.path.dirname(os.path.dirname(os.path.abspath(__file__)))
rows = []
for mpath in sorted(glob.glob(os.path.join(V, "seeded", "*", "meta.json"))):
    name = os.path.basename(os.path.dirname(mpath))
    m = json.load(open(mpath))
    c = m.get("confirmed", {})
    demo = c.get("demo", {})
    tests = c.get("tests", {})
    checks = {k: v for k, v in c.items() if k.startswith("check:")}
    caught = [k for k, v in checks.items() if v.get("exit") == 1 and v.get("violations", 0) > 0]
    first = ""
    for k in caught:
        fk = checks[k].get("first_keys") or []
        if fk:
            first = fk[0].split(" detail=")[0].replace("key=", "")
            break
    rows.append((name, m.get("property"), (m.get("summary") or "")[:150].replace("|", "/"), (m.get("needs") or "")[:150].replace("|", "/"),
                 f"{demo.get('clean_exit', '?')}/{demo.get('patched_exit', '?')}", tests.get("summary", "(pending)").replace("BASELINE: ", ""),
                 "CAUGHT" if caught else ("missed" if checks else "(not run)"), first[:110],
                 m.get("note_strengthened", "")))
with open(os.path.join(V, "seeded", "RESULTS.md"), "w") as f:
    f.write("# Seeded property-breaking changes (written by fresh sub-agents that saw only the property text)\n\n")
    f.write("Each directory holds patch.diff, demo.py (exits 0 on the clean tree, non-zero with the patch) and meta.json. "
            "`confirmed` in meta.json is written by tools/seed_eval.py: demo exit codes clean/patched, the repository test-suite on the patched "
            "tree (baseline 486 must hold), and the property's check run against a scratch copy with the patch.\n\n")
    f.write("| seed | property | change | needs | demo clean/patched | tests with patch | check | first violation key | strengthened because of this seed |\n|---|---|---|---|---|---|---|---|---|\n")
    for r in rows:
        f.write("| " + " | ".join(str(x) for x in r) + " |\n")
    n = len(rows)
    f.write(f"\n{n} seeded changes; caught by the quick tier of the property's check: {sum(1 for r in rows if r[6] == 'CAUGHT')}; missed: {sum(1 for r in rows if r[6] == 'missed')}.\n")
print(open(os.path.join(V, "seeded", "RESULTS.md")).read()[-300:])
