"""C18 - Measurement grouping and histogram processing conserve information.

Grouping (E1 + E3): every operator made of 1-4 distinct two-qubit Pauli words (and 1-3 / 1-4 words of a 12-word
three-qubit set) is put through group_qwc with the shuffling heuristic owned by the harness: the numpy.random.RandomState
object created inside openfermion.measurements.qubit_partitioning is replaced by a scripted object whose shuffle() is a
choice point over all permutations; every permutation sequence is explored (seed=None passes), integer seeds run the real
deterministic RandomState. Histograms (E1 + E3): every small histogram / dyadic probability table goes through every
Histogram operation and post-selection helper, compared with Counter arithmetic (mc/ref/hist.py); the scipy sampler used
by resampling is scripted (every draw sequence) and the *law* of the resampled histogram is compared with the multinomial
law of the histogram's frequencies.
"""
import itertools
import os
import random as _pyrandom
from collections import Counter

import numpy as np

from mc import runner, choicetree, seams
from mc.runner import Acc
from mc.ref import statevec as SV
from mc.ref import hist as RH

PID = "C18"
DESIGN_REF = "DESIGN.md section 2 / C18"
ENGINE = "seqspace (operators, histograms, operand tuples) + choicetree (scripted RandomState.shuffle, scripted rv_discrete.rvs)"
RULE = ("grouping cases = (ordered list of distinct Pauli words with coefficients, seed, n_repeat) x every permutation "
        "returned by every shuffle of a seed=None pass; histogram cases = (histogram or probability table) x every "
        "operation argument (index subset, expected-outcome dict, term, split indices, desired measurement, n) and "
        "(operand tuple, aggregation operator); resampling cases x every draw sequence of the scripted sampler. "
        "non-trivial = distinct grouping case in which two terms share a group or the shuffles lead to >= 2 different "
        "groupings; distinct histogram operation that merges outcomes, discards mass, changes a key, adds overlapping "
        "keys, or has more than one possible draw sequence")
ASSUMPTIONS = [
    "operators: <= 4 distinct words from the 15 two-qubit words / a 12-word three-qubit set, coefficients {1,-0.5,0.25j} "
    "assigned cyclically; quick tier: 2 term orders per word set (all orders in the thorough tier)",
    "integer seeds {0,1,7}; the seed=None passes (also the repeats of group_qwc, which always use seed=None) are "
    "explored over every shuffle outcome, so the result holds for every seed of those passes",
    "map_measurements_qwc: 'compatible' = qubit-wise commuting (identity commutes with everything), the identity term is exempt",
    "expectation values: exact per-basis distributions of 6 fixed states from mc/ref/statevec.py, tolerance 1e-9",
    "histograms: bitstrings of length 1-3, support <= 4, counts {0,1,2,5}; probability tables over {1/4,1/2,3/4,1} "
    "(exact in binary floating point, so 'conserved exactly' is tested with ==; renormalised results with 1e-12)",
    "Histogram(frequencies, n_shots) only for frequencies that are multiples of 1/n_shots (realisable with n_shots shots): "
    "dyadic tables with n_shots in {4,8,20}, count histograms re-entered as frequencies, two-outcome tables in hundredths with 100 shots",
    "post-selection on an outcome of zero mass may return an empty histogram or raise; nothing is required of it",
    "histograms are compared as multisets: entries of weight zero are immaterial (Counter addition drops them); a chained "
    "sum h1 + h2 + h3 whose intermediate h1 + h2 holds no shot at all is outside the premise (aggregate_histograms(h1,h2,h3) is checked)",
    "resampling: n in {1,2,3} with every draw sequence; the sampler is restricted to outcomes of non-zero probability; the chunked "
    "sampling path (n >= 10**7) is explored with constant-valued bulk draws only (draw sizes must add up to n, counts conserved)",
]
TOL = 1e-9
TOLN = 1e-12

REAL_RS = np.random.RandomState
DEBUG_UNOWNED = os.environ.get("C18_DEBUG_UNOWNED", "")   # "shuffle" / "rvs": leave that seam out (must give exit 2)


# ---------------------------------------------------------------------------------------------------------------------
# seams

_PERMS = {}


def perms(n):
    if n not in _PERMS:
        _PERMS[n] = list(itertools.permutations(range(n)))
    return _PERMS[n]


class ScriptedShuffler:
    """Stands in for numpy.random.RandomState(None): shuffle(list) is a choice point over all permutations."""

    def __init__(self, chooser):
        self._ch = chooser

    def shuffle(self, x):
        n = len(x)
        ps = perms(n)
        i = self._ch.choose(len(ps), "RandomState.shuffle", {"n": n})
        items = list(x)
        x[:] = [items[j] for j in ps[i]]

    def __getattr__(self, name):
        raise seams.UnownedRandomness(f"RandomState(None).{name} used but not scripted")


_SEEDED = {}


def seeded_random_state(seed):
    """A real numpy RandomState in exactly the state RandomState(seed) starts in (seeding costs 0.1 ms: the state is
    computed once per seed and restored on every request)."""
    if seed not in _SEEDED:
        rs = REAL_RS(seed)
        _SEEDED[seed] = (rs, rs.get_state())
    rs, st = _SEEDED[seed]
    rs.set_state(st)
    return rs


class _ScriptedRandomNamespace:
    def __init__(self, chooser, log):
        self._ch, self._log = chooser, log

    def RandomState(self, seed=None):
        self._log.append(seed)
        if seed is None:
            return ScriptedShuffler(self._ch)
        return seeded_random_state(seed)          # deterministic: owned by the seed

    def __getattr__(self, name):
        raise seams.UnownedRandomness(f"numpy.random.{name} used inside qubit_partitioning but not scripted")


class QPNumpyProxy:
    """Replacement for the name `numpy` inside openfermion.measurements.qubit_partitioning."""

    def __init__(self, chooser):
        self.seeds = []
        self.random = _ScriptedRandomNamespace(chooser, self.seeds)

    def __getattr__(self, name):
        return getattr(np, name)


class _SupportRv:
    def __init__(self, chooser, xk, pk):
        self.ch, self.xk, self.pk = chooser, [int(x) for x in xk], [float(p) for p in pk]

    def rvs(self, size=1, **kw):
        size = int(size)
        support = [i for i, p in enumerate(self.pk) if p > 0]
        if size > seams.BULK:   # chunked path: constant answer, one choice over the support
            i = self.ch.choose(len(support), "rv_discrete.rvs[bulk]", {"xk": self.xk, "pk": self.pk, "size": size, "support": support, "bulk": True})
            return np.full(size, self.xk[support[i]], dtype=np.int64)
        seqs = choicetree.sequences(len(support), size)
        i = self.ch.choose(len(seqs), "rv_discrete.rvs", {"xk": self.xk, "pk": self.pk, "size": size, "support": support})
        return np.array([self.xk[support[j]] for j in seqs[i]], dtype=np.int64)

    def __getattr__(self, name):
        raise seams.UnownedRandomness(f"rv_discrete(...).{name} used but not scripted")


class SupportStatsProxy:
    """Like seams.StatsProxy, but the scripted sampler only returns outcomes of non-zero probability."""

    def __init__(self, chooser):
        self.ch = chooser

    def rv_discrete(self, name=None, values=None, **kw):
        xk, pk = values
        return _SupportRv(self.ch, xk, pk)

    def __getattr__(self, name):
        raise seams.UnownedRandomness(f"scipy.stats.{name} used but not scripted")


def _unowned(name):
    def f(*a, **k):
        raise seams.UnownedRandomness(f"{name} used but not owned by the harness")
    return f


_DRAWS = ("random_sample", "random", "rand", "randn", "randint", "random_integers", "choice", "uniform", "normal", "shuffle",
          "permutation", "bytes", "binomial", "multinomial", "poisson", "exponential", "standard_normal", "beta", "gamma",
          "tomaxint")


class PoisonedRandomState(np.random.RandomState):
    """RandomState whose construction without a seed and whose every draw is a harness error."""

    def __init__(self, seed=None, _singleton=False):
        if seed is None and not _singleton:
            raise seams.UnownedRandomness("numpy.random.RandomState(None) created outside the scripted seams")
        super().__init__(0 if seed is None else seed)
        self._poisoned = _singleton


def _mk_poisoned_method(name):
    real = getattr(np.random.RandomState, name)

    def m(self, *a, **k):
        if getattr(self, "_poisoned", False):
            raise seams.UnownedRandomness(f"global numpy RandomState.{name} used but not owned by the harness")
        return real(self, *a, **k)
    return m


for _n in _DRAWS:
    if hasattr(np.random.RandomState, _n):
        setattr(PoisonedRandomState, _n, _mk_poisoned_method(_n))


class poisoned_random:
    """While active, every random source that is not one of the scripted seams raises UnownedRandomness: the module-level
    numpy.random functions, the global RandomState singleton scipy falls back to, RandomState(None), default_rng(None)
    and the stdlib random module."""

    def __enter__(self):
        self.saved = []

        def put(obj, attr, val):
            self.saved.append((obj, attr, getattr(obj, attr)))
            setattr(obj, attr, val)
        for n in _DRAWS + ("default_rng", "seed"):
            if hasattr(np.random, n):
                put(np.random, n, _unowned("numpy.random." + n))
        put(np.random, "RandomState", PoisonedRandomState)
        put(np.random.mtrand, "_rand", PoisonedRandomState(_singleton=True))
        for n in ("random", "shuffle", "choice", "choices", "randint", "randrange", "sample", "uniform", "gauss", "getrandbits"):
            put(_pyrandom, n, _unowned("random." + n))
        return self

    def __exit__(self, *exc):
        for obj, attr, val in reversed(self.saved):
            setattr(obj, attr, val)
        return False


HARNESS_ERRORS = (seams.UnownedRandomness, choicetree.ReplayDivergence)


def guarded(fn):
    """An exception escaping a check is a finding when it was raised by code under test (innermost frame outside /verif:
    e.g. a property accessor dividing by zero), and a harness error (re-raised -> exit 2) when raised by harness code."""
    import functools
    import traceback

    @functools.wraps(fn)
    def wrapper(case, acc):
        try:
            return fn(case, acc)
        except HARNESS_ERRORS:
            raise
        except Exception as e:
            tb = traceback.extract_tb(e.__traceback__)
            inner = tb[-1]
            if os.path.realpath(inner.filename).startswith(os.path.realpath(runner.VERIF_DIR) + os.sep):
                raise
            where = f"{os.path.basename(inner.filename)}:{inner.name}"
            acc.violation(f"{where}/exception-outside-a-checked-call/{type(e).__name__}/{case.get('kind')}", case,
                          {"err": repr(e)[:300], "traceback": traceback.format_exception(e)[-4:]},
                          group=f"{where}/exception-outside-a-checked-call")
    return wrapper


# ---------------------------------------------------------------------------------------------------------------------
# grouping

COEFS = [1, -0.5, 0.25j]
WORDS2 = ["".join(p) for p in itertools.product("IXYZ", repeat=2)][1:]
WORDS3 = ["XII", "IZI", "IIY", "XXI", "ZZI", "YIY", "XYZ", "ZIZ", "IXX", "YYI", "ZXY", "III"]
INT_SEEDS = [0, 1, 7]
REPEATS = [1, 2, 3]


def word_to_term(w):
    return tuple((q, p) for q, p in enumerate(w) if p != "I")


def word_sets(n, kmax):
    W = WORDS2 if n == 2 else WORDS3
    out = []
    for k in range(1, kmax + 1):
        out += [list(c) for c in itertools.combinations(W, k)]
    return out


def coefs_for(n, words):
    W = WORDS2 if n == 2 else WORDS3
    k = sum(W.index(w) for w in words)
    return [COEFS[(i + k) % 3] for i in range(len(words))]


def mk_op(words, coefs):
    from tangelo.toolboxes.operators import QubitOperator
    op = QubitOperator()
    for w, c in zip(words, coefs):
        op += QubitOperator(word_to_term(w), c)
    return op


_STATES = {}


def states(n, seed):
    """6 fixed states: |0..0>, one basis state, GHZ/Bell, generic product state, |+>|+i>(|0>), dense generic state."""
    key = (n, seed)
    if key not in _STATES:
        d = runner.seed_delta(seed)
        a, b = 0.37 + d, -1.23 - d

        def G(name, t, c=None, p=""):
            return [name, list(t), (None if c is None else list(c)), p, False]
        progs = [
            [],
            [G("X", [n - 1])],
            [G("H", [0])] + [G("CNOT", [q + 1], [q]) for q in range(n - 1)],
            [G("RY", [0], None, a), G("RX", [1], None, b)] + ([G("RY", [2], None, 0.77)] if n == 3 else []),
            [G("H", [0]), G("H", [1]), G("S", [1])],
        ]
        sts = [SV.run(p, n) for p in progs]
        k = np.arange(2 ** n)
        v = (1.0 + 0.29 * k + 0.13 * (k % 3)) * np.exp(1j * (0.6 * k * k + 0.2 * k + a * (k % 2)))
        sts.append(v / np.linalg.norm(v))
        _STATES[key] = sts
    return _STATES[key]


_BASIS_HIST = {}
_TERM_EXP = {}


def basis_hist(n, seed, si, basis):
    key = (n, seed, si, basis)
    if key not in _BASIS_HIST:
        _BASIS_HIST[key] = SV.pauli_basis_distribution(states(n, seed)[si], n, basis)
    return _BASIS_HIST[key]


def term_exp(n, seed, si, term):
    key = (n, seed, si, term)
    if key not in _TERM_EXP:
        psi = states(n, seed)[si]
        _TERM_EXP[key] = complex(np.vdot(psi, SV.pauli_matrix(term, n) @ psi))
    return _TERM_EXP[key]


def qwc_ref(t1, t2):
    """Qubit-wise commutation from the definition: on every qubit the two single-qubit Paulis commute as matrices."""
    from mc.ref import gates as RG
    d1, d2 = dict(t1), dict(t2)
    for q in set(d1) | set(d2):
        A, B = RG.PAULI[d1.get(q, "I")], RG.PAULI[d2.get(q, "I")]
        if np.abs(A @ B - B @ A).max() > 1e-12:
            return False
    return True


def canon_groups(res):
    return tuple((tuple(b), tuple((tuple(t), complex(c)) for t, c in v.terms.items())) for b, v in res.items())


def op_sig(words):
    return f"{len(words[0])}q{len(words)}w"


def repro_group(case):
    ws = ", ".join(f"QubitOperator({word_to_term(w)!r}, {c!r})" for w, c in zip(case["words"], case["coefs"]))
    return ("from tangelo.toolboxes.operators import QubitOperator\n"
            "from tangelo.toolboxes.measurements import group_qwc, map_measurements_qwc\n"
            f"op = sum([{ws}], QubitOperator())\n"
            f"g = group_qwc(op, seed={case['seed']!r}, n_repeat={case['n_repeat']}); print(g); print(map_measurements_qwc(g))")


@guarded
def check_group(case, acc):
    import openfermion.measurements.qubit_partitioning as QP
    from tangelo.toolboxes.measurements import group_qwc, map_measurements_qwc, exp_value_from_measurement_bases
    n, words, coefs, seed, n_repeat, vseed = case["n"], case["words"], case["coefs"], case["seed"], case["n_repeat"], case.get("vseed", 0)
    op = mk_op(words, coefs)
    ref_terms = {word_to_term(w): complex(c) for w, c in zip(words, coefs)}
    snapshot = dict(op.terms)
    sig = op_sig(words) + f"/seed={'None' if seed is None else 'int'}/r{n_repeat}"
    holder = {}

    def bad(site, kind, detail, choices=None):
        detail = dict(detail, choices=choices, repro=repro_group(case))
        acc.violation(f"{site}/{kind}/{sig}", case, detail, group=f"{site}/{kind}")

    def run(ch):
        proxy = QPNumpyProxy(ch)
        if DEBUG_UNOWNED == "shuffle":
            res = group_qwc(op, seed=seed, n_repeat=n_repeat)
        else:
            with seams.patched(QP, "numpy", proxy):
                res = group_qwc(op, seed=seed, n_repeat=n_repeat)
        holder["res"], holder["seeds"] = res, proxy.seeds
        return canon_groups(res)

    seen = set()
    n_exec = 0
    merged = False
    for choices, trace, infos, canon in choicetree.explore(run):
        n_exec += 1
        acc.ev()
        acc.transitions += max(1, len(trace))
        res = holder["res"]
        # the seeds the implementation asked for: `seed` first, then None for every repeat (owned either way)
        if holder["seeds"] != [seed] + [None] * (n_repeat - 1):
            acc.count("group_unexpected_seed_sequence")
        if dict(op.terms) != snapshot:
            bad("group_qwc", "operand-mutated", {"before": snapshot, "after": dict(op.terms)}, choices)
        # 1. partition: multiset union of the groups' terms == terms of the operator, with coefficients
        got = Counter()
        for b, ts in canon:
            for t, c in ts:
                got[(t, c)] += 1
        want = Counter({(t, c): 1 for t, c in ref_terms.items()})
        if got != want:
            bad("group_qwc", "not-a-partition", {"missing": sorted(map(repr, want - got)), "extra": sorted(map(repr, got - want)),
                                                 "groups": canon}, choices)
        # 2. every term is diagonal in the basis of its group; the basis names each qubit at most once
        for b, ts in canon:
            bd = dict(b)
            if len(bd) != len(b) or any(p not in "XYZ" for p in bd.values()):
                bad("group_qwc", "ill-formed-basis", {"basis": b}, choices)
            for t, c in ts:
                if any(bd.get(q) != p for q, p in t):
                    bad("group_qwc", "term-not-diagonal-in-its-basis", {"basis": b, "term": t}, choices)
            if len(ts) > 1:
                merged = True
        if canon in seen:
            continue
        seen.add(canon)
        acc.out(str(("groups", canon)))
        acc.count(f"groupings_with_{len(canon)}_groups")
        bases = [b for b, _ in canon]
        # 3. map_measurements_qwc lists, for every (non-identity) term, exactly the bases it commutes with qubit-wise
        acc.ev()
        try:
            mm = map_measurements_qwc(res)
        except HARNESS_ERRORS:
            raise
        except Exception as e:
            bad("map_measurements_qwc", "exception", {"err": repr(e)[:300]}, choices)
            mm = None
        if mm is not None:
            exp_map = {t: sorted(b for b in bases if qwc_ref(t, b)) for t in ref_terms if t}
            got_map = {tuple(k): sorted(tuple(x) for x in v) for k, v in mm.items()}
            if () in got_map:       # the identity needs no measurement; if listed, it commutes with every basis
                if got_map.pop(()) != sorted(bases):
                    bad("map_measurements_qwc", "identity-entry-wrong", {"got": mm.get(())}, choices)
            for t, bs in got_map.items():   # informational: qubit-wise commuting, yet the basis leaves an X/Y factor unmeasured
                for b in bs:
                    if any(p != "Z" and q not in dict(b) for q, p in t):
                        acc.count("map_lists_commuting_basis_that_measures_an_XY_factor_of_the_term_in_Z")
            if got_map != exp_map:
                bad("map_measurements_qwc", "not-exactly-the-compatible-bases", {"got": got_map, "expected": exp_map}, choices)
        # 4. expectation value assembled from exact per-basis histograms == term-by-term value
        for si in range(6):
            acc.ev()
            hists0 = {b: dict(basis_hist(n, vseed, si, b)) for b in res.keys()}
            ref = sum(c * term_exp(n, vseed, si, t) for t, c in ref_terms.items())
            # the histograms are keyed by basis: the value must not depend on the insertion order of that dictionary
            ks = list(hists0)
            orders = [("as-grouped", ks)]
            if len(ks) > 1:
                orders += [("reversed", ks[::-1]), ("rotated", ks[1:] + ks[:1])]
            for oname, korder in orders:
                hists = {b: hists0[b] for b in korder}
                try:
                    val = complex(exp_value_from_measurement_bases(res, hists))
                except HARNESS_ERRORS:
                    raise
                except Exception as e:
                    bad("exp_value_from_measurement_bases", "exception", {"err": repr(e)[:300], "state": si, "histogram_order": oname}, choices)
                    continue
                if abs(val - ref) > TOL:
                    bad("exp_value_from_measurement_bases", "value" if oname == "as-grouped" else "value-depends-on-histogram-dict-order",
                        {"got": val, "ref": ref, "state": si, "groups": canon, "histogram_order": oname}, choices)
    acc.states += n_exec
    acc.count("group_executions", n_exec)
    if merged or len(seen) > 1:
        acc.nt(str(("group", words, seed, n_repeat)))
    if len(seen) > 1:
        acc.count("group_cases_where_shuffle_changes_grouping")


@guarded
def check_qwc_pairs(case, acc):
    """check_bases_commute_qwc on every pair of Pauli words of n qubits vs the matrix definition."""
    from tangelo.toolboxes.measurements import check_bases_commute_qwc
    n = case["n"]
    words = ["".join(p) for p in itertools.product("IXYZ", repeat=n)]
    only = case.get("pair")
    for w1, w2 in ([only] if only else itertools.product(words, words)):
        t1, t2 = word_to_term(w1), word_to_term(w2)
        acc.ev()
        acc.states += 1
        acc.transitions += 1
        got, ref = check_bases_commute_qwc(t1, t2), qwc_ref(t1, t2)
        if bool(got) != ref:
            acc.violation(f"check_bases_commute_qwc/wrong-answer/{n}q", {"kind": "qwc", "n": n, "pair": [w1, w2]},
                          {"got": got, "ref": ref}, group="check_bases_commute_qwc/wrong-answer")
        if not ref:
            acc.nt(str(("qwc", w1, w2)))
        acc.out(str(("qwc", bool(got))))


# ---------------------------------------------------------------------------------------------------------------------
# histograms

COUNTS = [0, 1, 2, 5]
LETTERS = "ZXY"


def keys_of(L):
    return [format(i, f"0{L}b") for i in range(2 ** L)]


def count_hists(L, max_support=4):
    out = []
    K = keys_of(L)
    for s in range(1, min(max_support, len(K)) + 1):
        for ks in itertools.combinations(K, s):
            for vs in itertools.product(COUNTS, repeat=s):
                out.append(dict(zip(ks, vs)))
    return out


def prob_tables(L, max_support=4):
    out = []
    K = keys_of(L)
    for s in range(1, min(max_support, len(K)) + 1):
        comps = [c for c in itertools.product((1, 2, 3, 4), repeat=s) if sum(c) == 4]
        for ks in itertools.combinations(K, s):
            for c in comps:
                out.append({k: q / 4 for k, q in zip(ks, c)})
    return out


def subsets(L, kmax=None):
    out = []
    for k in range(0, (L if kmax is None else min(L, kmax)) + 1):
        out += [tuple(c) for c in itertools.combinations(range(L), k)]
    return out


def expected_dicts(L):
    out = []
    for qs in subsets(L, 2):
        for bits in itertools.product("01", repeat=len(qs)):
            out.append(dict(zip(qs, bits)))
    return out


def mk_term(qs):
    return tuple((q, LETTERS[i % 3]) for i, q in enumerate(qs))


def hsig(d, mode):
    L = len(next(iter(d)))
    return f"{mode}/L{L}/s{len(d)}"


def _hist_repro(d, lines):
    return "from tangelo.toolboxes.post_processing import *\nfrom tangelo.toolboxes.post_processing.post_selection import *\n" + f"d = {d!r}\n" + "\n".join(lines)


@guarded
def check_hist(case, acc):
    """All unary Histogram operations on one histogram (mode 'counts') or probability table (mode 'probs')."""
    from tangelo.toolboxes.post_processing import Histogram, filter_hist
    from tangelo.linq.target.backend import get_expectation_value_from_frequencies_oneterm as oneterm
    d = {str(k): v for k, v in case["d"].items()}
    mode = case["mode"]
    L = len(next(iter(d)))
    tot = RH.total(d)
    sig = hsig(d, mode)

    def bad(site, kind, detail, extra=""):
        acc.violation(f"{site}/{kind}/{sig}{extra}", {"kind": "hist", "d": d, "mode": mode}, detail, group=f"{site}/{kind}")

    def call(site, f, *a, **k):
        acc.ev()
        acc.transitions += 1
        try:
            return True, f(*a, **k)
        except HARNESS_ERRORS:
            raise
        except Exception as e:
            bad(site, "exception", {"err": repr(e)[:300], "args": [a, k]})
            return False, None

    # construction from counts / from a probability table (n_shots=0)
    snap = dict(d)
    ok, h = call("Histogram.__init__", Histogram, d)
    if not ok:
        return
    if h.counts is d:
        bad("Histogram.__init__", "input-dict-aliased", {})
    if not RH.same(h.counts, snap) or h.n_shots != tot or h.n_qubits != L or d != snap:
        bad("Histogram.__init__", "counts-not-stored", {"counts": h.counts, "n_shots": h.n_shots, "n_qubits": h.n_qubits})
    if tot > 0:
        fr = h.frequencies
        if not RH.same(fr, RH.normalise(d), TOLN) or abs(sum(fr.values()) - 1) > TOLN:
            bad("Histogram.frequencies", "not-normalised-counts", {"frequencies": fr})
    acc.out(str(("init", sorted(RH.clean(h.counts).items()))))

    # bit-order reversal
    ok, hm = call("Histogram.__init__(msq_first)", Histogram, dict(d), msq_first=True)
    if ok:
        ref = RH.reverse(d)
        if not RH.same(hm.counts, ref) or hm.n_shots != tot:
            bad("Histogram.__init__(msq_first)", "not-the-reversed-histogram", {"got": hm.counts, "ref": ref,
                "repro": _hist_repro(d, ["print(Histogram(d, msq_first=True).counts)"])})
        if any(k != k[::-1] for k in d):
            acc.nt(str(("msq", sorted(d.items()))))

    # construction from frequencies + n_shots (frequencies realisable with that many shots)
    shot_numbers = ([tot] if tot > 0 else []) if mode == "counts" else [4, 8, 20]
    for N in shot_numbers:
        fr = RH.normalise(d)
        for msq in (False, True):
            ok, hf = call("Histogram.__init__(n_shots)", Histogram, dict(fr), n_shots=N, msq_first=msq)
            if ok:
                ref = {k: (v if mode == "counts" else int(round(v * N))) for k, v in d.items()}
                ref = RH.reverse(ref) if msq else ref
                if not RH.same(hf.counts, ref) or hf.n_shots != N:
                    bad("Histogram.__init__(n_shots)", "counts-differ-from-frequency-times-shots",
                        {"got": hf.counts, "ref": ref, "n_shots": N, "msq_first": msq})

    if mode == "probs":      # informational: tables that cannot be realised with N shots do not keep the stated total
        for N in (1, 2, 3):
            try:
                if Histogram(dict(d), n_shots=N).n_shots != N:
                    acc.count("nonrealisable_frequency_table_total_differs_from_n_shots")
            except Exception:
                acc.count("nonrealisable_frequency_table_raises")

    # marginalisation: every index subset; expectation of every term supported on the remaining qubits is unchanged
    for idx in subsets(L):
        hr = Histogram(dict(d))
        observe(hr)
        ok, _ = call("Histogram.remove_qubit_indices", hr.remove_qubit_indices, *idx)
        if not ok:
            continue
        stale = derived_views_stale(hr)
        if stale:
            bad("Histogram.remove_qubit_indices", "derived-views-stale-after-in-place-operation", dict(stale, indices=idx), extra=f"/rm{len(idx)}")
        ref = RH.remove(d, idx)
        if not RH.same(hr.counts, ref) or hr.n_shots != tot:
            bad("Histogram.remove_qubit_indices", "counts-differ", {"indices": idx, "got": hr.counts, "ref": ref,
                "repro": _hist_repro(d, [f"h = Histogram(d); h.remove_qubit_indices(*{idx!r}); print(h.counts, h.n_shots)"])},
                extra=f"/rm{len(idx)}")
        elif tot > 0 and hr.n_qubits != L - len(idx):
            bad("Histogram.remove_qubit_indices", "wrong-width", {"indices": idx, "got": hr.counts}, extra=f"/rm{len(idx)}")
        if len(idx) > 1:       # the same index set given in reverse order with a repetition
            alt = idx[::-1] + (idx[0],)
            hr2 = Histogram(dict(d))
            ok, _ = call("Histogram.remove_qubit_indices", hr2.remove_qubit_indices, *alt)
            if ok and not RH.same(hr2.counts, ref):
                bad("Histogram.remove_qubit_indices", "counts-differ", {"indices": alt, "got": hr2.counts, "ref": ref}, extra=f"/rm{len(idx)}r")
        if idx and len(RH.clean(ref)) < len(RH.clean(d)):
            acc.nt(str(("remove", sorted(d.items()), idx)))
        acc.out(str(("remove", sorted(RH.clean(hr.counts).items()))))
        if tot == 0:
            continue
        rest = [q for q in range(L) if q not in idx]
        for k in range(0, len(rest) + 1):
            for qs in itertools.combinations(rest, k):
                term = mk_term(qs)
                sterm = RH.shift_term(term, idx)
                refv = RH.parity_expectation(d, qs)
                ok1, v0 = call("Histogram.get_expectation_value", Histogram(dict(d)).get_expectation_value, term)
                ok2, v1 = call("Histogram.get_expectation_value", hr.get_expectation_value, sterm)
                ok3, v2 = call("get_expectation_value_from_frequencies_oneterm", oneterm, sterm, hr.frequencies)
                if not (ok1 and ok2 and ok3):
                    continue
                if abs(v0 - refv) > TOLN:
                    bad("Histogram.get_expectation_value", "value", {"term": term, "got": v0, "ref": refv})
                if abs(v1 - refv) > TOLN or abs(v2 - refv) > TOLN:
                    bad("Histogram.remove_qubit_indices", "expectation-changed-by-marginalising-other-qubits",
                        {"indices": idx, "term": term, "shifted_term": sterm, "before": v0, "after": v1, "after_function": v2, "ref": refv})

    # expectation value with a coefficient
    if tot > 0:
        for qs in subsets(L):
            for cf in (-0.5, 0.25j):
                ok, v = call("Histogram.get_expectation_value", h.get_expectation_value, mk_term(qs), cf)
                if ok and abs(v - cf * RH.parity_expectation(d, qs)) > TOLN:
                    bad("Histogram.get_expectation_value", "value", {"term": mk_term(qs), "coeff": cf, "got": v})

    # post-selection (in place): keeps exactly the matching mass, removes the selected indices
    for exp in expected_dicts(L):
        hp = Histogram(dict(d))
        observe(hp)                  # history: every derived view has been read before the in-place operation
        ok, _ = call("Histogram.post_select", hp.post_select, dict(exp))
        if not ok:
            continue
        stale = derived_views_stale(hp)
        if stale:
            bad("Histogram.post_select", "derived-views-stale-after-in-place-operation", dict(stale, expected_outcomes=exp), extra=f"/sel{len(exp)}")
        mass, ref = RH.select(d, exp)
        if not RH.same(hp.counts, ref) or hp.n_shots != mass:
            bad("Histogram.post_select", "kept-mass-or-counts-differ", {"expected_outcomes": exp, "got": hp.counts, "ref": ref, "mass": mass,
                "repro": _hist_repro(d, [f"h = Histogram(d); h.post_select({exp!r}); print(h.counts, h.n_shots)"])},
                extra=f"/sel{len(exp)}")
        elif mass > 0 and hp.n_qubits != L - len(exp):
            bad("Histogram.post_select", "selected-index-not-removed", {"expected_outcomes": exp, "got": hp.counts}, extra=f"/sel{len(exp)}")
        if exp and 0 < mass < tot:
            acc.nt(str(("post_select", sorted(d.items()), sorted(exp.items()))))
        acc.out(str(("post_select", sorted(RH.clean(hp.counts).items()))))

    # filter_hist (out of place) with a one-qubit predicate
    def pred(bitstring, q, o):
        return bitstring[q] == o
    for q in range(L):
        for o in "01":
            ok, hfil = call("filter_hist", filter_hist, h, pred, q, o)
            if not ok:
                continue
            ref = {k: v for k, v in d.items() if k[q] == o}
            if not RH.same(hfil.counts, ref):
                bad("filter_hist", "counts-differ", {"q": q, "o": o, "got": hfil.counts, "ref": ref})
            if h.counts != snap:
                bad("filter_hist", "operand-mutated", {"q": q, "o": o, "after": h.counts})
            if hfil.counts is h.counts:
                bad("filter_hist", "result-aliases-operand", {})
    acc.states += 1


def observe(h):
    """Read every derived view of a histogram (so that anything cached is cached now)."""
    try:
        return (h.n_shots, h.n_qubits, dict(h.frequencies))
    except Exception:
        return None


def derived_views_stale(h):
    """None if n_shots / n_qubits / frequencies agree with what a fresh Histogram of the same counts reports, else a description."""
    from tangelo.toolboxes.post_processing import Histogram
    counts = {k: v for k, v in dict(h.counts).items()}
    tot = sum(counts.values())
    if tot == 0 or not counts:
        return None
    f = Histogram(dict(counts))
    got, want = observe(h), observe(f)
    if got is None or want is None:
        return None if got == want else {"got": repr(got), "fresh": repr(want)}
    if got[0] != want[0] or got[1] != want[1] or not RH.same(got[2], want[2], TOLN):
        return {"n_shots": [got[0], want[0]], "n_qubits": [got[1], want[1]], "frequencies": [got[2], want[2]]}
    return None


@guarded
def check_decimal(case, acc):
    """Histogram(frequencies, n_shots=100) for two-outcome tables in hundredths: realisable with 100 shots but not exact
    in binary floating point (0.29 * 100 = 28.999999999999996), so the count bookkeeping has to round, not truncate."""
    from tangelo.toolboxes.post_processing import Histogram
    L, k, msq = case["L"], case["k"], case["msq"]
    keys = {1: ["0", "1"], 2: ["01", "10"]}[L]
    fr = {keys[0]: k / 100, keys[1]: (100 - k) / 100}
    ref = {keys[0]: k, keys[1]: 100 - k}
    ref = RH.reverse(ref) if msq else ref
    acc.ev()
    acc.states += 1
    acc.transitions += 1
    h = Histogram(dict(fr), n_shots=100, msq_first=msq)
    if not RH.same(h.counts, ref) or h.n_shots != 100:
        acc.violation(f"Histogram.__init__(n_shots)/counts-differ-from-frequency-times-shots/decimal/L{L}", case,
                      {"got": h.counts, "ref": ref, "n_shots": h.n_shots,
                       "repro": _hist_repro(fr, [f"h = Histogram(d, n_shots=100, msq_first={msq}); print(h.counts, h.n_shots)"])},
                      group="Histogram.__init__(n_shots)/counts-differ-from-frequency-times-shots")
    if (k / 100) * 100 != k:
        acc.nt(f"decimal {L} {k} {msq}")
    acc.out(f"decimal {sorted(h.counts.items())}")


def law_of(execs):
    """Accumulate P(result) over all executions of a scripted-sampler tree."""
    law = {}
    for key, p in execs:
        law[key] = law.get(key, 0.0) + p
    return law


def multinomial_law(freqs, n, as_freq):
    sup = [(k, p) for k, p in freqs.items() if p > 0]
    law = {}
    for seq in itertools.product(range(len(sup)), repeat=n):
        c = Counter(sup[j][0] for j in seq)
        p = 1.0
        for j in seq:
            p *= sup[j][1]
        key = tuple(sorted((k, (v / n if as_freq else v)) for k, v in c.items()))
        law[key] = law.get(key, 0.0) + p
    return law


@guarded
def check_resample(case, acc):
    """Histogram.resample / get_resampled_frequencies under the scripted sampler: every draw sequence."""
    import tangelo.toolboxes.post_processing.bootstrapping as BS
    from tangelo.toolboxes.post_processing import Histogram
    d = {str(k): v for k, v in case["d"].items()}
    n, via, mode = case["n"], case["via"], case["mode"]
    L = len(next(iter(d)))
    freqs = RH.normalise(d)
    sig = f"{via}/{hsig(d, mode)}/n{n}"
    h = Histogram(dict(d)) if via == "method" else None
    arg = dict(freqs)

    def bad(kind, detail):
        site = "Histogram.resample" if via == "method" else "get_resampled_frequencies"
        acc.violation(f"{site}/{kind}/{sig}", case, detail, group=f"{site}/{kind}")

    def run(ch):
        def go():
            if via == "method":
                return dict(h.resample(n).counts)
            return dict(BS.get_resampled_frequencies(arg, n))
        try:
            if DEBUG_UNOWNED == "rvs":
                r = go()
            else:
                with seams.patched(BS, "stats", SupportStatsProxy(ch)):
                    r = go()
        except HARNESS_ERRORS:
            raise
        except Exception as e:
            return ("raised", repr(e)[:200])
        return ("ok", tuple(sorted((str(k), v) for k, v in r.items() if v != 0)))

    execs = []
    n_exec = 0
    for choices, trace, infos, res in choicetree.explore(run):
        n_exec += 1
        acc.ev()
        acc.transitions += max(1, len(trace))
        if res[0] != "ok":
            bad("exception", {"err": res[1], "choices": choices})
            continue
        if len(trace) != 1 or infos[0]["size"] != n:
            bad("unexpected-draws", {"trace": [(t[0], t[2]) for t in trace], "sizes": [i["size"] for i in infos]})
            continue
        info = infos[0]
        if abs(sum(info["pk"]) - 1) > TOLN or min(info["pk"]) < 0:
            bad("sampler-handed-unnormalised-distribution", {"pk": info["pk"]})
        # documented encoding (bitstring read as a binary number): recorded, the verdict is taken on the law below
        handed = {format(x, f"0{L}b"): p for x, p in zip(info["xk"], info["pk"])}
        acc.count("resample_handed_distribution_decodes_to_frequencies" if RH.same(handed, freqs, TOLN)
                  else "resample_handed_distribution_in_another_encoding")
        seq = choicetree.sequences(len(info["support"]), n)[choices[0]]
        p = 1.0
        for j in seq:
            p *= info["pk"][info["support"][j]]
        result = res[1]
        tot = sum(v for _, v in result)
        if via == "method":
            if tot != n or any(len(k) != L for k, _ in result):
                bad("resampled-counts-do-not-sum-to-n", {"result": result, "n": n, "choices": choices})
        elif abs(tot - 1) > TOLN or any(len(k) != L for k, _ in result):
            bad("resampled-frequencies-do-not-sum-to-1", {"result": result, "n": n, "choices": choices})
        if any(freqs.get(k, 0) == 0 for k, _ in result):
            bad("outcome-of-zero-probability-resampled", {"result": result, "frequencies": freqs, "choices": choices})
        execs.append((result, p))
        acc.out(str((via, result)))
    if via == "method" and h.counts != d:
        bad("operand-mutated", {"after": h.counts})
    if via == "function" and arg != freqs:
        bad("operand-mutated", {"after": arg})
    law, ref = law_of(execs), multinomial_law(freqs, n, via == "function")
    keys = set(law) | set(ref)

    unmatched = []
    for k in keys:
        if abs(law.get(k, 0.0) - ref.get(k, 0.0)) > TOLN:
            unmatched.append(k)
    if unmatched and via == "function":   # tolerate representation noise of v/n between the two sides
        l2 = {tuple((kk, round(vv, 12)) for kk, vv in k): v for k, v in law.items()}
        r2 = {tuple((kk, round(vv, 12)) for kk, vv in k): v for k, v in ref.items()}
        unmatched = [k for k in set(l2) | set(r2) if abs(l2.get(k, 0.0) - r2.get(k, 0.0)) > TOLN]
    if unmatched and execs:
        bad("law-of-resampled-histogram-is-not-multinomial(frequencies)",
            {"law": sorted(law.items()), "ref": sorted(ref.items()), "frequencies": freqs,
             "repro": _hist_repro(d, [f"print(Histogram(d).frequencies); print(Histogram(d).resample({n}).counts)  # keys must follow the frequencies"
                                      if via == "method" else
                                      f"from tangelo.toolboxes.post_processing.bootstrapping import get_resampled_frequencies\n"
                                      f"print(get_resampled_frequencies(d, {n}))  # keys must be keys of d"])})
    acc.states += n_exec
    if n_exec > 1:
        acc.nt(str(("resample", via, sorted(d.items()), n)))


def ordered_index_lists(L):
    out = []
    for k in range(0, L + 1):
        out += [list(p) for p in itertools.permutations(range(L), k)]
    return out


@guarded
def check_freqfuns(case, acc):
    """post_select / strip_post_selection / split_frequency_dict / split_frequency_dict_for_last_n_digits on one dict."""
    from tangelo.toolboxes.post_processing.post_selection import post_select, strip_post_selection, split_frequency_dict, \
        split_frequency_dict_for_last_n_digits
    from tangelo.linq.target.backend import get_expectation_value_from_frequencies_oneterm as oneterm
    d = {str(k): v for k, v in case["d"].items()}
    mode = case["mode"]
    L = len(next(iter(d)))
    tot = RH.total(d)
    sig = hsig(d, mode)
    snap = dict(d)
    tol0 = 0.0 if mode == "probs" else TOLN     # dyadic tables: marginals are exact

    def bad(site, kind, detail, extra=""):
        acc.violation(f"{site}/{kind}/{sig}{extra}", {"kind": "freqfuns", "d": snap, "mode": mode}, detail, group=f"{site}/{kind}")

    def call(site, zero_mass, f, *a, **k):
        acc.ev()
        acc.transitions += 1
        try:
            r = f(*a, **k)
        except HARNESS_ERRORS:
            raise
        except Exception as e:
            if zero_mass:
                acc.count("zero_mass_post_selection_refused")
                return False, None
            bad(site, "exception", {"err": repr(e)[:300], "args": [a, k]})
            return False, None
        if d != snap:
            bad(site, "input-dict-mutated", {"after": dict(d)})
            d.clear()
            d.update(snap)
        return True, r

    def normalised(site, r, ref_unnorm, what, extra=""):
        ref = RH.normalise(ref_unnorm)
        if not RH.same(r, ref, TOLN) or abs(sum(r.values()) - 1) > TOLN:
            bad(site, "not-the-renormalised-" + what, dict(what_args, got=r, ref=ref), extra)

    acc.states += 1
    # post_select function
    for exp in expected_dicts(L):
        mass, ref = RH.select(d, exp)
        what_args = {"expected_outcomes": exp, "repro": _hist_repro(snap, [f"print(post_select(d, {exp!r}))"])}
        ok, r = call("post_select", mass == 0, post_select, d, dict(exp))
        if not ok:
            continue
        if mass == 0:
            if RH.clean(r):
                bad("post_select", "mass-from-nowhere", dict(what_args, got=r))
            acc.count("zero_mass_post_selection_returned_empty")
            continue
        normalised("post_select", r, ref, "matching-outcomes", f"/sel{len(exp)}")
        if any(len(k) != L - len(exp) for k in r):
            bad("post_select", "selected-index-not-removed", dict(what_args, got=r), f"/sel{len(exp)}")
        if exp and mass < tot:
            acc.nt(str(("f.post_select", sorted(d.items()), sorted(exp.items()))))
        acc.out(str(("f.post_select", sorted(RH.clean(r).items()))))
    if tot == 0:
        return
    # strip_post_selection: marginalise; expectation of terms on the remaining qubits unchanged
    for idx in subsets(L):
        what_args = {"indices": idx, "repro": _hist_repro(snap, [f"print(strip_post_selection(d, *{idx!r}))"])}
        ok, r = call("strip_post_selection", False, strip_post_selection, d, *idx)
        if not ok:
            continue
        ref = RH.normalise(RH.remove(d, idx))
        if not RH.same(r, ref, tol0) or abs(sum(r.values()) - 1) > tol0:
            bad("strip_post_selection", "not-the-marginal", dict(what_args, got=r, ref=ref), f"/rm{len(idx)}")
        rest = [q for q in range(L) if q not in idx]
        for k in range(0, len(rest) + 1):
            for qs in itertools.combinations(rest, k):
                acc.ev()
                v = oneterm(RH.shift_term(mk_term(qs), idx), r)
                if abs(v - RH.parity_expectation(d, qs)) > TOLN:
                    bad("strip_post_selection", "expectation-changed-by-marginalising-other-qubits",
                        dict(what_args, term=mk_term(qs), after=v, ref=RH.parity_expectation(d, qs)))
        if idx and len(RH.clean(ref)) < len(RH.clean(d)):
            acc.nt(str(("strip", sorted(d.items()), idx)))
        acc.out(str(("strip", sorted(RH.clean(r).items()))))
    # split_frequency_dict: the two halves are the two marginals (or the post-selected conditional) of the same table
    for ind in ordered_index_lists(L):
        dms = [None] + ["".join(b) for b in itertools.product("01", repeat=len(ind))]
        for dm in dms:
            exp = {} if dm is None else dict(zip(ind, dm))
            mass, sel = RH.select(d, exp)
            what_args = {"indices": ind, "desired_measurement": dm,
                         "repro": _hist_repro(snap, [f"print(split_frequency_dict(d, {ind!r}, {dm!r}))"])}
            ok, r = call("split_frequency_dict", dm is not None and mass == 0, split_frequency_dict, d, list(ind), dm)
            if not ok:
                continue
            mid, marg = r
            ref_mid = RH.normalise(RH.keep(d, ind))
            if not RH.same(mid, ref_mid, tol0) or abs(sum(mid.values()) - 1) > tol0:
                bad("split_frequency_dict", "first-half-not-the-marginal-on-indices", dict(what_args, got=mid, ref=ref_mid))
            if dm is None:
                ref_m = RH.normalise(RH.remove(d, ind))
                if not RH.same(marg, ref_m, tol0) or abs(sum(marg.values()) - 1) > tol0:
                    bad("split_frequency_dict", "second-half-not-the-marginal-on-other-indices", dict(what_args, got=marg, ref=ref_m))
            elif mass == 0:
                if RH.clean(marg):
                    bad("split_frequency_dict", "mass-from-nowhere", dict(what_args, got=marg))
            else:
                normalised("split_frequency_dict", marg, sel, "post-selected-half")
            if 0 < len(ind) < L and len(d) > 1:
                acc.nt(str(("split", sorted(d.items()), ind, dm)))
            acc.out(str(("split", sorted(RH.clean(mid).items()), sorted(RH.clean(marg).items()))))
    # split_frequency_dict_for_last_n_digits: totals conserved exactly (no renormalisation)
    for nl in range(0, L + 1):
        what_args = {"n": nl, "repro": _hist_repro(snap, [f"print(split_frequency_dict_for_last_n_digits(d, {nl}))"])}
        ok, r = call("split_frequency_dict_for_last_n_digits", False, split_frequency_dict_for_last_n_digits, d, nl)
        if not ok:
            continue
        a, b = r
        ra, rb = RH.split_last(d, nl)
        if not RH.same(a, ra) or not RH.same(b, rb) or sum(a.values()) != tot or sum(b.values()) != tot:
            bad("split_frequency_dict_for_last_n_digits", "halves-are-not-the-two-marginals", dict(what_args, got=[a, b], ref=[ra, rb]))
        if 0 < nl < L and len(d) > 1:
            acc.nt(str(("split_last", sorted(d.items()), nl)))
        acc.out(str(("split_last", sorted(RH.clean(a).items()), sorted(RH.clean(b).items()))))


@guarded
def check_nary(case, acc):
    """+, +=, aggregate_histograms on a tuple of 1-3 histograms of equal width."""
    from tangelo.toolboxes.post_processing import Histogram, aggregate_histograms
    ds = [{str(k): v for k, v in d.items()} for d in case["ds"]]
    k = len(ds)
    ref = RH.add(*ds)
    tot = sum(RH.total(d) for d in ds)
    sig = f"k{k}/L{len(next(iter(ds[0])))}"
    acc.states += 1

    def bad(site, kind, detail):
        acc.violation(f"{site}/{kind}/{sig}", {"kind": "nary", "ds": ds}, detail, group=f"{site}/{kind}")

    def fresh():
        return [Histogram(dict(d)) for d in ds]

    def verify(site, r, hs, skip_operand=None):
        if not RH.same(r.counts, ref) or r.n_shots != tot:
            bad(site, "counts-not-the-sum", {"got": r.counts, "ref": ref, "n_shots": r.n_shots, "total": tot,
                "repro": "from tangelo.toolboxes.post_processing import *\n" + f"hs = [Histogram(d) for d in {ds!r}]\n"
                         "print(aggregate_histograms(*hs).counts)"})
        for i, (hh, d) in enumerate(zip(hs, ds)):
            if i != skip_operand and hh.counts != d:
                bad(site, "operand-mutated", {"operand": i, "after": hh.counts, "before": d})
            if i != skip_operand and r.counts is hh.counts and k > 1:
                bad(site, "result-aliases-operand", {"operand": i})

    def call(site, f):
        acc.ev()
        acc.transitions += 1
        try:
            return True, f()
        except HARNESS_ERRORS:
            raise
        except Exception as e:
            bad(site, "exception", {"err": repr(e)[:300]})
            return False, None

    hs = fresh()
    ok, r = call("aggregate_histograms", lambda: aggregate_histograms(*hs))
    if ok:
        verify("aggregate_histograms", r, hs)
        if k == 1 and r is hs[0]:
            acc.count("aggregate_histograms_single_operand_returns_the_operand_itself")
        acc.out(str(("agg", sorted(RH.clean(r.counts).items()))))
    if k == 3 and RH.total(ds[0]) + RH.total(ds[1]) == 0:
        acc.count("chained_sum_with_empty_intermediate_skipped")     # (h1 + h2) has no shot at all: outside the premise
    elif k >= 2:
        hs = fresh()
        ok, r = call("Histogram.__add__", (lambda: hs[0] + hs[1]) if k == 2 else (lambda: hs[0] + hs[1] + hs[2]))
        if ok:
            verify("Histogram.__add__", r, hs)
        hs = fresh()
        target = hs[0]
        for h_ in hs:
            observe(h_)               # history: derived views read before the in-place sum

        def iadd():
            t = hs[0]
            for o in hs[1:]:
                t += o
            return t
        ok, r = call("Histogram.__iadd__", iadd)
        if ok:
            if r is not target:
                bad("Histogram.__iadd__", "not-in-place", {})
            stale = derived_views_stale(r)
            if stale:
                bad("Histogram.__iadd__", "derived-views-stale-after-in-place-operation", stale)
            verify("Histogram.__iadd__", r, hs, skip_operand=0)
        if any(set(RH.clean(a)) & set(RH.clean(b)) for a, b in itertools.combinations(ds, 2)):
            acc.nt(str(("nary", [sorted(d.items()) for d in ds])))


# ---------------------------------------------------------------------------------------------------------------------
# enumeration / sharding

def group_configs(tier, nwords, order_kind):
    """(seed, n_repeat) pairs for one ordered operator."""
    cfg = [(None, 1), (None, 2)] + [(s, r) for s in INT_SEEDS for r in REPEATS
                                    if tier == "thorough" or nwords <= 3 or r < 3 or s == 0]
    if tier == "thorough" or nwords <= 3:
        cfg.append((None, 3))
    if order_kind == "perm":     # the extra term orders of the thorough tier
        cfg = [(None, 1), (0, 1), (0, 2)] + ([(None, 2)] if nwords <= 3 else [])
    return cfg


def group_cases(tier, n, ws):
    """All grouping cases for the word set ws (list of words)."""
    orders = [("sorted", list(ws))]
    if len(ws) > 1:
        orders.append(("reversed", list(reversed(ws))))
    if tier == "thorough" and len(ws) > 2:
        for p in itertools.permutations(ws):
            if list(p) not in (orders[0][1], orders[1][1]):
                orders.append(("perm", list(p)))
    for kind, words in orders:
        coefs = coefs_for(n, words)
        for seed, r in group_configs(tier, len(words), kind):
            yield {"kind": "group", "n": n, "words": words, "coefs": coefs, "seed": seed, "n_repeat": r}


def nary_plan(tier):
    """(L, k, pool description) triples: operand tuples are the k-fold product of the pool."""
    if tier == "quick":
        return [(1, 1, "all"), (2, 1, "all"), (3, 1, "s2"), (1, 2, "all"), (2, 2, "s2+probs"), (3, 2, "s1+probs_s2"),
                (1, 3, "all"), (2, 3, "s1")]
    return [(1, 1, "all"), (2, 1, "all"), (3, 1, "all"), (1, 2, "all"), (2, 2, "s3+probs"), (3, 2, "s2+probs"),
            (1, 3, "all+probs"), (2, 3, "s2"), (3, 3, "s1")]


def nary_pool(L, desc):
    pool = []
    for part in desc.split("+"):
        if part == "all":
            pool += count_hists(L, 4)
        elif part == "probs":
            pool += prob_tables(L, 4)
        elif part.startswith("probs_s"):
            pool += prob_tables(L, int(part[7:]))
        elif part.startswith("s"):
            pool += count_hists(L, int(part[1:]))
    return pool


def check_resample_bulk(case, acc):
    """Chunked sampling loops of get_resampled_frequencies / Histogram.resample: shot numbers on both sides of (multiples of)
    the chunk size; every bulk draw is answered by a constant array (one choice over the support, all explored): the draw sizes
    must add up to n and the result must be the scripted counts (/ n)."""
    import tangelo.toolboxes.post_processing.bootstrapping as BS
    from tangelo.toolboxes.post_processing import Histogram
    d = {str(k): v for k, v in case["d"].items()}
    n, via = case["n"], case["via"]
    L = len(next(iter(d)))
    freqs = RH.normalise(d)
    site = "Histogram.resample" if via == "method" else "get_resampled_frequencies"

    def run(ch):
        with seams.patched(BS, "stats", SupportStatsProxy(ch)):
            try:
                if via == "method":
                    return ("ok", tuple(sorted(Histogram(dict(d)).resample(n).counts.items())))
                return ("ok", tuple(sorted(BS.get_resampled_frequencies(dict(freqs), n).items())))
            except HARNESS_ERRORS:
                raise
            except Exception as e:
                return ("raised", repr(e)[:200])

    n_exec = 0
    for choices, trace, infos, res in choicetree.explore(run, check_replay=False, max_exec=64):
        n_exec += 1
        acc.ev()
        acc.transitions += max(1, len(trace))
        if res[0] != "ok":
            acc.violation(f"{site}/exception/bulk/n{n}", case, {"err": res[1]}, group=f"{site}/exception")
            continue
        want, total = {}, 0
        for info, c in zip(infos, choices):
            total += info["size"]
            if info["size"] == 0:
                continue
            if info.get("bulk"):
                picks = [(info["support"][c], info["size"])]
            else:
                picks = [(info["support"][j], 1) for j in choicetree.sequences(len(info["support"]), info["size"])[c]]
            for j, m in picks:
                k = format(info["xk"][j], f"0{L}b")
                want[k] = want.get(k, 0) + m
        got = {k: v for k, v in res[1] if v != 0}
        if via == "function":
            want = {k: v / n for k, v in want.items()}
        if total != n or set(got) != set(want) or any(abs(got[k] - want[k]) > 1e-12 for k in want):
            acc.violation(f"{site}/chunked-draws-do-not-add-up-to-n/L{L}", case,
                          {"n": n, "draw_sizes": [i["size"] for i in infos], "got": got, "want": want}, group=f"{site}/chunked-draws")
        acc.out(str((via, "bulk", n, tuple(sorted(got.items())))))
    acc.states += n_exec
    acc.nt(str(("resample-bulk", via, n)))


def resample_plan(tier):
    """(mode, L, max_support, n values)."""
    if tier == "quick":
        return [("counts", 1, 4, (1, 2, 3)), ("counts", 2, 4, (1, 2)), ("counts", 2, 3, (3,)), ("counts", 3, 4, (1,)),
                ("counts", 3, 2, (2, 3)), ("probs", 1, 4, (1, 2, 3)), ("probs", 2, 4, (1, 2, 3)), ("probs", 3, 4, (1, 2, 3))]
    return [("counts", L, 4, (1, 2, 3)) for L in (1, 2, 3)] + [("probs", L, 4, (1, 2, 3)) for L in (1, 2, 3)]


def resample_cases(tier):
    seen = set()
    for mode, L, ms, ns in resample_plan(tier):
        pool = count_hists(L, ms) if mode == "counts" else prob_tables(L, ms)
        for i, d in enumerate(pool):
            if RH.total(d) == 0:
                continue
            for n in ns:
                for via in (("method", "function") if mode == "probs" else ("method",)):
                    key = (mode, tuple(d.items()), n, via)
                    if key in seen:
                        continue
                    seen.add(key)
                    yield {"kind": "resample", "d": d, "mode": mode, "n": n, "via": via}


def bounds(tier, seed):
    return {"tier": tier, "two_qubit_words": len(WORDS2), "two_qubit_operators": len(word_sets(2, 4)),
            "three_qubit_words": WORDS3, "three_qubit_operators": len(word_sets(3, 3 if tier == "quick" else 4)),
            "coefficients": [repr(c) for c in COEFS], "int_seeds": INT_SEEDS, "n_repeat": REPEATS,
            "term_orders": "sorted+reversed" if tier == "quick" else
            "all permutations (the extra orders with (seed,n_repeat) in {(None,1),(0,1),(0,2)} and (None,2) for <= 3 words)",
            "count_alphabet": COUNTS, "count_histograms": {L: len(count_hists(L)) for L in (1, 2, 3)},
            "probability_tables": {L: len(prob_tables(L)) for L in (1, 2, 3)},
            "nary_plan": nary_plan(tier), "resample_plan": resample_plan(tier), "generic_angle_delta": runner.seed_delta(seed)}


def _chunks(n, size):
    return [(lo, min(n, lo + size)) for lo in range(0, n, size)]


def preload():
    """Import everything the checks use before workers are forked and before numpy.random is poisoned."""
    import openfermion.measurements.qubit_partitioning  # noqa: F401
    import tangelo.toolboxes.measurements  # noqa: F401
    import tangelo.toolboxes.post_processing  # noqa: F401
    import tangelo.toolboxes.post_processing.bootstrapping  # noqa: F401
    import tangelo.toolboxes.operators  # noqa: F401
    import tangelo.linq.target.backend  # noqa: F401


def shards(tier, seed):
    preload()
    sh = []
    # grouping: chunks of word sets (4-word sets dominate the cost)
    for n, kmax in ((2, 4), (3, 3 if tier == "quick" else 4)):
        nws = len(word_sets(n, kmax))
        size = 40 if tier == "quick" else 12
        for lo, hi in _chunks(nws, size):
            sh.append({"kind": "group", "n": n, "kmax": kmax, "lo": lo, "hi": hi, "tier": tier, "seed": seed})
    sh.append({"kind": "decimal"})
    sh.append({"kind": "qwc", "n": 2})
    sh.append({"kind": "qwc", "n": 3})
    # unary histogram operations and frequency-dict helpers
    for mode in ("counts", "probs"):
        for L in (1, 2, 3):
            npool = len(count_hists(L) if mode == "counts" else prob_tables(L))
            for lo, hi in _chunks(npool, 500):
                # the frequency-dict helpers on raw count dicts of length 3: thorough tier only
                ff = not (tier == "quick" and mode == "counts" and L == 3)
                sh.append({"kind": "hist", "mode": mode, "L": L, "lo": lo, "hi": hi, "tier": tier, "freqfuns": ff})
    # operand tuples
    for L, k, desc in nary_plan(tier):
        npool = len(nary_pool(L, desc))
        ntup = npool ** k
        for lo, hi in _chunks(ntup, 25000):
            sh.append({"kind": "nary", "L": L, "k": k, "pool": desc, "lo": lo, "hi": hi})
    # resampling
    nres = sum(1 for _ in resample_cases(tier))
    for lo, hi in _chunks(nres, 1500 if tier == "quick" else 3000):
        sh.append({"kind": "resample", "lo": lo, "hi": hi, "tier": tier})
    CH = 10 ** 7   # chunk size of the sampling loops (a local constant of the implementation)
    for n in ((2500001, CH - 1, CH, CH + 1, 2 * CH) if tier == "quick" else (9, 65, 2500001, CH - 1, CH, CH + 1, 2 * CH - 1, 2 * CH, 2 * CH + 1)):
        for via in ("method", "function"):
            sh.append({"kind": "resample_bulk", "n": n, "via": via})
    # heaviest first
    order = {"resample_bulk": -1, "group": 0, "resample": 1, "nary": 2, "hist": 3, "qwc": 4, "decimal": 5}
    sh.sort(key=lambda s: order[s["kind"]])
    return sh


def run_shard(sh):
    preload()
    with poisoned_random():
        return _run_shard(sh)


def _run_shard(sh):
    acc = Acc()
    k = sh["kind"]
    if k == "group":
        wss = word_sets(sh["n"], sh["kmax"])[sh["lo"]:sh["hi"]]
        for ws in wss:
            for case in group_cases(sh["tier"], sh["n"], ws):
                case["vseed"] = sh["seed"]
                check_group(case, acc)
                if len(ws) == 4 and case["seed"] is None and case["n_repeat"] == 2:
                    acc.sample(case, cap=1)
    elif k == "qwc":
        check_qwc_pairs({"kind": "qwc", "n": sh["n"]}, acc)
        acc.sample({"kind": "qwc", "n": sh["n"], "pair": ["XZ" + "I" * (sh["n"] - 2), "IZ" + "I" * (sh["n"] - 2)]}, cap=1)
    elif k == "decimal":
        for L in (1, 2):
            for kk in range(1, 100):
                for msq in (False, True):
                    check_decimal({"kind": "decimal", "L": L, "k": kk, "msq": msq}, acc)
        acc.sample({"kind": "decimal", "L": 2, "k": 29, "msq": True}, cap=1)
    elif k == "hist":
        pool = (count_hists(sh["L"]) if sh["mode"] == "counts" else prob_tables(sh["L"]))[sh["lo"]:sh["hi"]]
        for d in pool:
            check_hist({"kind": "hist", "d": d, "mode": sh["mode"]}, acc)
            if sh["freqfuns"]:
                check_freqfuns({"kind": "freqfuns", "d": d, "mode": sh["mode"]}, acc)
        acc.sample({"kind": "hist", "d": pool[len(pool) // 2], "mode": sh["mode"]}, cap=1)
    elif k == "nary":
        pool = nary_pool(sh["L"], sh["pool"])
        n, kk = len(pool), sh["k"]
        for i in range(sh["lo"], sh["hi"]):
            idx = []
            j = i
            for _ in range(kk):
                idx.append(j % n)
                j //= n
            check_nary({"kind": "nary", "ds": [pool[t] for t in idx]}, acc)
        acc.sample({"kind": "nary", "ds": [pool[(sh["lo"] * 7 + t) % n] for t in range(kk)]}, cap=1)
    elif k == "resample_bulk":
        case = {"kind": "resample_bulk", "d": {"01": 1, "10": 3}, "n": sh["n"], "via": sh["via"]}
        check_resample_bulk(case, acc)
        acc.sample(case, cap=1)
    elif k == "resample":
        for i, case in enumerate(resample_cases(sh["tier"])):
            if sh["lo"] <= i < sh["hi"]:
                check_resample(case, acc)
                if i == sh["lo"]:
                    acc.sample(case, cap=1)
    return acc


def _cx(c):
    return complex(c["re"], c["im"]) if isinstance(c, dict) else c


def replay_case(case):
    acc = Acc()
    case = dict(case)
    k = case.get("kind")
    preload()
    with poisoned_random():
        if k == "group":
            case["coefs"] = [_cx(c) for c in case["coefs"]]
            check_group(case, acc)
            print("--- standalone reproduction ---\n" + repro_group(case))
        elif k == "qwc":
            check_qwc_pairs(case, acc)
        elif k == "decimal":
            check_decimal(case, acc)
        elif k == "hist":
            check_hist(case, acc)
        elif k == "freqfuns":
            check_freqfuns(case, acc)
        elif k == "nary":
            check_nary(case, acc)
        elif k == "resample":
            check_resample(case, acc)
        elif k == "resample_bulk":
            check_resample_bulk(case, acc)
    for key, (_, w) in acc.viol.items():
        rep = (w.get("detail") or {}).get("repro") if isinstance(w.get("detail"), dict) else None
        if rep:
            print(f"--- standalone reproduction ({key}) ---\n{rep}")
    return acc


def selftest():
    SV.selftest()
    RH.selftest()
    # the scripted shuffler enumerates every permutation exactly once
    seen = set()

    def run(ch):
        x = ["a", "b", "c"]
        ScriptedShuffler(ch).shuffle(x)
        return tuple(x)
    for choices, trace, infos, res in choicetree.explore(run):
        seen.add(res)
    assert len(seen) == 6
    assert qwc_ref(((0, "X"),), ((1, "Z"),)) and not qwc_ref(((0, "X"), (1, "Z")), ((0, "Z"), (1, "Z"))) and qwc_ref((), ((0, "Y"),))
    # multinomial reference law sums to one
    law = multinomial_law({"0": 0.25, "1": 0.75}, 3, False)
    assert abs(sum(law.values()) - 1) < 1e-15 and abs(law[(("0", 1), ("1", 2))] - 3 * 0.25 * 0.75 ** 2) < 1e-15
    # poison: un-owned draws raise, scripted/seeded ones do not
    with poisoned_random():
        for f in (lambda: np.random.random(), lambda: np.random.RandomState(), lambda: np.random.mtrand._rand.uniform(),
                  lambda: _pyrandom.random(), lambda: np.random.default_rng()):
            try:
                f()
            except seams.UnownedRandomness:
                continue
            raise AssertionError("un-owned random draw went through")
        assert np.random.RandomState(3).randint(10) == REAL_RS(3).randint(10)
    assert isinstance(np.random.random(), float)


if __name__ == "__main__":
    import sys
    runner.main(sys.modules[__name__])
