"""C11 - Circuit metadata stays consistent under any operation history.

E2: breadth-first exploration of the states of a live Circuit object under a menu of building / transforming / reading
operations; invariants (metadata == recomputation from the gate list) in every state; operands of read-only and
out-of-place operations snapshotted on every transition. E1: exhaustive menu of invalid Gate constructions.
"""
import itertools
import math

import numpy as np

from mc import runner, stategraph
from mc.runner import Acc
from mc.ref import statevec as SV
from mc.ref import circuitmeta as CMETA

PID = "C11"
ENGINE = "stategraph (BFS over live Circuit objects) + seqspace (invalid-gate menu)"
RULE = ("states = canonical projections (gate tuples, fixed size, index set, maintained counters, identity of variational "
        "gates) of Circuit objects reachable by <= depth operations from 4 start circuits; every transition calls the real "
        "method; in every state all metadata is recomputed from list(circuit) and 13 read-only operations are run as "
        "self-loops with operand snapshots; non-trivial = distinct (state, operation) pairs where the operation changed "
        "the canonical state, plus distinct rejected constructions")
ASSUMPTIONS = [
    "operation menu and gate menu are finite (9 gates, 2 seed operand circuits); histories up to the depth bound",
    "depth reference = ASAP levelling (a gate sits one level after the latest gate on any of its qubits)",
    "width must be >= max index + 1, with equality when no circuit in the object's history had a fixed size "
    "(passes called with remove_qubits=False fix the size by documentation)",
    "exceptions raised by an operation are tolerated (other properties); the object must stay consistent afterwards",
]
PI = math.pi

GATE_MENU = [
    ["H", [0], None, "", False],
    ["RZ", [1], None, 0.3, True],
    ["RZ", [1], None, "theta", False],
    ["CNOT", [1], [0], "", False],
    ["CNOT", [2], [0, 1], "", False],
    ["CRZ", [0], [2], 2 * PI - 0.3, False],
    ["SWAP", [0, 2], None, "", False],
    ["MEASURE", [1], None, "", False],
    ["X", [4], None, "", False],
]
GATE_MENU_SMALL = [0, 1, 2, 4, 7, 8]

STARTS = [
    {"start": "empty"},
    {"start": "empty_n3"},
    {"start": "seedA"},   # H(0) RZ(0,var) CNOT(1;0) CNOT(1;0) RZ(0, 2pi+1e-4)
    {"start": "seedB"},   # fixed n_qubits=6: X(5) RZ(2,"phi",var) CSWAP
]


def mk_gate(d):
    from tangelo.linq import Gate
    return Gate(d[0], list(d[1]), (None if d[2] is None else list(d[2])), d[3], d[4])


class St:
    def __init__(self, c, fixed):
        from tangelo.linq import Circuit
        self.c = c
        self.fixed = fixed
        self.S1 = Circuit([mk_gate(["H", [0], None, "", False]), mk_gate(["CNOT", [1], [0], "", False])])
        self.S2 = Circuit([mk_gate(["RZ", [2], None, 0.3, True])], n_qubits=4)


def sg_build(s):
    from tangelo.linq import Circuit
    k = s["start"]
    if k == "empty":
        return St(Circuit(), False)
    if k == "empty_n3":
        return St(Circuit(n_qubits=3), True)
    if k == "seedA":
        gs = [["H", [0], None, "", False], ["RZ", [0], None, 0.5, True], ["CNOT", [1], [0], "", False],
              ["CNOT", [1], [0], "", False], ["RZ", [0], None, 2 * PI + 1e-4, False]]
        return St(Circuit([mk_gate(g) for g in gs]), False)
    if k == "seedB":
        gs = [["X", [5], None, "", False], ["RZ", [2], None, "phi", True], ["CSWAP", [0, 3], [2], "", False]]
        return St(Circuit([mk_gate(g) for g in gs], n_qubits=6), True)
    raise KeyError(k)


def canon_c(c):
    gates = tuple((g.name, tuple(g.target), None if g.control is None else tuple(g.control), repr(g.parameter),
                   bool(g.is_variational)) for g in c._gates)
    ids = {id(g): i for i, g in enumerate(c._gates)}
    var = tuple(ids.get(id(g), -1) for g in c._variational_gates)
    return (gates, c._qubits_simulated, tuple(sorted(c._qubit_indices)), tuple(sorted(c._gate_counts.items())),
            tuple(sorted(c._n_qubit_gate_counts.items())), var, c.name)


def sg_canon(st):
    return (canon_c(st.c), st.fixed)


def descs(c):
    return [SV.desc(g) for g in c._gates]


def viol(acc, hist, key, detail=None):
    acc.violation(key, {"kind": "hist", "hist": hist}, detail, group=key)


class Unchanged:
    """Operands of read-only / out-of-place operations must keep their canonical state."""

    def __init__(self, acc, hist, opname, objs):
        self.acc, self.hist, self.op, self.objs = acc, hist, opname, objs

    def __enter__(self):
        self.pre = [canon_c(o) for o in self.objs]
        return self

    def __exit__(self, et, ev, tb):
        post = [canon_c(o) for o in self.objs]
        self.acc.ev()
        for i, (a, b) in enumerate(zip(self.pre, post)):
            if a != b and self.hist is not None:
                diff = [n for n, x, y in zip(("gates", "fixed_size", "indices", "counts", "arity_counts", "var_ids", "name"), a, b) if x != y]
                viol(self.acc, self.hist, f"{self.op}/operand-mutated", {"operand": i, "changed": diff, "before": a[0], "after": b[0]})
        return et is not None and issubclass(et, Exception)  # exceptions of the operation itself are tolerated


def sg_ops(st, hist):
    tier_menu = sg_ops.menu
    ops = [{"op": "add", "g": i} for i in tier_menu]
    ops += [{"op": o} for o in ("cadd_S1", "radd_S1", "cadd_S2", "mul1", "mul2", "rmul2", "copy", "inverse", "trim", "reindex",
                                "split_first", "split_last", "stack_S1", "stack_self",
                                "ip_small", "ip_merge", "ip_redundant", "ip_simplify",
                                "fn_small", "fn_merge", "fn_redundant", "fn_simplify", "fn_small_rq",
                                "rt_ionq", "rt_projectq")]
    return ops


sg_ops.menu = list(range(len(GATE_MENU)))


def sg_step(st, op, acc, hist):
    from tangelo.linq import Circuit, translate_circuit
    from tangelo.linq import circuit as CM
    c = st.c
    k = op["op"]
    pre = canon_c(c)

    def changed(new_st):
        if hist is not None and canon_c(new_st.c) != pre:
            acc.nt((pre, op))
        return new_st

    if k == "add":
        d = GATE_MENU[op["g"]]
        qs = CMETA.qubits_of(d)
        expect_reject = bool(c._qubits_simulated) and max(qs) >= c._qubits_simulated
        try:
            c.add_gate(mk_gate(d))
            raised = None
        except Exception as e:
            raised = e
        if hist is not None:
            acc.ev()
            if expect_reject and raised is None:
                viol(acc, hist, "add_gate/out-of-range-index-accepted", {"gate": d, "fixed": c._qubits_simulated})
            if raised is not None and not expect_reject:
                viol(acc, hist, "add_gate/exception", {"gate": d, "err": repr(raised)})
            if raised is not None and canon_c(c) != pre:
                viol(acc, hist, "add_gate/rejected-but-circuit-changed", {"gate": d, "err": repr(raised)[:120]})
        return changed(st)

    def out_of_place(name, fn, operands, fixed_after):
        r = None
        with Unchanged(acc, hist, name, operands):
            r = fn()
        if r is None:
            return st  # operation raised: state unchanged (checked by Unchanged)
        # an out-of-place operation returns a NEW circuit sharing no gate object with its operands (a later in-place operation on the
        # result must not reach back into an operand)
        for o in operands:
            if r is o or ({id(g) for g in r._gates} & {id(g) for g in o._gates}):
                viol(acc, hist, f"{name}/result-aliases-operand", {"same_object": r is o})
                break
        return changed(St(r, fixed_after))

    if k == "cadd_S1":
        return out_of_place("add", lambda: c + st.S1, [c, st.S1], st.fixed)
    if k == "radd_S1":
        return out_of_place("add", lambda: st.S1 + c, [c, st.S1], st.fixed)
    if k == "cadd_S2":
        return out_of_place("add", lambda: c + st.S2, [c, st.S2], True)
    if k == "mul1":
        return out_of_place("mul", lambda: c * 1, [c], st.fixed)
    if k == "mul2":
        return out_of_place("mul", lambda: c * 2, [c], st.fixed)
    if k == "rmul2":
        return out_of_place("rmul", lambda: 2 * c, [c], st.fixed)
    if k == "copy":
        return out_of_place("copy", c.copy, [c], st.fixed)
    if k == "inverse":
        return out_of_place("inverse", c.inverse, [c], st.fixed)
    if k in ("split_first", "split_last"):
        def f():
            parts = c.split()
            return (parts[0] if k == "split_first" else parts[-1]) if parts else None
        return out_of_place("split", f, [c], st.fixed)
    if k == "stack_S1":
        return out_of_place("stack", lambda: c.stack(st.S1), [c, st.S1], st.fixed)
    if k == "stack_self":
        return out_of_place("stack", lambda: CM.stack(c, st.S2, c), [c, st.S2], True)
    if k == "fn_small":
        return out_of_place("remove_small_rotations", lambda: CM.remove_small_rotations(c), [c], True)
    if k == "fn_small_rq":
        return out_of_place("remove_small_rotations", lambda: CM.remove_small_rotations(c, remove_qubits=True), [c], False)
    if k == "fn_merge":
        return out_of_place("merge_rotations", lambda: CM.merge_rotations(c), [c], False)
    if k == "fn_redundant":
        return out_of_place("remove_redundant_gates", lambda: CM.remove_redundant_gates(c), [c], True)
    if k == "fn_simplify":
        return out_of_place("simplify", lambda: CM.simplify(c), [c], True)
    if k == "rt_ionq":
        return out_of_place("translate:ionq-roundtrip",
                            lambda: translate_circuit(translate_circuit(c, "ionq"), "tangelo", source="ionq"), [c], True)
    if k == "rt_projectq":
        return out_of_place("translate:projectq-roundtrip",
                            lambda: translate_circuit(translate_circuit(c, "projectq"), "tangelo", source="projectq"), [c], True)

    # in-place operations: exceptions tolerated, consistency is checked by sg_check on the resulting state
    fixed = st.fixed
    try:
        if k == "trim":
            c.trim_qubits()
        elif k == "reindex":
            n = len(c._qubit_indices)
            c.reindex_qubits([(i + 1) % n for i in range(n)])
        elif k == "ip_small":
            c.remove_small_rotations()
            fixed = True
        elif k == "ip_merge":
            c.merge_rotations()
        elif k == "ip_redundant":
            c.remove_redundant_gates()
            fixed = True
        elif k == "ip_simplify":
            c.simplify()
            fixed = True
        else:
            raise AssertionError(f"unknown op {k}")
    except AssertionError:
        raise
    except Exception:
        pass
    st.fixed = fixed
    return changed(st)


_NOISE = {}


def noise_for(names):
    """NoiseModel with a depolarising and a Pauli channel on every gate name present (built once per name set)."""
    k = tuple(names)
    if k not in _NOISE:
        from tangelo.linq.noisy_simulation import NoiseModel
        nm = NoiseModel()
        for nme in names:
            if nme in ("MEASURE", "CMEASURE"):
                continue
            nm.add_quantum_error(nme, "depol", 0.1)
            nm.add_quantum_error(nme, "pauli", [0.05, 0.0, 0.02])
        _NOISE[k] = nm
    return _NOISE[k]


def sg_check(st, hist, acc):
    from tangelo.linq import translate_circuit, get_backend
    from tangelo.toolboxes.operators import QubitOperator
    c = st.c
    d = descs(c)
    m = CMETA.meta(d)
    acc.ev()

    def cmp(field, got, want):
        if got != want:
            viol(acc, hist, f"invariant/{field}", {"reported": got, "recomputed": want, "gates": d})

    cmp("size", c.size, m["size"])
    cmp("counts", dict(c.counts), m["counts"])
    cmp("counts_n_qubit", dict(c.counts_n_qubit), m["counts_n_qubit"])
    cmp("is_variational", bool(c.is_variational), m["is_variational"])
    cmp("is_mixed_state", bool(c.is_mixed_state), m["is_mixed_state"])
    try:
        cmp("depth", c.depth(), m["depth"])
    except Exception as e:
        viol(acc, hist, "depth/exception", {"err": repr(e)})
    if c.width < m["min_width"]:
        viol(acc, hist, "invariant/width-below-max-index", {"width": c.width, "max_index+1": m["min_width"]})
    elif not st.fixed and c.width != m["min_width"]:
        viol(acc, hist, "invariant/width-not-tight", {"width": c.width, "max_index+1": m["min_width"]})
    ids = [id(g) for g in c._gates]
    want_var = [id(g) for g in c._gates if g.is_variational]
    if [id(g) for g in c._variational_gates] != want_var:
        viol(acc, hist, "invariant/variational-gates-not-the-members-of-gate-list",
             {"var_positions": [ids.index(id(g)) if id(g) in ids else -1 for g in c._variational_gates],
              "expected_positions": [i for i, g in enumerate(c._gates) if g.is_variational]})

    # read-only operations (self-loops)
    for tgt in ("cirq", "sympy", "ionq", "projectq"):
        with Unchanged(acc, hist, f"translate:{tgt}", [c]):
            translate_circuit(c, tgt)
    n_meas = m["counts"].get("MEASURE", 0)
    if c.width <= 6:
        with Unchanged(acc, hist, "simulate:cirq", [c]):
            be = get_backend("cirq")
            if n_meas:
                be.simulate(c, desired_meas_result="0" * n_meas)
            else:
                be.simulate(c, return_statevector=True)
        with Unchanged(acc, hist, "get_expectation_value:cirq", [c]):
            get_backend("cirq").get_expectation_value(QubitOperator("Z0", 1.0) + QubitOperator("X0", 0.5), c)
        # translating / simulating with a noise model attached (both channel types on every gate name present) is read-only too
        if not n_meas and not any(isinstance(g[3], str) and g[3] != "" for g in d):
            nm = noise_for(sorted(m["counts"]))
            with Unchanged(acc, hist, "translate:cirq+noise", [c]):
                translate_circuit(c, "cirq", output_options={"noise_model": nm})
            with Unchanged(acc, hist, "simulate:cirq+noise", [c]):
                get_backend("cirq", n_shots=1, noise_model=nm).simulate(c)
    if c.width <= 3 and c.size <= 3 and len(hist) <= 3:
        with Unchanged(acc, hist, "simulate:sympy", [c]):
            get_backend("sympy").simulate(c)
    for name, fn in (("depth", c.depth), ("serialize", c.serialize), ("iterate", lambda: list(c)), ("str", lambda: str(c)),
                     ("eq", lambda: c == c), ("entangled", c.get_entangled_indices)):
        with Unchanged(acc, hist, name, [c]):
            fn()
    acc.transitions += 13


# ---------------------------------------------------------------------------------------------------------------------
# E1: rejected constructions

def rejections(acc):
    from tangelo.linq import Gate, Circuit
    from tangelo.linq.gate import ONE_TARGET_GATES, TWO_TARGET_GATES
    one = sorted(ONE_TARGET_GATES)
    two = sorted(TWO_TARGET_GATES)
    cases = []
    for n in one:
        ctl_ok = 5 if n.startswith("C") else None
        par = 0.1
        for bad_t in (-1, 1.5, True, np.float64(1.0), [0, 1], [], [-2], [1.0], "0", np.array([1.5]), [np.float64(2.0)]):
            cases.append((n, bad_t, ctl_ok, par, "bad-target"))
        if n.startswith("C"):
            for bad_c in (-1, 2.5, True, [0, 0], [1.0], [3, 3], np.array([0.5]), [0]):
                # [0] duplicates the target 0
                cases.append((n, 0, bad_c, par, "bad-control"))
        else:
            cases.append((n, 0, 1, par, "control-on-uncontrolled-name"))
            cases.append((n, 0, [1, 2], par, "control-on-uncontrolled-name"))
    for n in two:
        ctl_ok = 5 if n.startswith("C") else None
        for bad_t in (0, [0], [0, 1, 2], [0, 0], [0, -1], [0, 1.0], [True, 0], [], [1, 1]):
            cases.append((n, bad_t, ctl_ok, 0.1, "bad-target"))
        if n.startswith("C"):
            for bad_c in (-1, [0], [1], 1.5, [5, 5]):
                cases.append((n, [0, 1], bad_c, 0.1, "bad-control"))
        else:
            cases.append((n, [0, 1], 2, 0.1, "control-on-uncontrolled-name"))
    for n, t, ctl, par, why in cases:
        acc.ev()
        acc.states += 1
        case = {"kind": "reject", "name": n, "target": runner.jsonable(t), "target_type": type(t).__name__,
                "control": runner.jsonable(ctl), "control_type": type(ctl).__name__, "why": why}
        try:
            g = Gate(n, t, ctl, par)
        except Exception:
            acc.nt(case)
            continue
        acc.violation(f"Gate.__init__/accepted/{why}", case, {"gate": repr(g)}, group=f"Gate.__init__/accepted/{why}")
    # valid constructions must be accepted (non-vacuity of the above)
    for n in one + two:
        t = [0, 1] if n in TWO_TARGET_GATES else 0
        ctl = [2, 3] if n.startswith("C") else None
        for tt in (t, np.array(t) if isinstance(t, list) else np.array([t])):
            acc.ev()
            try:
                Gate(n, tt, ctl, 0.1)
            except Exception as e:
                acc.violation("Gate.__init__/valid-rejected", {"kind": "valid", "name": n, "target": runner.jsonable(tt)}, {"err": repr(e)})
    # add_gate beyond a fixed width
    for nq in (1, 2, 3):
        for d in GATE_MENU:
            acc.ev()
            c = Circuit(n_qubits=nq)
            pre = canon_c(c)
            top = max(CMETA.qubits_of(d))
            try:
                c.add_gate(mk_gate(d))
                ok = True
            except Exception:
                ok = False
            case = {"kind": "add_fixed", "nq": nq, "gate": d}
            if top >= nq and ok:
                acc.violation("add_gate/out-of-range-index-accepted", case, None)
            if top < nq and not ok:
                acc.violation("add_gate/valid-rejected", case, None)
            if not ok and canon_c(c) != pre:
                acc.violation("add_gate/rejected-but-circuit-changed", case, {"after": canon_c(c)[0]})
            if not ok:
                acc.nt(case)


def replay_case(case):
    acc = Acc()
    if case.get("kind") == "hist":
        hist = case["hist"]
        st = sg_build(hist[0])
        sg_check(st, hist[:1], acc)
        for i, op in enumerate(hist[1:]):
            st = sg_step(st, op, acc, hist[:i + 2])
            sg_check(st, hist[:i + 2], acc)
    else:
        rejections(acc)
        acc.viol = {k: v for k, v in acc.viol.items() if v[1]["case"].get("kind") == case.get("kind")
                    and v[1]["case"].get("name") == case.get("name")} or acc.viol
    return acc


def bounds(tier, seed):
    return {"depth": 3 if tier == "quick" else 4, "gate_menu": GATE_MENU if tier == "quick" else [GATE_MENU[i] for i in GATE_MENU_SMALL],
            "starts": STARTS, "ops_per_state": len(sg_ops(None, None))}


def explore(tier, seed, jobs):
    import sys
    mod = sys.modules[__name__]
    if tier == "quick":
        depth = 3
        sg_ops.menu = list(range(len(GATE_MENU)))
    else:
        depth = 4
        sg_ops.menu = list(GATE_MENU_SMALL)
    acc = stategraph.explore(mod, STARTS, depth, jobs=jobs)
    rejections(acc)
    acc.sample({"kind": "hist", "hist": [STARTS[2], {"op": "add", "g": 4}, {"op": "ip_redundant"}, {"op": "trim"}]})
    acc.sample({"kind": "reject", "name": "CSWAP", "target": [0, 0], "control": 5})
    return acc


def selftest():
    CMETA.selftest()


if __name__ == "__main__":
    import sys
    runner.main(sys.modules[__name__])
