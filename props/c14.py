"""C14 - Qubit-reduction techniques keep the eigenvalue they are meant to keep.

(a) Z2 tapering: catalogue molecule x frozen pattern x encoding x ordering x target spin -> QubitTapering on the real qubit
    Hamiltonian; dense spectra of the original and of the tapered operator (numpy), sector minimum of the ORIGINAL problem
    computed from the fermionic Hamiltonian in the occupation-number basis (mc/ref/fermion.py; no qubit mapping involved).
(b) Trivial-qubit trimming: every assignment of a single-qubit gate pattern to 3 qubits (plus entangled pairs), fixed and free
    circuit width, x every 3-qubit Pauli word and a set of multi-term operators: <psi|O|psi> of the original pair vs the trimmed
    pair, both evaluated with mc/ref/statevec.py.
(c) Norm-based truncation: every subset (bounded size) of a commuting and of a non-commuting Pauli set x coefficients x epsilon
    x register size: sorted spectra (Weyl).
"""
import contextlib
import io
import itertools
import math

import numpy as np

from mc import runner
from mc.runner import Acc
from mc.ref import statevec as SV
from mc.ref import pauli as P
from mc.ref import fermion as F

PID = "C14"
DESIGN_REF = "DESIGN.md section 2 / C14"
ENGINE = "seqspace (catalogue product; exhaustive pattern assignment; bounded subset enumeration)"
RULE = ("(a) cases = molecule/frozen pattern x encoding(JW,BK,JKMN) x up_then_down(2) x target spin (all non-negative spins "
        "compatible with the electron number): QubitTapering on the real Hamiltonian; non-trivial = at least one qubit was "
        "removed (all of them), counters record cases with more than the two number-parity symmetries; "
        "(b) cases = circuit (pattern per qubit from a 15-letter alphabet on 3 qubits, or a 2-qubit entangling block + pattern on "
        "the third qubit; free or fixed width; gate order) x operator (64 Pauli words + multi-term operators); non-trivial = "
        "the trimmed circuit is narrower than the original, distinct = distinct circuit; "
        "(c) cases = register size x Pauli set x subset x coefficient vector x epsilon; non-trivial = the truncation removed "
        "at least one term")
ASSUMPTIONS = [
    "(a) molecules outside the catalogue, > 8 (quick) / > 12 (thorough) spin-orbitals, negative target spin, UHF (except one "
    "thorough case): not explored; geometries uniformly scaled by 1+0.05*d, d seed-derived",
    "(a) the (N,S_z) sector minimum of the original problem is computed from the fermionic Hamiltonian in the occupation basis; "
    "faithfulness of the fermion-to-qubit mapping is C03/C04's subject and is asserted here (sector minimum must occur in the "
    "spectrum of the untapered qubit operator, else harness error)",
    "(a) tolerances: multiset inclusion 1e-8; sector minimum (fermionic matrix vs qubit operator whose coefficients were "
    "thresholded at 1e-8 by the mapping) 1e-7",
    "(a) H + penalty operators: only checked when every term commutes with every symmetry generator reported by the object "
    "(commutation verified with mc/ref/pauli.py)",
    "(b) gate patterns outside the alphabet, > 3 active qubits, angles within 1e-5 of (but not equal to) odd multiples of pi: not "
    "explored; operators acting beyond the circuit width are skipped (Tangelo rejects them); string parameters are replaced "
    "by one numeric value in both circuits before simulation; tolerance 1e-9",
    "(c) real coefficients of equal sign from {1, 0.5, 0.25}; subsets of bounded size (all sizes only with equal coefficients); "
    "n_qubits argument = register size n in {1,2,3,4}; tolerance epsilon + 1e-9 on every sorted eigenvalue",
]
TOL_INCL = 1e-8
TOL_SECTOR = 1e-7
TOL_EXP = 1e-9
TOL_WEYL = 1e-9
PI = math.pi
ENCODINGS = ("JW", "BK", "JKMN")
ORDERINGS = (False, True)


# =====================================================================================================================
# (a) Z2 tapering
# =====================================================================================================================

def _chain(n, d):
    return [("H", (0.0, 0.0, round(i * d, 10))) for i in range(n)]


# name -> (geometry, charge, spin, basis, frozen_orbitals, uhf, tier)
Q, T = "quick", "thorough"
CATALOGUE = {
    "H2": (_chain(2, 0.74), 0, 0, "sto-3g", None, False, Q),
    "H2stretched": (_chain(2, 1.60), 0, 0, "sto-3g", None, False, Q),
    "H3+scalene": ([("H", (0.0, 0.0, 0.0)), ("H", (0.0, 0.0, 0.88)), ("H", (0.0, 0.79, 0.40))], 1, 0, "sto-3g", None, False, Q),
    "H3+isosceles": ([("H", (0.0, 0.0, -0.45)), ("H", (0.0, 0.0, 0.45)), ("H", (0.0, 0.95, 0.0))], 1, 0, "sto-3g", None, False, Q),
    "H3linear": (_chain(3, 0.93), 0, 1, "sto-3g", None, False, Q),
    "H3bent": ([("H", (0.0, 0.0, 0.0)), ("H", (0.0, 0.0, 0.93)), ("H", (0.0, 0.25, 1.90))], 0, 1, "sto-3g", None, False, Q),
    "H4chain": (_chain(4, 0.90), 0, 0, "sto-3g", None, False, Q),
    "H4asym": ([("H", (0.0, 0.0, 0.0)), ("H", (0.0, 0.0, 0.85)), ("H", (0.0, 0.0, 1.80)), ("H", (0.0, 0.0, 2.70))],
               0, 0, "sto-3g", None, False, Q),
    "H4rect": ([("H", (0.0, 0.0, 0.0)), ("H", (0.0, 0.0, 0.80)), ("H", (0.0, 1.25, 0.0)), ("H", (0.0, 1.25, 0.80))],
               0, 0, "sto-3g", None, False, Q),
    "H4triplet": (_chain(4, 0.90), 0, 2, "sto-3g", None, False, Q),
    "H4chain[f0]": (_chain(4, 0.90), 0, 0, "sto-3g", [0], False, Q),
    "H4chain[f3]": (_chain(4, 0.90), 0, 0, "sto-3g", [3], False, Q),
    "H4asym[f1,2]": ([("H", (0.0, 0.0, 0.0)), ("H", (0.0, 0.0, 0.85)), ("H", (0.0, 0.0, 1.80)), ("H", (0.0, 0.0, 2.70))],
                     0, 0, "sto-3g", [1, 2], False, Q),
    "LiH[f0,5]": ([("Li", (0.0, 0.0, 0.0)), ("H", (0.0, 0.0, 1.60))], 0, 0, "sto-3g", [0, 5], False, Q),
    "LiH[f0,4,5]": ([("Li", (0.0, 0.0, 0.0)), ("H", (0.0, 0.0, 1.60))], 0, 0, "sto-3g", [0, 4, 5], False, Q),
    "LiH[f0,3,4]": ([("Li", (0.0, 0.0, 0.0)), ("H", (0.0, 0.0, 1.60))], 0, 0, "sto-3g", [0, 3, 4], False, Q),
    "H2_631g": (_chain(2, 0.74), 0, 0, "6-31g", None, False, Q),
    # thorough: 10-12 spin-orbitals
    "LiH[f0]": ([("Li", (0.0, 0.0, 0.0)), ("H", (0.0, 0.0, 1.60))], 0, 0, "sto-3g", [0], False, T),
    "LiH": ([("Li", (0.0, 0.0, 0.0)), ("H", (0.0, 0.0, 1.60))], 0, 0, "sto-3g", None, False, T),
    "H2O[f0,1]": ([("O", (0.0, 0.0, 0.1173)), ("H", (0.0, 0.7572, -0.4692)), ("H", (0.0, -0.7572, -0.4692))],
                  0, 0, "sto-3g", [0, 1], False, T),
    "H5+chain": (_chain(5, 0.95), 1, 0, "sto-3g", None, False, T),
    "H6chain": (_chain(6, 0.95), 0, 0, "sto-3g", None, False, T),
    "H3bentUHF": ([("H", (0.0, 0.0, 0.0)), ("H", (0.0, 0.0, 0.93)), ("H", (0.0, 0.25, 1.90))], 0, 1, "sto-3g", None, True, T),
}
HEAVY = {"LiH[f0]", "LiH", "H2O[f0,1]", "H5+chain", "H6chain"}   # one shard per (encoding, ordering)
MEDIUM = {"H4chain", "H4asym", "H4rect", "H4triplet", "LiH[f0,5]", "H2_631g"}   # one shard per encoding


def geometry(name, seed):
    s = 1.0 + 0.05 * runner.seed_delta(seed)
    return [(el, tuple(round(s * x, 10) for x in xyz)) for el, xyz in CATALOGUE[name][0]]


@contextlib.contextmanager
def quiet_fds():
    import os
    import sys
    sys.stdout.flush()
    sys.stderr.flush()
    saved = [os.dup(1), os.dup(2)]
    null = os.open(os.devnull, os.O_WRONLY)
    try:
        os.dup2(null, 1)
        os.dup2(null, 2)
        yield
    finally:
        sys.stdout.flush()
        sys.stderr.flush()
        os.dup2(saved[0], 1)
        os.dup2(saved[1], 2)
        for fd in saved + [null]:
            os.close(fd)


def dense(terms, n):
    """Dense matrix of {word: coeff} on n qubits (qubit 0 = most significant bit).  Real array when every term is real
    (real coefficient, even number of Y) - halves memory and makes 12-qubit spectra affordable; otherwise mc/ref/pauli."""
    real_ok = all(abs(complex(c).imag) < 1e-14 and sum(1 for _, p in w if p == "Y") % 2 == 0 for w, c in terms.items())
    if not real_ok or n <= 8:
        return P.matrix(P.from_terms(terms), n)
    dim = 2 ** n
    idx = np.arange(dim)
    M = np.zeros((dim, dim))
    for w, c in terms.items():
        flip = 0
        ph = np.ones(dim, dtype=complex)
        for q, p in w:
            sh = n - 1 - q
            bit = (idx >> sh) & 1
            if p == "X":
                flip |= 1 << sh
            elif p == "Y":
                flip |= 1 << sh
                ph = ph * np.where(bit == 0, 1j, -1j)
            else:
                ph = ph * np.where(bit == 0, 1, -1)
        M[idx ^ flip, idx] += (complex(c) * ph).real
    return M


def spectrum(terms, n):
    M = dense(terms, n)
    anti = float(np.abs(M - M.conj().T).max()) if M.size else 0.0
    return np.linalg.eigvalsh((M + M.conj().T) / 2), anti


def multiset_missing(sub, sup, tol):
    """Elements of sorted `sub` that cannot be matched one-to-one with elements of sorted `sup` within tol (greedy)."""
    sub, sup = np.sort(np.asarray(sub, dtype=float)), np.sort(np.asarray(sup, dtype=float))
    j, missing = 0, []
    for x in sub:
        while j < len(sup) and sup[j] < x - tol:
            j += 1
        if j < len(sup) and abs(sup[j] - x) <= tol:
            j += 1
        else:
            missing.append(float(x))
    return missing


def fermion_sector_block(fterms, n, idx):
    """Matrix of the fermionic operator restricted to the kets `idx` (occupation basis, sign rule of mc/ref/fermion.py);
    also returns the largest |coefficient| that maps a sector ket outside the sector."""
    occs = [F.occ_of(i, n) for i in idx]
    pos = {i: k for k, i in enumerate(idx)}
    B = np.zeros((len(idx), len(idx)), dtype=complex)
    leak = 0.0
    for term, c in fterms.items():
        if c == 0:
            continue
        for k, occ in enumerate(occs):
            s, new = F.apply_term(term, occ)
            if s:
                j = pos.get(F.index_of(new))
                if j is None:
                    leak = max(leak, abs(c))
                else:
                    B[j, k] += s * c
    return B, leak


def sector_minimum(fterms, n, n_alpha, n_beta):
    idx = F.sector_indices(n, up_then_down=False, n_alpha=n_alpha, n_beta=n_beta)
    B, leak = fermion_sector_block(fterms, n, idx)
    if leak > 1e-9:
        raise RuntimeError(f"fermionic Hamiltonian does not conserve (n_alpha, n_beta): leak {leak}")
    return float(F.eigvals_hermitian(B, tol=1e-7)[0]), len(idx)


def spins_for(n_so, n_el):
    out = []
    for s in range(n_el % 2, n_el + 1, 2):
        na, nb = (n_el + s) // 2, (n_el - s) // 2
        if na <= n_so // 2 and nb >= 0:
            out.append(s)
    return out


def kernel_words(kernel, n):
    """Rows of a binary symplectic array [x | z] -> Pauli words."""
    out = []
    for row in np.asarray(kernel).astype(int):
        w = []
        for q in range(n):
            x, z = row[q], row[q + n]
            if x and z:
                w.append((q, "Y"))
            elif x:
                w.append((q, "X"))
            elif z:
                w.append((q, "Z"))
        out.append(tuple(w))
    return out


def words_commute(w1, w2):
    d2 = dict(w2)
    return sum(1 for q, p in w1 if q in d2 and d2[q] != p) % 2 == 0


class TaperCtx:
    def __init__(self, name, seed, acc):
        from tangelo import SecondQuantizedMolecule
        geom, q, spin, basis, frozen, uhf, _ = CATALOGUE[name]
        self.name, self.seed, self.acc = name, seed, acc
        with quiet_fds():
            self.mol = SecondQuantizedMolecule(geometry(name, seed), q=q, spin=spin, basis=basis, frozen_orbitals=frozen,
                                               uhf=uhf, symmetry=False)
            self.ferm = self.mol.fermionic_hamiltonian
        self.n = int(self.mol.n_active_sos)
        self.n_el = int(self.mol.n_active_electrons)
        self.fterms = dict(self.ferm.terms)
        self._emin = {}

    def emin(self, spin):
        if spin not in self._emin:
            self._emin[spin] = sector_minimum(self.fterms, self.n, (self.n_el + spin) // 2, (self.n_el - spin) // 2)
        return self._emin[spin]

    def case(self, enc, utd, spin):
        return {"kind": "taper", "mol": self.name, "seed": self.seed, "enc": enc, "utd": utd, "spin": spin}

    def bad(self, site, kind, case, detail):
        sig = f"{case['mol']}:{case['enc']}:{'utd' if case['utd'] else 'alt'}:spin{case['spin']}"
        self.acc.violation(f"{site}/{kind}/{sig}", dict(case, focus=f"{site}/{kind}"), detail, group=f"{site}/{kind}")

    def penalty_terms(self, enc, utd, spin):
        """1.5 (N - N0)^2 + 0.7 (S_z - sz0)^2 mapped by the same Tangelo call as the Hamiltonian (an input, not an oracle)."""
        from tangelo.toolboxes.operators import FermionOperator
        from tangelo.toolboxes.qubit_mappings.mapping_transform import fermion_to_qubit_mapping
        n = self.n
        N, Sz = FermionOperator(), FermionOperator()
        for p in range(n):
            N += FermionOperator(((p, 1), (p, 0)), 1.0)
            Sz += FermionOperator(((p, 1), (p, 0)), 0.5 if p % 2 == 0 else -0.5)
        dn = N - FermionOperator((), float(self.n_el))
        ds = Sz - FermionOperator((), spin / 2.0)
        pen = 1.5 * dn * dn + 0.7 * ds * ds
        return fermion_to_qubit_mapping(pen, enc, n_spinorbitals=n, n_electrons=self.n_el, up_then_down=utd, spin=spin)

    def run(self, encs=ENCODINGS, orderings=ORDERINGS, spins=None):
        from tangelo.toolboxes.qubit_mappings.mapping_transform import fermion_to_qubit_mapping
        from tangelo.toolboxes.operators.taper_qubits import QubitTapering
        from tangelo.toolboxes.operators import count_qubits, MultiformOperator
        acc, n, n_el = self.acc, self.n, self.n_el
        all_spins = spins_for(n, n_el)
        for enc in encs:
            for utd in orderings:
                hq = fermion_to_qubit_mapping(self.ferm, enc, n_spinorbitals=n, n_electrons=n_el, up_then_down=utd, spin=0)
                hterms = dict(hq.terms)
                ev_orig, anti = spectrum(hterms, n)
                if anti > 1e-6:
                    raise RuntimeError(f"qubit Hamiltonian not Hermitian ({self.name},{enc},{utd}): {anti}")
                acc.states += 1
                for spin in (all_spins if spins is None else spins):
                    case = self.case(enc, utd, spin)
                    acc.transitions += 1
                    e_sec, dim_sec = self.emin(spin)
                    if np.abs(ev_orig - e_sec).min() > TOL_SECTOR:
                        raise RuntimeError(f"sector minimum {e_sec} of the fermionic Hamiltonian is not an eigenvalue of the "
                                           f"untapered qubit operator ({case}): mapping unfaithful (C03/C04), C14 cannot decide")
                    hq_in = fermion_to_qubit_mapping(self.ferm, enc, n_spinorbitals=n, n_electrons=n_el, up_then_down=utd,
                                                     spin=0)
                    acc.ev()
                    try:
                        with contextlib.redirect_stderr(io.StringIO()):
                            qt = QubitTapering(hq_in, n, n_el, spin, enc, utd)
                        top = qt.z2_tapered_op
                        tq = top.qubitoperator
                        tterms = dict(tq.terms)
                        k = int(qt.z2_properties["n_symmetries"])
                        eigs = [int(round(float(np.real(x)))) for x in qt.z2_properties["eigenvalues"]]
                        nt_attr = int(top.n_qubits)
                        nt_used = int(count_qubits(tq))
                    except Exception as e:
                        import traceback
                        tb = traceback.extract_tb(e.__traceback__)[-1]
                        self.acc.violation(f"QubitTapering/exception/{type(e).__name__}@{tb.name}:{self.name}:{enc}:"
                                           f"{'utd' if utd else 'alt'}:spin{spin}",
                                           dict(case, focus="QubitTapering/exception"),
                                           {"err": repr(e)[:300], "where": f"{tb.filename}:{tb.lineno}"},
                                           group="QubitTapering/exception")
                        continue
                    # (2) qubit count
                    if nt_attr != n - k or nt_used > n - k or k < 1:
                        self.bad("QubitTapering", "qubit-count", case,
                                 {"n_qubits": n, "n_symmetries": k, "tapered.n_qubits": nt_attr, "qubits used": nt_used})
                        continue
                    acc.nt((self.name, enc, utd, spin))
                    acc.count("taper_cases")
                    if k > 2:
                        acc.count("taper_cases_with_more_than_2_symmetries")
                    acc.out((self.name, k, tuple(eigs)))
                    # (1) every eigenvalue of the tapered operator is an eigenvalue of the original (multiset)
                    ev_tap, anti_t = spectrum(tterms, n - k)
                    if anti_t > 1e-8:
                        self.bad("QubitTapering", "tapered-operator-not-hermitian", case, {"antihermitian part": anti_t})
                        continue
                    missing = multiset_missing(ev_tap, ev_orig, TOL_INCL)
                    if missing:
                        self.bad("QubitTapering", "eigenvalue-not-in-original-spectrum", case,
                                 {"n_missing": len(missing), "first_missing": missing[:4], "n_symmetries": k,
                                  "eigenvalues_used": eigs,
                                  "distance_to_original": [float(np.abs(ev_orig - x).min()) for x in missing[:4]]})
                    # (3) sector minimum retained
                    acc.ev()
                    d = float(np.abs(ev_tap - e_sec).min())
                    if d > TOL_SECTOR:
                        where = []
                        try:
                            for signs in itertools.product((1, -1), repeat=len(eigs)):
                                hq2 = fermion_to_qubit_mapping(self.ferm, enc, n_spinorbitals=n, n_electrons=n_el,
                                                               up_then_down=utd, spin=0)
                                t2 = qt.z2_taper(MultiformOperator.from_qubitop(hq2, n), eigenvalues=np.array(signs))
                                ev2, _ = spectrum(dict(t2.qubitoperator.terms), n - k)
                                if np.abs(ev2 - e_sec).min() <= TOL_SECTOR:
                                    where.append(list(signs))
                        except Exception as e:  # diagnosis only
                            where = [f"diagnosis failed: {e!r}"]
                        kind = "sector-minimum-lost(present-for-other-symmetry-eigenvalues)" if where else "sector-minimum-lost"
                        self.bad("QubitTapering", kind, case,
                                 {"sector": {"n_alpha": (n_el + spin) // 2, "n_beta": (n_el - spin) // 2, "dim": dim_sec},
                                  "sector_min(original, fermionic occupation basis)": e_sec,
                                  "closest tapered eigenvalue": float(ev_tap[np.abs(ev_tap - e_sec).argmin()]),
                                  "tapered min": float(ev_tap[0]), "distance": d, "eigenvalues_used": eigs,
                                  "sign choices whose block contains the sector minimum": where})
                    if spin == all_spins[0] and enc == "BK":
                        acc.sample(dict(case, n_qubits=n, n_symmetries=k, eigenvalues=eigs, sector_min=e_sec,
                                        tapered_min=float(ev_tap[0]), n_terms=[len(hterms), len(tterms)]), cap=1)
                    # (1b) z2_tapering(op) on the Hamiltonian itself and on H + penalties
                    acc.ev()
                    try:
                        hq3 = fermion_to_qubit_mapping(self.ferm, enc, n_spinorbitals=n, n_electrons=n_el, up_then_down=utd,
                                                       spin=0)
                        again = dict(qt.z2_tapering(hq3, n_qubits=n).terms)
                        if P.max_abs_diff(P.from_terms(again), P.from_terms(tterms)) > 1e-10:
                            self.bad("z2_tapering(H)", "differs-from-z2_tapered_op", case,
                                     {"max coefficient difference": P.max_abs_diff(P.from_terms(again), P.from_terms(tterms))})
                    except Exception as e:
                        self.bad("z2_tapering(H)", "exception", case, {"err": repr(e)[:300]})
                    if n <= 10:
                        self.penalty_check(qt, enc, utd, spin, hterms, k, e_sec, case)

    def penalty_check(self, qt, enc, utd, spin, hterms, k, e_sec, case):
        acc, n = self.acc, self.n
        try:
            pen = self.penalty_terms(enc, utd, spin)
        except Exception as e:
            raise RuntimeError(f"could not build the penalty operator: {e!r}")
        full = P.clean(P.add(P.from_terms(hterms), P.from_terms(dict(pen.terms))), 1e-12)
        syms = kernel_words(qt.initial_op.kernel, n) if getattr(qt.initial_op, "kernel", None) is not None else None
        if syms is None or not all(words_commute(w, s) for w in full for s in syms):
            acc.count("penalty_check_skipped(terms do not commute with the symmetries)")
            return
        from tangelo.toolboxes.operators import QubitOperator
        op = QubitOperator()
        for w, c in full.items():
            op += QubitOperator(w, c)
        acc.ev()
        try:
            tp = dict(qt.z2_tapering(op, n_qubits=n).terms)
        except Exception as e:
            self.bad("z2_tapering(H+penalty)", "exception", case, {"err": repr(e)[:300]})
            return
        ev_o, _ = spectrum(full, n)
        if any(q >= n - k for w in tp for q, _ in w):
            self.bad("z2_tapering(H+penalty)", "qubit-count", case, {"n_qubits": n, "n_symmetries": k})
            return
        ev_t, _ = spectrum(tp, n - k)
        missing = multiset_missing(ev_t, ev_o, TOL_INCL)
        acc.count("penalty_checks")
        if missing:
            self.bad("z2_tapering(H+penalty)", "eigenvalue-not-in-original-spectrum", case,
                     {"n_missing": len(missing), "first_missing": missing[:4]})
        elif float(np.abs(ev_t - e_sec).min()) > TOL_SECTOR:
            self.bad("z2_tapering(H+penalty)", "sector-minimum-lost", case,
                     {"sector_min": e_sec, "closest": float(ev_t[np.abs(ev_t - e_sec).argmin()])})


def run_taper_shard(sh):
    acc = Acc()
    cx = TaperCtx(sh["mol"], sh["seed"], acc)
    cx.run(encs=sh.get("encs", ENCODINGS), orderings=sh.get("utds", ORDERINGS))
    return acc


# =====================================================================================================================
# (b) trivial-qubit trimming
# =====================================================================================================================

def patterns(seed, tier):
    d = runner.seed_delta(seed)
    g = round(0.4 + 0.3 * d, 6)       # generic RZ angle
    h = round(0.3 + 0.3 * d, 6)       # generic RX angle (never a multiple of pi: 0.3 .. 0.6)
    pats = {
        "idle": [], "X": [("X", "")], "RXpi": [("RX", PI)], "RX3pi": [("RX", 3 * PI)], "Y": [("Y", "")], "Z": [("Z", "")],
        "RZ": [("RZ", g)], "RZs": [("RZ", "s")], "X.X": [("X", ""), ("X", "")], "Z.X": [("Z", ""), ("X", "")],
        "RZ.X": [("RZ", g), ("X", "")], "X.Z": [("X", ""), ("Z", "")], "RX": [("RX", h)], "H": [("H", "")],
        "X.H": [("X", ""), ("H", "")],
        # even multiples of pi: RX(2k pi) is +-identity, NOT a bit flip (only odd multiples are)
        "RX2pi": [("RX", 2 * PI)], "RX-2pi": [("RX", -2 * PI)], "RZ.RX2pi": [("RZ", g), ("RX", 2 * PI)],
        "X.RX4pi": [("X", ""), ("RX", 4 * PI)],
    }
    if tier == "thorough":
        pats.update({
            "RX-pi": [("RX", -PI)], "RYpi": [("RY", PI)], "RXpi.X": [("RX", PI), ("X", "")], "Z.RZs": [("Z", ""), ("RZ", "s")],
            "RZs.RXpi": [("RZ", "s"), ("RX", PI)], "X.Y": [("X", ""), ("Y", "")], "RX.X": [("RX", h), ("X", "")],
            "X.RX": [("X", ""), ("RX", h)], "H.Z": [("H", ""), ("Z", "")], "X.X.X": [("X", ""), ("X", ""), ("X", "")],
        })
    return pats, g, h


def two_gate_patterns(seed):
    """Every ordered pair over a single-gate alphabet: the two-gates-on-one-qubit branch of the trimming rules, exhaustively."""
    d = runner.seed_delta(seed)
    g, h = round(0.4 + 0.3 * d, 6), round(0.3 + 0.3 * d, 6)
    single = {"X": ("X", ""), "Y": ("Y", ""), "Z": ("Z", ""), "H": ("H", ""), "RXpi": ("RX", PI), "RX": ("RX", h),
              "RX2pi": ("RX", 2 * PI), "RYpi": ("RY", PI), "RY": ("RY", h), "RZ": ("RZ", g), "RZs": ("RZ", "s"), "S": ("S", "")}
    return {f"{a}.{b}": [single[a], single[b]] for a in single for b in single}


def ent_blocks(seed):
    d = runner.seed_delta(seed)
    a, b = round(0.3 + 0.3 * d, 6), round(0.7 + 0.2 * d, 6)
    # (name, parameter, role) role: "c" gate on the control qubit, "t" on the target, "ct" two-qubit gate target<-control
    return {
        "CNOT": [("CNOT", "", "ct")],
        "H.CNOT": [("H", "", "c"), ("CNOT", "", "ct")],
        "X.CNOT": [("X", "", "c"), ("CNOT", "", "ct")],
        "RX.CRY": [("RX", a, "c"), ("CRY", b, "ct")],
        "CRY.X": [("CRY", b, "ct"), ("X", "", "t")],
    }


PAIRS = [(0, 1), (1, 0), (0, 2), (2, 0), (1, 2), (2, 1)]


def build_word(pats, names, order, ent=None, blocks=None):
    """Gate descriptors. names: pattern name per qubit (None for qubits of the entangled pair)."""
    per_q = {q: [[nm, [q], None, par, False] for nm, par in pats[names[q]]] for q in range(3) if names[q] is not None}
    word = []
    if ent is not None:
        c, t = ent["pair"]
        for nm, par, role in blocks[ent["block"]]:
            if role == "ct":
                word.append([nm, [t], [c], par, False])
            else:
                word.append([nm, [c if role == "c" else t], None, par, False])
    if order == "layer":
        depth = max([len(v) for v in per_q.values()] + [0])
        for i in range(depth):
            for q in sorted(per_q):
                if i < len(per_q[q]):
                    word.append(per_q[q][i])
    elif order == "qubit":
        for q in sorted(per_q):
            word += per_q[q]
    elif order == "qubit-reversed":
        for q in sorted(per_q, reverse=True):
            word += per_q[q]
    else:
        raise ValueError(order)
    return word


LETTERS = "IXYZ"


def word_of(s):
    """'XIZ' -> ((0,'X'),(2,'Z'))"""
    return tuple((q, p) for q, p in enumerate(s) if p != "I")


def operators(seed):
    """List of (id, {word: coeff}).  64 words on 3 qubits, multi-term operators on 3 qubits, operators touching qubits 3,4."""
    d = runner.seed_delta(seed)
    a, b, c = round(0.7 + 0.1 * d, 6), round(-0.45 - 0.1 * d, 6), round(0.3 + 0.05 * d, 6)
    ops = []
    for s in itertools.product(LETTERS, repeat=3):
        s = "".join(s)
        ops.append((f"w:{s}", {word_of(s): 1.0}))
    multi = [
        {"III": c}, {"ZII": 1.0, "IZI": 1.0, "IIZ": 1.0}, {"ZZI": a, "IZZ": b, "III": c}, {"XII": a, "IYI": b, "IIZ": c},
        {"XXI": a, "YYI": b, "ZZI": c}, {"ZZZ": a, "XXX": b}, {"ZIZ": a, "XIX": b, "III": 1.0}, {"ZII": a, "XII": b},
        {"IZI": a, "IYI": b, "ZZI": c}, {"IIZ": a, "IIX": b, "ZIZ": c, "XIZ": 1.0}, {"ZZI": a, "ZIZ": a, "IZZ": a, "ZZZ": b},
        {"XYZ": a, "ZYX": b, "YYY": c}, {"ZXI": a, "IXZ": b, "ZXZ": c, "IXI": 1.0}, {"ZII": 1j * a, "IZI": b},
        {"ZZI": a + 0.5j, "III": -0.25j}, {"YII": a, "IZI": b, "YZI": c}, {"IZX": a, "IIX": b, "IZI": c},
        {"XZI": a, "YZI": b, "ZZI": c, "IZI": 1.0, "III": -1.0}, {"ZIY": a, "IIY": b, "ZII": c},
        {"ZZZ": 1.0, "ZZI": 0.5, "ZII": 0.25, "III": 0.125, "XII": a, "IXI": b, "IIX": c},
    ]
    for i, m in enumerate(multi):
        ops.append((f"m:{i}", {word_of(s): v for s, v in m.items()}))
    wide = [
        {"IIIZI": 1.0}, {"IIIIZ": 1.0}, {"ZIIIZ": a}, {"IIIXI": 1.0}, {"IIIIY": b}, {"ZIIZI": a, "IIIZZ": b, "IIZII": c},
        {"IZXZI": a, "IIXII": b}, {"XIIIZ": a, "ZIIZI": b, "IIIII": c}, {"ZZZZZ": a, "XIIII": b}, {"IIIXX": a, "ZIIII": b},
    ]
    for i, m in enumerate(wide):
        ops.append((f"x:{i}", {word_of(s): v for s, v in m.items()}))
    return ops


_WM = {}


def wmat(w, n):
    k = (w, n)
    m = _WM.get(k)
    if m is None:
        m = _WM[k] = P.word_matrix(w, n)
    return m


def subst(word, value):
    return [[nm, t, c, (value if isinstance(par, str) and par != "" else par), v] for nm, t, c, par, v in word]


def state_of(word, n, value):
    if n == 0:
        return np.ones(1, dtype=complex)
    return SV.run(subst(word, value), n)


def expect(psi, terms, n):
    tot = 0
    for w, c in terms.items():
        tot += c * np.vdot(psi, wmat(w, n) @ psi)
    return complex(tot)


def run_trim_circuit(circ_case, ops, acc, only_op=None):
    """circ_case: {"word", "nq", "names", "subst"}; evaluates every operator that fits in the circuit width."""
    from tangelo.linq import Circuit, Gate
    from tangelo.toolboxes.operators import QubitOperator
    from tangelo.toolboxes.operators.trim_trivial_qubits import trim_trivial_qubits, trim_trivial_circuit, trim_trivial_operator
    word, nq, val = circ_case["word"], circ_case["nq"], circ_case["subst"]
    circ = Circuit([Gate(nm, list(t), (None if c is None else list(c)), par, v) for nm, t, c, par, v in word], n_qubits=nq)
    used = {q for _, t, c, _, _ in word for q in list(t) + list(c or [])}
    W = nq if nq else (max(used) + 1 if used else 0)
    if int(circ.width) != W:
        raise RuntimeError(f"circuit width {circ.width} != expected {W}")
    psi = state_of(word, W, val)
    psi_t = {}
    sig = "+".join(sorted(set(circ_case["names"]))) if circ_case.get("names") else "?"
    acc.states += 1
    narrowed = False
    try:
        states0 = {int(q): int(b) for q, b in trim_trivial_circuit(circ)[1].items()}
    except Exception:
        states0 = None      # reported through trim_trivial_qubits below
    for oid, terms in ops:
        if only_op is not None and oid != only_op:
            continue
        if any(q >= W for w in terms for q, _ in w):
            acc.count("trim_skipped(operator wider than circuit)")
            continue
        case = {"kind": "trim", "circ": circ_case, "op": oid, "seed": circ_case["seed"], "tier": circ_case["tier"]}
        qop = QubitOperator()
        for w, c in terms.items():
            qop += QubitOperator(w, c)
        acc.ev()
        acc.transitions += 1
        try:
            top, tcirc = trim_trivial_qubits(qop, circ)
            tg = [SV.desc(g) for g in tcirc._gates]
            Wt = int(tcirc.width)
            tterms = {w: complex(c) for w, c in top.terms.items()}
        except Exception as e:
            acc.violation(f"trim_trivial_qubits/exception/{type(e).__name__}:{sig}", case, {"err": repr(e)[:300]},
                          group="trim_trivial_qubits/exception")
            continue
        if Wt > W or any(q >= Wt for g in tg for q in list(g[1]) + list(g[2] or [])):
            acc.violation(f"trim_trivial_qubits/trimmed-circuit-inconsistent/{sig}", case, {"gates": tg, "width": Wt},
                          group="trim_trivial_qubits/trimmed-circuit-inconsistent")
            continue
        if any(q >= Wt for w in tterms for q, _ in w):
            acc.violation(f"trim_trivial_qubits/operator-acts-outside-trimmed-circuit/{sig}", case,
                          {"trimmed_operator": P.to_str(tterms), "trimmed_width": Wt, "trimmed_gates": tg},
                          group="trim_trivial_qubits/operator-acts-outside-trimmed-circuit")
            continue
        key = repr(tg)
        if key not in psi_t:
            psi_t[key] = state_of(tg, Wt, val)
        e0 = expect(psi, terms, W)
        e1 = expect(psi_t[key], tterms, Wt)
        if Wt < W:
            narrowed = True
        if abs(e0 - e1) > TOL_EXP:
            acc.violation(f"trim_trivial_qubits/expectation-changed/{sig}:{oid.split(':')[0]}", case,
                          {"original": e0, "trimmed": e1, "trimmed_gates": tg, "trimmed_width": Wt,
                           "trimmed_operator": P.to_str(tterms), "patterns": circ_case.get("names")},
                          group="trim_trivial_qubits/expectation-changed")
        acc.out((Wt, len(tg), round(e0.real, 6)))
        if states0 is None:
            continue
        # the operator-only entry point: reindex=False keeps the register, so the ORIGINAL state must give the same value
        acc.ev()
        try:
            t2 = {w: complex(c) for w, c in trim_trivial_operator(qop, dict(states0), W, reindex=False).terms.items()}
            if any(q >= W for w in t2 for q, _ in w):
                raise IndexError("trimmed operator acts outside the register")
            e2 = expect(psi, t2, W)
            if abs(e0 - e2) > TOL_EXP:
                acc.violation(f"trim_trivial_operator(reindex=False)/expectation-changed/{sig}:{oid.split(':')[0]}", case,
                              {"original": e0, "trimmed": e2, "trim_states": states0, "trimmed_operator": P.to_str(t2)},
                              group="trim_trivial_operator(reindex=False)/expectation-changed")
        except Exception as e:
            acc.violation(f"trim_trivial_operator(reindex=False)/exception/{type(e).__name__}:{sig}", case,
                          {"err": repr(e)[:300], "trim_states": states0}, group="trim_trivial_operator(reindex=False)/exception")
        # trim_states is a dict: its meaning must not depend on the insertion order of its keys
        if len(states0) >= 2:
            acc.ev()
            rev = dict(reversed(list(states0.items())))
            try:
                t3 = {w: complex(c) for w, c in trim_trivial_operator(qop, rev, W, reindex=True).terms.items()}
                if P.max_abs_diff(t3, tterms) > 1e-12:
                    acc.violation(f"trim_trivial_operator/result-depends-on-key-order-of-trim_states/{oid.split(':')[0]}",
                                  dict(case, trim_states_order=list(rev)),
                                  {"trim_states (insertion order)": [[q, b] for q, b in rev.items()], "n_qubits": W,
                                   "operator": P.to_str(terms), "result": P.to_str(t3),
                                   "result with sorted keys": P.to_str(tterms)},
                                  group="trim_trivial_operator/result-depends-on-key-order-of-trim_states")
            except Exception as e:
                acc.violation(f"trim_trivial_operator/exception-with-unsorted-trim_states/{type(e).__name__}",
                              dict(case, trim_states_order=list(rev)), {"err": repr(e)[:300], "trim_states": list(rev.items())},
                              group="trim_trivial_operator/exception-with-unsorted-trim_states")
    if narrowed:
        acc.nt(("trim", repr(word), nq))
    return acc


def trim_circuits(sh):
    """Generator of circuit cases of one shard."""
    pats, _, _ = patterns(sh["seed"], sh["tier"])
    blocks = ent_blocks(sh["seed"])
    val = round(0.9 + runner.seed_delta(sh["seed"]), 6)
    names = list(pats)
    base = {"nq": sh["nq"], "subst": val, "seed": sh["seed"], "tier": sh["tier"]}
    if sh["kind"] == "trim2":
        tp = two_gate_patterns(sh["seed"])
        allp = dict(pats, **tp)
        others = ["idle", "X", "RX"]
        for i, nm in enumerate(tp):
            if i % sh["nparts"] != sh["part"]:
                continue
            for pos in range(3):
                for o1, o2 in itertools.product(others, repeat=2):
                    trip = [o1, o2]
                    trip.insert(pos, nm)
                    if pos > 0 and (o1, o2) != ("idle", "X"):
                        continue      # the two-gate pattern on qubits 1 and 2 with one fixed environment
                    yield dict(base, word=build_word(allp, trip, "layer"), names=trip, order="layer")
        return
    if sh["kind"] == "trim":
        for n1, n2 in itertools.product(names, repeat=2):
            trip = [sh["first"], n1, n2]
            for order in sh["orders"]:
                if order != "layer" and sum(1 for x in trip if len(pats[x]) > 0) < 2:
                    continue   # gate order cannot differ
                yield dict(base, word=build_word(pats, trip, order), names=trip, order=order)
    else:
        for blk in blocks:
            for pair in PAIRS:
                third = [q for q in range(3) if q not in pair][0]
                for nm in names:
                    trip = [None, None, None]
                    trip[third] = nm
                    for order in sh["orders"][:1]:
                        ent = {"pair": list(pair), "block": blk}
                        yield dict(base, word=build_word(pats, trip, "layer", ent, blocks), names=[nm, f"ent:{blk}"],
                                   order="layer", ent=ent)
                        # entangling block after the single-qubit pattern in the gate list
                        w = build_word(pats, trip, "layer") + build_word(pats, [None] * 3, "layer", ent, blocks)
                        if pats[nm]:
                            yield dict(base, word=w, names=[nm, f"ent:{blk}"], order="pattern-first", ent=ent)


def run_trim_shard(sh):
    acc = Acc()
    ops = operators(sh["seed"])
    n = 0
    for cc in trim_circuits(sh):
        run_trim_circuit(cc, ops, acc)
        n += 1
        if n == 7:
            acc.sample({"kind": "trim", "circ": cc, "op": "(all operators)"}, cap=1)
    acc.count("trim_circuits", n)
    return acc


# =====================================================================================================================
# (c) Frobenius-norm truncation
# =====================================================================================================================

def frob_sets(n):
    comm = []
    for bits in itertools.product((0, 1), repeat=n):
        comm.append(tuple((q, "Z") for q in range(n) if bits[q]))
    mixed = {
        1: ["", "X0", "Y0", "Z0"],
        2: ["", "X0", "Z0", "X1", "Z1", "Z0 Z1", "X0 X1", "Y0 Y1"],
        3: ["", "Z0", "X0", "Z0 Z1", "X1 X2", "Y0 Y2", "Z2", "X0 Y1 Z2"],
        4: ["", "Z0", "X0", "Z1 Z2", "X1 X3", "Y0 Y3", "Z3", "X0 X1 X2 X3", "Z0 Z1 Z2 Z3", "Y1 Y2"],
    }[n]
    return {"commuting": comm, "mixed": [P.word(s) if s else () for s in mixed]}


COEFS = (1.0, 0.5, 0.25)


def epsilons(seed):
    return [0.3, 0.75, 1.5, 3.0, round(1.0 + runner.seed_delta(seed), 6)]


def frob_cap(n, kind, tier):
    if n == 1:
        return 4
    if n == 2:
        return 4
    if n == 3:
        return 4
    return 4 if (tier == "thorough" or kind == "mixed") else 3


def frob_subsets(n, kind, tier):
    """(indices, coefficient tuple) in a deterministic order: all subsets up to the cap with every coefficient vector, then
    larger subsets with equal coefficients."""
    words = frob_sets(n)[kind]
    cap = frob_cap(n, kind, tier)
    m = len(words)
    for k in range(1, min(cap, m) + 1):
        for idx in itertools.combinations(range(m), k):
            for cf in itertools.product(COEFS, repeat=k):
                yield idx, cf
    big_ok = m <= 10 or tier == "thorough"
    if big_ok:
        for k in range(cap + 1, m + 1):
            for idx in itertools.combinations(range(m), k):
                for c in COEFS:
                    yield idx, (c,) * k


def run_frob_case(case, acc, mats=None):
    from tangelo.toolboxes.operators import QubitOperator
    n, eps = case["n"], case["eps"]
    ev0 = case.get("_ev0")
    case = {k: v for k, v in case.items() if not k.startswith("_")}
    words = [tuple((int(q), p) for q, p in w) for w in case["words"]]
    coefs = case["coefs"]
    if mats is None:
        mats = [P.word_matrix(w, n) for w in words]
    op = QubitOperator()
    for w, c in zip(words, coefs):
        op += QubitOperator(w, c)
    acc.ev()
    try:
        ret = op.frobenius_norm_compression(eps, n)
        kept = dict((ret if ret is not None else op).terms)
    except Exception as e:
        acc.violation(f"frobenius_norm_compression/exception/{type(e).__name__}", case, {"err": repr(e)[:300]},
                      group="frobenius_norm_compression/exception")
        return
    M0 = sum(c * m for c, m in zip(coefs, mats))
    if ev0 is None:
        ev0 = np.linalg.eigvalsh(M0)
    index = {w: i for i, w in enumerate(words)}
    M1 = np.zeros_like(M0)
    alien = [w for w in kept if w not in index]
    if alien or any(abs(complex(kept[w]) - coefs[index[w]]) > 1e-12 for w in kept):
        acc.violation(f"frobenius_norm_compression/terms-altered/n={n}", case, {"kept": P.to_str(kept)},
                      group="frobenius_norm_compression/terms-altered")
        return
    for w, c in kept.items():
        M1 = M1 + complex(c) * mats[index[w]]
    ev1 = np.linalg.eigvalsh(M1)
    shift = float(np.abs(ev1 - ev0).max())
    if len(kept) < len(words):
        acc.nt(("frob", n, tuple(words), tuple(coefs), eps))
    acc.out((n, len(words), len(kept)))
    if shift > eps + TOL_WEYL:
        dropped = {w: c for w, c in zip(words, coefs) if w not in kept}
        frob_true = float(np.sqrt(2 ** n * sum(abs(c) ** 2 for c in dropped.values())))
        acc.violation(f"frobenius_norm_compression/eigenvalue-shift-exceeds-epsilon/n={n}({'odd' if n % 2 else 'even'}):"
                      f"{case['set']}", case,
                      {"epsilon": eps, "max_shift": shift, "original_spectrum": ev0.tolist()[:8],
                       "truncated_spectrum": ev1.tolist()[:8], "dropped": P.to_str(dropped), "kept": P.to_str(kept),
                       "true Frobenius norm of the dropped part": frob_true, "factor used by the code": 2 ** (n // 2),
                       "2^(n/2)": 2 ** (n / 2)},
                      group="frobenius_norm_compression/eigenvalue-shift-exceeds-epsilon")


def run_frob_shard(sh):
    acc = Acc()
    n, kind = sh["n"], sh["set"]
    words = frob_sets(n)[kind]
    mats_all = [P.word_matrix(w, n) for w in words]
    eps_list = epsilons(sh["seed"])
    for i, (idx, cf) in enumerate(frob_subsets(n, kind, sh["tier"])):
        if i % sh["K"] != sh["j"]:
            continue
        ws = [words[a] for a in idx]
        mats = [mats_all[a] for a in idx]
        ev0 = np.linalg.eigvalsh(sum(c * m for c, m in zip(cf, mats)))
        acc.states += 1
        for eps in eps_list:
            case = {"kind": "frob", "n": n, "set": kind, "words": [list(map(list, w)) for w in ws], "coefs": list(cf),
                    "eps": eps, "_ev0": ev0}
            acc.transitions += 1
            run_frob_case(case, acc, mats)
        if i == 40 * sh["K"] + sh["j"] and sh["j"] == 0:
            acc.sample({"kind": "frob", "n": n, "set": kind, "words": ws, "coefs": list(cf), "eps": eps_list}, cap=1)
    return acc


# =====================================================================================================================
# runner interface
# =====================================================================================================================

def trim_widths(tier):
    """(fixed width or None, gate orders)"""
    if tier == "quick":
        return [(None, ["layer"]), (5, ["layer"])]
    return [(None, ["layer", "qubit-reversed"]), (5, ["layer", "qubit-reversed"]), (3, ["layer"])]


def shards(tier, seed):
    sh = []
    # (a)
    for name, spec in CATALOGUE.items():
        if spec[6] == T and tier != T:
            continue
        if name in HEAVY:
            for enc in ENCODINGS:
                for utd in ORDERINGS:
                    sh.append({"kind": "taper", "mol": name, "seed": seed, "encs": [enc], "utds": [utd], "w": 9})
        elif name in MEDIUM:
            for enc in ENCODINGS:
                sh.append({"kind": "taper", "mol": name, "seed": seed, "encs": [enc], "w": 6})
        else:
            sh.append({"kind": "taper", "mol": name, "seed": seed, "w": 3})
    # (b)
    pats, _, _ = patterns(seed, tier)
    for nq, orders in trim_widths(tier):
        for first in pats:
            sh.append({"kind": "trim", "first": first, "nq": nq, "orders": orders, "seed": seed, "tier": tier, "w": 5})
        sh.append({"kind": "trim-ent", "nq": nq, "orders": orders, "seed": seed, "tier": tier, "w": 5})
    for part in range(8):
        sh.append({"kind": "trim2", "nq": None, "orders": ["layer"], "seed": seed, "tier": tier, "part": part, "nparts": 8, "w": 5})
    # (c)
    for n in (1, 2, 3, 4):
        for kind in ("commuting", "mixed"):
            total = sum(1 for _ in frob_subsets(n, kind, tier))
            K = max(1, min(24, total // 6000))
            for j in range(K):
                sh.append({"kind": "frob", "n": n, "set": kind, "K": K, "j": j, "seed": seed, "tier": tier, "w": 4})
    sh.sort(key=lambda s: -s["w"])
    return sh


def run_shard(sh):
    if sh["kind"] == "taper":
        return run_taper_shard(sh)
    if sh["kind"] in ("trim", "trim-ent", "trim2"):
        return run_trim_shard(sh)
    if sh["kind"] == "frob":
        return run_frob_shard(sh)
    raise ValueError(sh["kind"])


def replay_case(case):
    acc = Acc()
    k = case.get("kind")
    if k == "taper":
        cx = TaperCtx(case["mol"], case["seed"], acc)
        cx.run(encs=(case["enc"],), orderings=(case["utd"],), spins=(case["spin"],))
    elif k == "trim":
        run_trim_circuit(case["circ"], operators(case["seed"]), acc, only_op=case["op"])
    elif k == "frob":
        run_frob_case(dict(case), acc)
    foc = case.get("focus")
    if foc:
        acc.viol = {key: v for key, v in acc.viol.items() if key.startswith(foc + "/")} or acc.viol
    return acc


def bounds(tier, seed):
    pats, g, h = patterns(seed, tier)
    return {
        "tier": tier,
        "tapering": {"molecules": {n: {"charge": s[1], "spin": s[2], "basis": s[3], "frozen": s[4], "uhf": s[5]}
                                   for n, s in CATALOGUE.items() if s[6] == Q or tier == T},
                     "encodings": list(ENCODINGS), "up_then_down": list(ORDERINGS),
                     "geometry_scale": round(1 + 0.05 * runner.seed_delta(seed), 6),
                     "target_spins": "all non-negative spins compatible with the active electron number"},
        "trimming": {"patterns": {k: [[a, (b if isinstance(b, str) else round(b, 6))] for a, b in v] for k, v in pats.items()},
                     "entangling_blocks": list(ent_blocks(seed)), "pairs": PAIRS,
                     "widths_and_gate_orders": trim_widths(tier),
                     "operators": len(operators(seed)), "string_parameter_value": round(0.9 + runner.seed_delta(seed), 6)},
        "truncation": {"n": [1, 2, 3, 4], "coefficients": list(COEFS), "epsilons": epsilons(seed),
                       "subset_cap": {f"{n}:{k}": frob_cap(n, k, tier) for n in (1, 2, 3, 4) for k in ("commuting", "mixed")},
                       "sets": {str(n): {k: [P.to_str({w: 1.0}) for w in v] for k, v in frob_sets(n).items()} for n in (1, 2, 3, 4)}},
        "tolerances": {"TOL_INCL": TOL_INCL, "TOL_SECTOR": TOL_SECTOR, "TOL_EXP": TOL_EXP, "TOL_WEYL": TOL_WEYL},
    }


def selftest():
    SV.selftest()
    P.selftest()
    F.selftest()
    # dense(): real fast path against mc/ref/pauli
    terms = {(): 0.3, ((0, "X"), (2, "Y"), (5, "Y")): 0.7, ((1, "Z"),): -0.4, ((0, "Y"), (1, "Y"), (8, "Z")): 0.25,
             ((2, "X"), (8, "X")): 1.1}
    assert np.allclose(dense(terms, 9), P.matrix(P.from_terms(terms), 9))
    assert dense(terms, 9).dtype == float
    # multiset inclusion
    assert multiset_missing([1.0, 1.0, 2.0], [0.5, 1.0, 1.0 + 1e-10, 2.0, 3.0], 1e-8) == []
    assert multiset_missing([1.0, 1.0], [1.0, 2.0], 1e-8) == [1.0]
    assert multiset_missing([], [1.0], 1e-8) == []
    # fermionic sector block against the full matrix of mc/ref/fermion
    op = {((0, 1), (2, 0)): 0.5, ((2, 1), (0, 0)): 0.5, ((1, 1), (1, 0)): -1.0, ((0, 1), (1, 1), (1, 0), (0, 0)): 0.25, (): 2.0}
    M = F.op_matrix(4, op)
    idx = F.sector_indices(4, False, n_alpha=1, n_beta=1)
    B, leak = fermion_sector_block(op, 4, idx)
    assert leak == 0.0 and np.allclose(B, F.restrict(M, idx))
    assert spins_for(8, 4) == [0, 2, 4] and spins_for(6, 3) == [1, 3] and spins_for(4, 2) == [0, 2]
    assert kernel_words(np.array([[1, 0, 0, 1], [1, 0, 1, 0]]), 2) == [((0, "X"), (1, "Z")), ((0, "Y"),)]
    assert words_commute(((0, "X"), (1, "Z")), ((0, "Z"), (1, "X"))) and not words_commute(((0, "X"),), ((0, "Z"),))
    # the Weyl premise used in (c): ||D||_2 <= ||D||_F = 2^(n/2) sqrt(sum c^2)
    D = 0.5 * P.word_matrix(P.word("Z0"), 2) + 0.25 * P.word_matrix(P.word("X1"), 2)
    assert abs(np.linalg.norm(D, "fro") - 2 * math.sqrt(0.25 + 0.0625)) < 1e-12
    assert np.linalg.norm(D, 2) <= np.linalg.norm(D, "fro") + 1e-12


if __name__ == "__main__":
    import sys
    runner.main(sys.modules[__name__])
