"""C05 - Reference-state circuits encode the requested occupations.

E1, exhaustive: every (encoding, n_spinorbitals, ordering, n_electrons, spin | spin=None) for get_reference_circuit, and
every occupation vector up to the length bound for get_mapped_vector + vector_to_circuit.  The prepared basis state is
read off the circuit (which must consist of X gates only, on a register of the encoding's width) and evaluated, with
mc.ref.pauli, against the *encoded* occupation-number operators fermion_to_qubit_mapping(a_p^ a_p) of every spin-orbital
p (same encoding, same ordering, and - for scBK - the electron number and spin of the requested occupation):
expectation exactly 1 for requested orbitals, 0 for the others.
"""
import itertools
import re
import warnings

import numpy as np

from mc import runner
from mc.runner import Acc
from mc.ref import fermion as F
from mc.ref import pauli as P

PID = "C05"
DESIGN_REF = "DESIGN.md section 2 / C05"
ENGINE = "seqspace (exhaustive inputs: encoding x size x ordering x electrons x spin; all occupation vectors)"
RULE = ("cases = every (encoding, n, up_then_down, n_electrons, spin or None) for get_reference_circuit, every occupation "
        "vector (numpy array and list form) of length <= L for get_mapped_vector -> vector_to_circuit, every 0/1 vector "
        "for vector_to_circuit alone; each compared, orbital by orbital, with the encoded number operators. Non-trivial: "
        "the qubit bit pattern differs from the occupation vector that was requested (the state encoder had to do "
        "something: re-ordering, parity sums, qubit removal, tree relabelling); distinct = distinct (call, encoding, "
        "ordering, requested occupation, spin argument)")
ASSUMPTIONS = [
    "n_spinorbitals in coverage.bounds (even, <= 8 quick / <= 14 thorough for reference circuits); occupation vectors of "
    "length <= 6 (quick) / <= 10 and 12, 13 (thorough); odd lengths only where the ordering does not need an even register",
    "admissible spin = n_alpha - n_beta with n_alpha + n_beta = n_electrons and 0 <= n_alpha, n_beta <= n/2; "
    "spin=None means the documented default filling (first n_electrons spin-orbitals, alpha first)",
    "requested occupation for (n_electrons, spin) = aufbau set: the n_alpha lowest alpha and n_beta lowest beta "
    "spin-orbitals (docstring of get_vector), in the interleaved input convention (mode 2i = alpha_i, 2i+1 = beta_i)",
    "for scBK the number operators are encoded with n_electrons/spin of the requested occupation (spin=None -> "
    "n_electrons mod 2, the spin of the default filling)",
    "the state of an X-only circuit on |0..0> is the basis state with bit q = (number of X on q) mod 2; simulators are "
    "C01's subject. Expectations compared at 1e-12",
]
TOL = 1e-12
MAPPINGS = ("JW", "BK", "scBK", "JKMN")


def slug(s, n=48):
    return re.sub(r"[^A-Za-z0-9]+", "-", str(s)).strip("-")[:n]


def _preimport():
    from tangelo.toolboxes.operators import FermionOperator  # noqa: F401
    from tangelo.toolboxes.qubit_mappings import statevector_mapping  # noqa: F401
    from tangelo.toolboxes.qubit_mappings.mapping_transform import fermion_to_qubit_mapping  # noqa: F401


def width(mapping, n):
    return n - 2 if mapping.upper() == "SCBK" else n


def aufbau(n, na, nb):
    """Interleaved occupation vector with the na lowest alpha and nb lowest beta spin-orbitals filled."""
    occ = [0] * n
    for i in range(na):
        occ[F.mode_of(i, 0, n, False)] = 1
    for i in range(nb):
        occ[F.mode_of(i, 1, n, False)] = 1
    return occ


def admissible(n):
    """All (N, spin, na, nb) with 0 <= na, nb <= n/2."""
    out = []
    for N in range(n + 1):
        for na in range(n // 2 + 1):
            nb = N - na
            if 0 <= nb <= n // 2:
                out.append((N, na - nb, na, nb))
    return out


# ---------------------------------------------------------------------------------------------------------------------
# real code

class Ctx:
    def __init__(self, acc):
        self.acc = acc
        self.numops = {}

    def bad(self, site, kind, sig, grp, case, detail):
        self.acc.violation(f"{site}/{kind}/{sig}", case, detail, group=f"{site}/{kind}/{grp}" if grp else f"{site}/{kind}")

    def number_ops(self, mapping, n, utd, N, spin, case):
        """Encoded a_p^ a_p for every spin-orbital p (interleaved labels) -> list of mc.ref.pauli operators, or None."""
        k = (mapping, n, utd) + ((N, spin) if mapping.upper() == "SCBK" else ())
        if k in self.numops:
            return self.numops[k]
        from tangelo.toolboxes.operators import FermionOperator
        from tangelo.toolboxes.qubit_mappings.mapping_transform import fermion_to_qubit_mapping
        ops = []
        try:
            for p in range(n):
                with warnings.catch_warnings():
                    warnings.simplefilter("ignore")
                    kw = {} if spin is None else {"spin": spin}      # None: the argument is left at its default
                    q = fermion_to_qubit_mapping(FermionOperator(((p, 1), (p, 0)), 1.0), mapping, n_spinorbitals=n,
                                                 n_electrons=N, up_then_down=utd, **kw)
                ops.append(P.from_terms(q.terms))
        except Exception as e:
            self.bad("fermion_to_qubit_mapping", f"exception/{type(e).__name__}:{slug(e)}", f"{mapping},n={n},utd={utd}", "",
                     case, {"err": repr(e)[:300], "orbital": p})
            ops = None
        self.numops[k] = ops
        return ops


def read_circuit(circ):
    """-> (bits, problems). bits[q] = parity of the number of X gates on q."""
    problems = []
    w = circ.width
    bits = [0] * w
    for g in circ._gates:
        ctrl = g.control
        if g.name != "X" or (ctrl not in (None, [])) or len(g.target) != 1:
            problems.append(f"gate {g.name} target={g.target} control={ctrl}")
            continue
        t = g.target[0]
        if not 0 <= t < w:
            problems.append(f"X on qubit {t} outside width {w}")
            continue
        bits[t] ^= 1
    return bits, problems


def compare(cx, site, case, mapping, n, utd, N, spin_op, circ, requested, sig, grp):
    """Oracle shared by all call sites: circuit -> basis state -> expectation of every encoded number operator."""
    acc = cx.acc
    W = width(mapping, n)
    bits, problems = read_circuit(circ)
    if problems:
        cx.bad(site, "not-an-X-only-circuit", sig, grp, case, {"problems": problems[:5]})
        return None
    if circ.width != W:
        cx.bad(site, "wrong-register-width", sig, grp, case, {"width": circ.width, "expected": W, "bits": bits})
        return None
    ops = cx.number_ops(mapping, n, utd, N, spin_op, case)
    if ops is None:
        return None
    got = []
    for p in range(n):
        acc.ev()
        outside = [q for q in P.support(ops[p]) if q >= W]
        if outside:
            cx.bad("fermion_to_qubit_mapping", "acts-outside-register", f"{mapping},n={n},utd={utd}", mapping, case,
                   {"orbital": p, "qubits": outside})
            return None
        got.append(P.expectation_basis(ops[p], bits))
    wrong = [p for p in range(n) if abs(got[p] - requested[p]) > TOL]
    if wrong:
        cx.bad(site, "occupation-mismatch", sig, grp, case,
               {"requested": list(requested), "qubit_bits": bits,
                "expectation_of_encoded_number_operators": [round(complex(x).real, 12) for x in got],
                "wrong_orbitals": wrong, "number_operator_of_first_wrong": P.to_str(ops[wrong[0]])[:200]})
    return bits


def run_ref(cx, case):
    """get_reference_circuit(n, N, mapping, utd, spin)"""
    from tangelo.toolboxes.qubit_mappings.statevector_mapping import get_reference_circuit
    acc = cx.acc
    m, n, utd, N, spin = case["mapping"], case["n"], case["utd"], case["N"], case["spin"]
    if spin is None:
        requested = [1] * N + [0] * (n - N)
        spin_op = N % 2
    else:
        na, nb = (N + spin) // 2, (N - spin) // 2
        requested = aufbau(n, na, nb)
        spin_op = spin
    sig = f"{m},n={n},utd={utd},N={N},spin={spin}"
    grp = f"{m}"
    case = dict(case, word=list(requested))   # "word" = size measure used by the runner to keep the smallest witness
    acc.transitions += 1
    try:
        with warnings.catch_warnings():
            warnings.simplefilter("ignore")
            circ = get_reference_circuit(n, N, m, up_then_down=utd, spin=spin)
    except Exception as e:
        cx.bad("get_reference_circuit", f"exception/{type(e).__name__}:{slug(e)}", sig, "", case, {"err": repr(e)[:300]})
        return
    bits = compare(cx, "get_reference_circuit", case, m, n, utd, N, spin_op, circ, requested, sig, grp)
    if spin is None and m.upper() == "SCBK":
        # spin left at its default on both sides (circuit and operators): the documented default filling must still be what the
        # occupation operators see
        compare(cx, "get_reference_circuit", dict(case, operators_spin="default"), m, n, utd, N, None, circ, requested,
                sig + ",operators-with-default-spin", grp)
    if bits is not None:
        acc.out((m, tuple(bits)))
        if list(bits) + [0] * (n - len(bits)) != list(requested):
            acc.nt(("ref", m, n, utd, N, spin))
        if case.get("sample"):
            acc.sample({"call": f"get_reference_circuit({n}, {N}, '{m}', up_then_down={utd}, spin={spin})",
                        "requested_occupation(interleaved)": requested, "X_gates_on_qubits": [q for q, b in enumerate(bits) if b],
                        "width": len(bits), "encoded_number_operators": [P.to_str(o) for o in
                                                                          cx.number_ops(m, n, utd, N, spin_op, case)][:4]},
                       cap=1)


def run_vec(cx, case):
    """get_mapped_vector(vector, mapping, utd) -> vector_to_circuit"""
    from tangelo.toolboxes.qubit_mappings.statevector_mapping import get_mapped_vector, vector_to_circuit
    acc = cx.acc
    m, utd, vec, form = case["mapping"], case["utd"], list(case["vector"]), case["form"]
    n = len(vec)
    N = sum(vec)
    spin = sum(vec[0::2]) - sum(vec[1::2])
    sig = f"{m},n={n},utd={utd},form={form}"
    grp = f"{m}"
    arg = np.array(vec, dtype=int) if form == "array" else list(vec)
    case = dict(case, word=list(vec))
    acc.transitions += 1
    try:
        with warnings.catch_warnings():
            warnings.simplefilter("ignore")
            mv = get_mapped_vector(arg, m, utd)
    except Exception as e:
        cx.bad("get_mapped_vector", f"exception/{type(e).__name__}:{slug(e)}", sig, "", case, {"err": repr(e)[:300]})
        return
    acc.transitions += 1
    try:
        circ = vector_to_circuit(mv)
    except Exception as e:
        cx.bad("vector_to_circuit", f"exception/{type(e).__name__}:{slug(e)}", sig, "", case,
               {"err": repr(e)[:300], "mapped_vector": repr(mv)})
        return
    # the caller's vector must not be touched, and a second use of the SAME object must give the same encoding
    acc.ev()
    if list(np.asarray(arg).tolist()) != vec:
        cx.bad("get_mapped_vector", "argument-mutated", sig, "", case, {"before": vec, "after": np.asarray(arg).tolist()})
    else:
        try:
            with warnings.catch_warnings():
                warnings.simplefilter("ignore")
                mv2 = get_mapped_vector(arg, m, utd)
            if [int(x) for x in mv2] != [int(x) for x in mv]:
                cx.bad("get_mapped_vector", "second-call-on-same-object-differs", sig, "", case,
                       {"first": [int(x) for x in mv], "second": [int(x) for x in mv2]})
        except Exception as e:
            cx.bad("get_mapped_vector", f"second-call-exception/{type(e).__name__}", sig, "", case, {"err": repr(e)[:200]})
    mv_before = [int(x) for x in mv]
    bits = compare(cx, "get_mapped_vector", case, m, n, utd, N, spin, circ, vec, sig, grp)
    if [int(x) for x in mv] != mv_before:
        cx.bad("vector_to_circuit", "argument-mutated", sig, "", case, {"before": mv_before, "after": [int(x) for x in mv]})
    if bits is not None:
        acc.out((m, tuple(bits)))
        if list(bits) + [0] * (n - len(bits)) != vec:
            acc.nt(("vec", m, utd, tuple(vec), form))
        if case.get("sample"):
            acc.sample({"call": f"vector_to_circuit(get_mapped_vector({vec}, '{m}', up_then_down={utd}))",
                        "mapped_vector": [int(x) for x in mv], "X_gates_on_qubits": [q for q, b in enumerate(bits) if b],
                        "width": len(bits)}, cap=1)


def run_v2c(cx, case):
    """vector_to_circuit(v) alone: X exactly on the qubits where v is 1, width len(v)."""
    from tangelo.toolboxes.qubit_mappings.statevector_mapping import vector_to_circuit
    acc = cx.acc
    vec, form = list(case["vector"]), case["form"]
    arg = {"array": lambda: np.array(vec, dtype=int), "float_array": lambda: np.array(vec, dtype=float),
           "list": lambda: list(vec)}[form]()
    acc.transitions += 1
    acc.ev()
    try:
        circ = vector_to_circuit(arg)
    except Exception as e:
        cx.bad("vector_to_circuit", f"exception/{type(e).__name__}:{slug(e)}", f"form={form}", "", case, {"err": repr(e)[:300]})
        return
    bits, problems = read_circuit(circ)
    if problems or bits != vec or circ.width != len(vec):
        cx.bad("vector_to_circuit", "wrong-circuit", f"form={form}", "", case,
               {"problems": problems[:5], "bits": bits, "width": circ.width})
    if any(vec):
        acc.nt(("v2c", tuple(vec), form))
    acc.out(("v2c", tuple(bits)))


# ---------------------------------------------------------------------------------------------------------------------

def sizes(tier):
    # 13 = first register size at which the JKMN ternary tree gains a level (after 4); 12 = largest even size below it
    return {"ref_n": (2, 4, 6, 8) if tier == "quick" else (2, 4, 6, 8, 10, 12, 14),
            "vec_len": (1, 2, 3, 4, 5, 6) if tier == "quick" else (1, 2, 3, 4, 5, 6, 7, 8, 9, 10, 12, 13)}


def ref_cases(m, n, utd):
    cs = []
    for N, spin, na, nb in admissible(n):
        cs.append({"kind": "ref", "mapping": m, "n": n, "utd": utd, "N": N, "spin": spin})
    for N in range(n + 1):
        cs.append({"kind": "ref", "mapping": m, "n": n, "utd": utd, "N": N, "spin": None})
    return cs


def vec_ok(m, L, utd):
    if L % 2 and (utd or m.upper() == "SCBK"):
        return False
    return True


def shards(tier, seed):
    _preimport()
    sz = sizes(tier)
    sh = []
    for m in MAPPINGS:
        for utd in (False, True):
            for n in sz["ref_n"]:
                sh.append({"kind": "ref", "mapping": m, "n": n, "utd": utd})
            for L in sz["vec_len"]:
                if vec_ok(m, L, utd):
                    k = max(1, 2 ** L // 256)
                    for c in range(k):
                        sh.append({"kind": "vec", "mapping": m, "n": L, "utd": utd, "chunk": c, "nchunks": k})
    sh.append({"kind": "v2c", "max_len": max(sz["vec_len"])})
    sh.sort(key=lambda s: -s.get("n", 0))
    return sh


def run_shard(sh):
    acc = Acc()
    cx = Ctx(acc)
    if sh["kind"] == "ref":
        cases = ref_cases(sh["mapping"], sh["n"], sh["utd"])
        for i, case in enumerate(cases):
            acc.states += 1
            if sh["n"] == 6 and case["N"] == 3 and case["spin"] == -1:
                case = dict(case, sample=True)
            run_ref(cx, case)
        acc.count("reference_circuit_cases", len(cases))
    elif sh["kind"] == "vec":
        L = sh["n"]
        vecs = list(itertools.product((0, 1), repeat=L))[sh["chunk"]::sh["nchunks"]]
        for v in vecs:
            for form in ("array", "list"):
                acc.states += 1
                case = {"kind": "vec", "mapping": sh["mapping"], "utd": sh["utd"], "vector": list(v), "form": form}
                if L == 6 and v == (1, 0, 0, 1, 1, 1) and form == "array":
                    case["sample"] = True
                run_vec(cx, case)
        acc.count("occupation_vector_cases", 2 * len(vecs))
    else:
        for L in range(1, min(sh["max_len"], 10) + 1):
            for v in itertools.product((0, 1), repeat=L):
                for form in ("array", "float_array", "list"):
                    acc.states += 1
                    run_v2c(cx, {"kind": "v2c", "vector": list(v), "form": form})
                    acc.count("vector_to_circuit_cases")
    return acc


def replay_case(case):
    acc = Acc()
    cx = Ctx(acc)
    {"ref": run_ref, "vec": run_vec, "v2c": run_v2c}[case["kind"]](cx, case)
    return acc


def bounds(tier, seed):
    sz = sizes(tier)
    return {"tier": tier, "encodings": list(MAPPINGS), "up_then_down": [False, True],
            "reference_circuits": {"n_spinorbitals": list(sz["ref_n"]), "n_electrons": "0..n",
                                   "spin": "every admissible n_alpha - n_beta (both signs) and None"},
            "occupation_vectors": {"lengths": list(sz["vec_len"]), "forms": ["numpy int array", "list"],
                                   "odd lengths": "JW/BK/JKMN with up_then_down=False only"},
            "vector_to_circuit": "every 0/1 vector up to the same length, int array / float array / list",
            "tolerance": TOL, "seed_dependent_values": "none (the input space is discrete)"}


def selftest():
    P.selftest()
    F.selftest()
    assert aufbau(6, 2, 1) == [1, 1, 1, 0, 0, 0] and aufbau(6, 1, 3) == [1, 1, 0, 1, 0, 1]
    assert (3, -1, 1, 2) in admissible(4) and (3, 3, 3, 0) not in admissible(4) and len(admissible(4)) == 9
    # the oracle's expectation rule on a hand-made Jordan-Wigner number operator: n_p = (1 - Z_p)/2
    num = {(): 0.5, ((1, "Z"),): -0.5}
    assert P.expectation_basis(num, [0, 1, 0]) == 1 and P.expectation_basis(num, [1, 0, 1]) == 0


if __name__ == "__main__":
    import sys
    runner.main(sys.modules[__name__])
