"""C13 - Reduced density matrices reproduce energies and electron counts.

E1 over a catalogue: the FULL product  molecule x reference (RHF/ROHF, UHF) x frozen-orbital pattern x solver
{FCISolver, CCSDSolver, MP2Solver, VQESolver(UCCSD | UpCCGSD)} and, for the variational solver, x encoding x ordering x
parameter-vector alphabet x RDM form (spin-summed, spin-orbital, get_rdm_uhf) (+ rdms.compute_rdms at the dense point).

Real code: <solver>.simulate()/energy_estimation(theta), <solver>.get_rdm / get_rdm_uhf, SecondQuantizedMolecule.
energy_from_rdms, rdms.energy_from_rdms, rdms.compute_rdms, rdms.pad_rdms_with_frozen_orbitals_restricted/_unrestricted,
get_full_space_integrals.

Oracle (numpy + PySCF integrals only, mc/ref/chem.py): the RDMs returned by the real code are contracted in the harness
with active-space integrals obtained from the PySCF AO integrals by the textbook frozen-core fold
(E = E_core + sum h_pq g_pq + 1/2 sum (pq|rs) G_pqrs, chemist order G_pqrs = <p+ r+ s q>, the convention both the FCI/CC
docstrings (PySCF) and get_rdm's `rdm2[i,l,j,k] += <i+ j+ k l>` state) and compared with the energy the solver reported
at the same point; the API contractions are compared with that reference contraction; Hermiticity, traces and the padding
helper are checked on the returned arrays directly.
"""
import contextlib
import io

import copy
import numpy as np

from mc import runner
from mc.runner import Acc
from mc.ref import chem as CH
from mc.ref import pauli as P

PID = "C13"
DESIGN_REF = "DESIGN.md section 2 / C13"
ENGINE = "seqspace (full product of a finite catalogue)"
RULE = ("cases = molecule x reference(RHF/ROHF, UHF) x frozen pattern x solver(FCI, CCSD, MP2, VQE-UCCSD, VQE-UpCCGSD); VQE "
        "additionally x encoding x up_then_down x parameter vector(zero, dense, one-hot, alternating) x RDM form "
        "(sum_spin=True, sum_spin=False, get_rdm_uhf) plus compute_rdms at the dense vector; each case compares the energy "
        "obtained by contracting the returned RDMs with independent PySCF integrals, the two API contractions "
        "(mol.energy_from_rdms, rdms.energy_from_rdms), Hermiticity, traces (when the state is an eigenstate of the "
        "particle-number operators) and the padding helpers (argument immutability, trace, energy with the full-space "
        "integrals); a case is non-trivial when the state is correlated (|E - E_meanfield| > 1e-6 Ha) or orbitals are "
        "frozen or the reference is open-shell / unrestricted; distinct = distinct (molecule, reference, frozen, solver "
        "configuration, parameter vector, form)")
ASSUMPTIONS = [
    "molecules/basis sets outside the catalogue (sto-3g; H2, H3 doublet, H4 chain singlet/triplet, LiH, H2O), VQE on more "
    "than 8 active spin-orbitals, ansaetze other than UCCSD/UpCCGSD, shot-based / resample=True / noisy RDM evaluation, "
    "a non-default ref_state circuit and the Psi4 back-ends are not explored",
    "parameter vectors: all-zero, dense g+0.011*i, one-hot (last parameter; thorough also the first), alternating sign "
    "g*(-1)^i*(1+0.05*(i mod 7)); g = 0.2 + 0.05*d, d = (VERIF_SEED mod 997)*1e-3 is the only seed-dependent value",
    "tolerances: 1e-7 Ha for FCI, MP2 and VQE energy identities, 1e-6 Ha for CCSD (t/lambda amplitudes converged to "
    "1e-7), 1e-8 on Hermiticity residuals, 1e-7 on traces",
    "Hermiticity of a 2-RDM in the stated (chemist) order G[p,q,r,s] = <p+ r+ s q> means G[p,q,r,s] = conj(G[q,p,s,r]); "
    "the particle-exchange symmetry G[p,q,r,s] = G[r,s,p,q] is not part of the statement and only counted "
    "(counter particle_exchange_asymmetric)",
    "premise 'the state conserves the number of active electrons' (traces): the prepared statevector has <N> = n and "
    "<N^2> = n^2 (likewise N_alpha, N_beta) to 1e-9, N summed over the PHYSICAL active spin-orbitals (the register of a UHF "
    "molecule with unequal alpha/beta active spaces contains padding modes); JW: decided from the bit populations of the "
    "amplitudes alone; BK/scBK/JKMN: with the number operators encoded by fermion_to_qubit_mapping using the ACTIVE spin "
    "(faithfulness of the encodings is C03's subject), evaluated in numpy on the statevector; whether an ansatz conserves "
    "N (Trotterised UCCSD/UpCCGSD under BK/scBK/JKMN often do not; UpCCGSD populates padding modes) is C12's subject; "
    "classical solvers always satisfy the premise",
    "padding helpers are judged against their input: E(padded, full-space integrals) == E(input, active-space integrals) "
    "and trace(padded) == trace(input) + frozen electrons, so that a defective input RDM is not reported twice",
    "the reference contraction uses PySCF AO integrals folded with the frozen-occupied density (mc/ref/chem.py); that "
    "Tangelo's own integrals agree with it is C04's subject",
    "MP2Solver.get_rdm raises RuntimeError for frozen orbitals (documented) and for every UHF molecule; FCISolver raises "
    "NotImplementedError for UHF: counted as 'refused', not as findings",
    "VQESolver.get_rdm is only defined for restricted molecules and get_rdm_uhf only for UHF molecules (as DMET uses them)",
]
TOL_E = 1e-7
TOL_CC = 1e-6
TOL_H = 1e-8
TOL_TR = 1e-7
TOL_PREMISE = 1e-9
# G[p,q,r,s] = G[r,s,p,q] holds for every true 2-RDM but is not Hermiticity and is not in the C13 statement: counted only
# (fires for CCSDSolver.get_rdm on ROHF molecules, which returns aa + 2*ab + bb instead of aa + ab + ba + bb).
ASSERT_PARTICLE_EXCHANGE = False

Q, T = "quick", "thorough"


# ---------------------------------------------------------------------------------------------------------------------
# catalogue

def _chain(n, d):
    return [("H", (0.0, 0.0, i * d)) for i in range(n)]


def _geom(name):
    if name == "H2":
        return _chain(2, 0.74)
    if name == "H3":
        return [("H", (0.0, 0.0, 0.0)), ("H", (0.0, 0.0, 0.93)), ("H", (0.0, 0.25, 1.90))]
    if name in ("H4", "H4t"):
        return [("H", (0.0, 0.0, 0.0)), ("H", (0.0, 0.0, 0.85)), ("H", (0.0, 0.0, 1.80)), ("H", (0.0, 0.0, 2.70))]
    if name == "LiH":
        return [("Li", (0.0, 0.0, 0.0)), ("H", (0.0, 0.0, 1.60))]
    if name == "H2O":
        return [("O", (0.0, 0.0, 0.1173)), ("H", (0.0, 0.7572, -0.4692)), ("H", (0.0, -0.7572, -0.4692))]
    raise KeyError(name)


# name -> (charge, spin, basis, n_mos, tier)
MOLS = {
    "H2": (0, 0, "sto-3g", 2, Q),
    "H3": (0, 1, "sto-3g", 3, Q),
    "H4": (0, 0, "sto-3g", 4, Q),
    "H4t": (0, 2, "sto-3g", 4, Q),
    "LiH": (0, 0, "sto-3g", 6, T),
    "H2O": (0, 0, "sto-3g", 7, T),
}
MOL_ORDER = ["H2", "H3", "H4", "H4t", "LiH", "H2O"]

# frozen patterns: (label, frozen_orbitals argument). "r" = RHF/ROHF (half-filled orbitals cannot be frozen), "u" = UHF
PATTERNS = {
    "H2": {"r": [("none", None)],
           "u": [("none", None), ("perspin_unequal", [[], [1]]), ("perspin_unequal", [[1], []])]},
    "H3": {"r": [("none", None), ("core", [0]), ("core+top_virtual", [0, 2]), ("top_virtual", [2])],
           "u": [("none", None), ("core", [[0], [0]]), ("top_virtual", [[2], [2]]), ("perspin_unequal", [[0], []]),
                 ("perspin_unequal", [[], [0]]), ("perspin_shifted", [[2], [1]])]},
    "H4": {"r": [("none", None), ("core", [0]), ("core+top_virtual", [0, 3]), ("noncontiguous", [0, 2]),
                 ("interior_virtual", [2])],
           "u": [("none", None), ("core", [[0], [0]]), ("core+top_virtual", [[0, 3], [0, 3]]),
                 ("perspin_shifted", [[0, 2], [1, 3]]), ("perspin_unequal", [[1], []]), ("perspin_unequal", [[0], [0, 3]])]},
    "H4t": {"r": [("none", None), ("core", [0]), ("core+top_virtual", [0, 3]), ("top_virtual", [3])],
            "u": [("none", None), ("core", [[0], [0]]), ("core+top_virtual", [[0, 3], [0, 3]]),
                  ("perspin_unequal", [[], [0]]), ("perspin_shifted", [[0, 3], [0, 2]])]},
    "LiH": {"r": [("none", None), ("core", [0]), ("core+top_virtual", [0, 5]), ("noncontiguous", [0, 3, 4]),
                  ("noncontiguous", [0, 3])],
            "u": [("none", None), ("core", [[0], [0]]), ("core+top_virtual", [[0, 5], [0, 5]]),
                  ("perspin_shifted", [[0, 3, 4], [0, 4, 5]]), ("perspin_unequal", [[0, 4, 5], [0, 5]]),
                  ("perspin_unequal_occ", [[0, 4, 5], [4, 5]])]},
    "H2O": {"r": [("none", None), ("core", [0]), ("core+top_virtual", [0, 6]), ("noncontiguous", [0, 1, 5]),
                  ("contiguous", [0, 1, 2])],
            "u": [("none", None), ("core", [[0], [0]]), ("noncontiguous", [[0, 1, 5], [0, 1, 5]]),
                  ("perspin_shifted", [[0, 1, 6], [0, 1, 5]]), ("perspin_unequal", [[0, 1, 2], [0, 1]]),
                  ("perspin_shifted_occ", [[0, 1, 2], [0, 1, 6]])]},
}

ENCODINGS = {Q: ("JW", "scBK"), T: ("JW", "BK", "scBK", "JKMN")}
ANSAETZE = ("UCCSD", "UpCCGSD")
THETAS = {Q: ("zero", "dense", "onehot_last", "alt"), T: ("zero", "dense", "onehot_last", "onehot_first", "alt")}
MAX_SOS = 8


def generic_g(seed):
    return round(0.2 + 0.05 * runner.seed_delta(seed), 6)


def theta_vector(kind, n, g):
    if kind == "zero":
        return [0.0] * n
    if kind == "dense":
        return [round(g + 0.011 * i, 6) for i in range(n)]
    if kind == "onehot_last":
        return [0.0] * (n - 1) + [g]
    if kind == "onehot_first":
        return [g] + [0.0] * (n - 1)
    if kind == "alt":
        return [round(g * (-1) ** i * (1 + 0.05 * (i % 7)), 6) for i in range(n)]
    raise KeyError(kind)


def n_active_mos_of(name, ref, frozen):
    nmo = MOLS[name][3]
    if frozen is None:
        return nmo
    if ref == "u":
        return max(nmo - len(frozen[0]), nmo - len(frozen[1]))
    return nmo - len(frozen)


# ---------------------------------------------------------------------------------------------------------------------
# molecules (real code) and reference integrals (PySCF)

_SCF = {}


@contextlib.contextmanager
def quiet():
    """Tangelo / PySCF chatter (ECP hints, ansatz prints) is not part of the check output."""
    with contextlib.redirect_stdout(io.StringIO()), contextlib.redirect_stderr(io.StringIO()):
        yield


def get_mol(name, ref, frozen):
    from tangelo import SecondQuantizedMolecule
    key = (name, ref)
    base = _SCF.get(key)
    if base is None:
        q, spin, basis, _, _ = MOLS[name]
        with quiet():
            base = SecondQuantizedMolecule(_geom(name), q=q, spin=spin, basis=basis, frozen_orbitals=None, uhf=(ref == "u"))
        _SCF[key] = base
    with quiet():
        return base.freeze_mos(frozen, inplace=False)


class Ints:
    """Reference integrals of one (molecule, frozen pattern): active space and full space, chemist order."""

    def __init__(self, mol):
        mf = mol.mean_field
        C = mol.mo_coeff
        self.uhf = bool(mol.uhf)
        C = (np.asarray(C[0]), np.asarray(C[1])) if self.uhf else np.asarray(C)
        ao = CH.ao_integrals(mf)
        nmo = (C[0] if self.uhf else C).shape[1]
        self.act = CH.active_space(mf, C, mol.frozen_occupied, mol.active_mos, ints=ao)
        allmo = list(range(nmo))
        self.full = CH.active_space(mf, C, ([], []) if self.uhf else [], (allmo, allmo) if self.uhf else allmo, ints=ao)


def e_spatial(I, r1, r2):
    ecore, (ha, _), (gaa, _, _) = I
    return float((ecore + np.sum(ha * r1) + 0.5 * np.sum(gaa * r2)).real)


def e_uhf(I, r1, r2):
    ecore, (ha, hb), (gaa, gab, gbb) = I
    e = ecore + np.sum(ha * r1[0]) + np.sum(hb * r1[1])
    e = e + 0.5 * np.sum(gaa * r2[0]) + np.sum(gab * r2[1]) + 0.5 * np.sum(gbb * r2[2])
    return float(np.real(e))


def spinorb_integrals(I, n):
    """Interleaved spin-orbital integrals (mode 2p = alpha p, 2p+1 = beta p), zero-padded to n spatial orbitals."""
    ecore, (ha, hb), (gaa, gab, gbb) = I
    na, nb = ha.shape[0], hb.shape[0]
    h = np.zeros((2 * n, 2 * n))
    g = np.zeros((2 * n,) * 4)
    A, B = np.arange(na) * 2, np.arange(nb) * 2 + 1
    h[np.ix_(A, A)] = ha
    h[np.ix_(B, B)] = hb
    g[np.ix_(A, A, A, A)] = gaa
    g[np.ix_(B, B, B, B)] = gbb
    g[np.ix_(A, A, B, B)] = gab
    g[np.ix_(B, B, A, A)] = gab.transpose(2, 3, 0, 1)
    return ecore, h, g


def e_spinorb(I, r1, r2):
    n = r1.shape[0] // 2
    ecore, h, g = spinorb_integrals(I, n)
    return float((ecore + np.sum(h * r1) + 0.5 * np.sum(g * r2)).real)


def herm1(a):
    a = np.asarray(a)
    return float(np.max(np.abs(a - a.conj().T))) if a.size else 0.0


def herm2(g):
    """Hermiticity residual of G[p,q,r,s] = <p+ r+ s q>:  conj(G[q,p,s,r]) - G[p,q,r,s]."""
    g = np.asarray(g)
    return float(np.max(np.abs(g - g.conj().transpose(1, 0, 3, 2)))) if g.size else 0.0


def exch2(g):
    g = np.asarray(g)
    return float(np.max(np.abs(g - g.transpose(2, 3, 0, 1)))) if g.size else 0.0


def same_bytes(a, b):
    a, b = np.asarray(a), np.asarray(b)
    return a.shape == b.shape and a.dtype == b.dtype and bool(np.array_equal(a, b))


# ---------------------------------------------------------------------------------------------------------------------
# statevector utilities (qubit 0 = most significant bit)

def pauli_expectation(sv, n, word):
    dim = 2 ** n
    idx = np.arange(dim)
    flip = 0
    phase = np.ones(dim, dtype=complex)
    for q, p in word:
        sh = n - 1 - q
        bit = (idx >> sh) & 1
        if p == "X":
            flip |= 1 << sh
        elif p == "Y":
            flip |= 1 << sh
            phase = phase * np.where(bit == 0, 1j, -1j)
        elif p == "Z":
            phase = phase * np.where(bit == 0, 1, -1)
        else:
            raise ValueError(p)
    out = np.zeros(dim, dtype=complex)
    out[idx ^ flip] = phase * sv
    return complex(np.vdot(sv, out))


class LazyExpectations(dict):
    """exp_vals argument of compute_rdms: expectation of any Pauli word on a fixed statevector, computed on demand."""

    def __init__(self, sv, n):
        super().__init__()
        self.sv, self.n = sv, n

    def __contains__(self, w):
        return True

    def __getitem__(self, w):
        if not dict.__contains__(self, w):
            dict.__setitem__(self, w, pauli_expectation(self.sv, self.n, w).real)
        return dict.__getitem__(self, w)


def widen(sv, n):
    sv = np.asarray(sv).ravel()
    have = int(round(np.log2(sv.size)))
    assert 2 ** have == sv.size
    for _ in range(max(0, n - have)):
        sv = np.kron(sv, np.array([1.0, 0.0]))
    return sv, max(n, have)


def number_diagonals(mol, enc, utd):
    """Diagonals of N, N_alpha, N_beta - summed over the PHYSICAL active spin-orbitals (a UHF molecule with unequal
    alpha/beta active spaces has padding modes in its register) - in the given encoding (real encoding call, active
    spin) + register size."""
    from tangelo.toolboxes.operators import FermionOperator
    from tangelo.toolboxes.qubit_mappings.mapping_transform import fermion_to_qubit_mapping, get_qubit_number
    nso = mol.n_active_sos
    nact_a, nact_b = mol.n_active_mos if mol.uhf else (mol.n_active_mos, mol.n_active_mos)
    am, bm = [2 * p for p in range(nact_a)], [2 * p + 1 for p in range(nact_b)]
    nq = get_qubit_number(enc.lower(), nso)
    out = {}
    for lab, modes in (("N", am + bm), ("Na", am), ("Nb", bm)):
        f = FermionOperator()
        for m in modes:
            f += FermionOperator(((m, 1), (m, 0)))
        qop = fermion_to_qubit_mapping(f, enc, n_spinorbitals=nso, n_electrons=mol.n_active_electrons, up_then_down=utd,
                                       spin=mol.active_spin)
        M = P.matrix(P.from_terms(qop.terms), nq)
        d = np.diag(M).copy()
        assert np.max(np.abs(M - np.diag(d))) < 1e-12, "encoded number operator is not diagonal"
        assert np.max(np.abs(d.imag)) < 1e-12
        out[lab] = d.real
    if enc.upper() == "JW":
        idx = np.arange(2 ** nq)
        bits = np.array([(idx >> (nq - 1 - q)) & 1 for q in range(nq)])
        aq = [m if not utd else m // 2 for m in am]
        bq = [m if not utd else nso // 2 + m // 2 for m in bm]
        ref = {"N": bits[aq + bq].sum(axis=0), "Na": bits[aq].sum(axis=0), "Nb": bits[bq].sum(axis=0)}
        for k in ref:
            assert np.max(np.abs(ref[k] - out[k])) < 1e-12, f"JW number operator {k} differs from bit populations"
        out = {k: ref[k].astype(float) for k in ref}
    return out, nq


def premises(sv, diags, targets):
    """Is the state an eigenstate of N / N_alpha / N_beta with the expected eigenvalue?"""
    p = np.abs(sv) ** 2
    p = p / p.sum()
    res, vals = {}, {}
    for k, d in diags.items():
        m1, m2 = float(np.sum(p * d)), float(np.sum(p * d * d))
        t = targets[k]
        vals[k] = m1
        res[k] = abs(m1 - t) < TOL_PREMISE and abs(m2 - t * t) < TOL_PREMISE
    return res, vals


# ---------------------------------------------------------------------------------------------------------------------
# the oracle for one pair of RDMs

class Ctx:
    def __init__(self, acc, case, site, sig):
        self.acc, self.case, self.site, self.sig = acc, case, site, sig

    def bad(self, kind, detail=None, site=None, sig=None):
        s = site or self.site
        self.acc.violation(f"{s}/{kind}/{sig or self.sig}", dict(self.case, focus=f"{s}/{kind}"), detail, group=f"{s}/{kind}")


def check_rdms(cx, mol, I, form, r1, r2, e_solver, tol, prem, ferm_op=None, api=True):
    """form: 'spatial' | 'uhf' | 'spinorb'. prem: dict N/Na/Nb -> bool (is the premise of the trace check satisfied)."""
    acc = cx.acc
    na_e, nb_e = mol.n_active_ab_electrons
    # ---- energy: reference contraction with PySCF integrals -------------------------------------------------------
    acc.ev()
    if form == "spatial":
        e_ref = e_spatial(I.act, r1, r2)
    elif form == "uhf":
        e_ref = e_uhf(I.act, r1, r2)
    else:
        e_ref = e_spinorb(I.act, r1, r2)
    if not abs(e_ref - e_solver) <= tol:
        cx.bad("energy-mismatch", {"E_from_rdms(reference contraction)": e_ref, "E_solver": e_solver, "diff": e_ref - e_solver,
                                   "form": form, "tol": tol})
    # ---- energy: API contractions ---------------------------------------------------------------------------------------
    if api and form in ("spatial", "uhf"):
        acc.ev()
        acc.transitions += 1
        try:
            e_api = float(mol.energy_from_rdms(r1, r2))
        except Exception as ex:
            cx.bad("exception", {"call": "mol.energy_from_rdms(rdm1, rdm2)", "err": repr(ex)[:300], "form": form},
                   site="SecondQuantizedMolecule.energy_from_rdms")
        else:
            if not abs(e_api - e_ref) <= TOL_E:
                cx.bad("contraction-mismatch", {"mol.energy_from_rdms": e_api, "reference contraction": e_ref,
                                                "E_solver": e_solver, "form": form},
                       site="SecondQuantizedMolecule.energy_from_rdms")
    if api and form == "spatial" and ferm_op is not None:
        from tangelo.toolboxes.molecular_computation.rdms import energy_from_rdms
        acc.ev()
        acc.transitions += 1
        try:
            e_mod = float(energy_from_rdms(ferm_op, r1, r2))
        except Exception as ex:
            cx.bad("exception", {"call": "rdms.energy_from_rdms(ferm_op, rdm1, rdm2)", "err": repr(ex)[:300]},
                   site="rdms.energy_from_rdms")
        else:
            if not abs(e_mod - e_ref) <= TOL_E:
                cx.bad("contraction-mismatch", {"rdms.energy_from_rdms": e_mod, "reference contraction": e_ref,
                                                "E_solver": e_solver}, site="rdms.energy_from_rdms")
    # ---- Hermiticity ----------------------------------------------------------------------------------------------------
    acc.ev()
    if form == "uhf":
        h1 = max(herm1(r1[0]), herm1(r1[1]))
        h2 = max(herm2(r2[0]), herm2(r2[1]), herm2(r2[2]))
        ex = max(exch2(r2[0]), exch2(r2[2]))
    else:
        h1, h2, ex = herm1(r1), herm2(r2), exch2(r2)
    if h1 > TOL_H:
        cx.bad("rdm1-not-hermitian", {"max|rdm1 - rdm1^H|": h1, "form": form})
    if h2 > TOL_H:
        cx.bad("rdm2-not-hermitian", {"max|G[p,q,r,s] - conj(G[q,p,s,r])|": h2, "form": form})
    if ex > TOL_H:
        acc.count("particle_exchange_asymmetric:" + cx.site)
        if ASSERT_PARTICLE_EXCHANGE:
            cx.bad("rdm2-not-particle-exchange-symmetric", {"max|G[p,q,r,s] - G[r,s,p,q]|": ex, "form": form})
    # ---- traces -----------------------------------------------------------------------------------------------------------
    if form == "spatial":
        tr = [("N", np.trace(r1), na_e + nb_e)]
    elif form == "uhf":
        tr = [("Na", np.trace(r1[0]), na_e), ("Nb", np.trace(r1[1]), nb_e)]
    else:
        tr = [("Na", np.trace(r1[0::2, 0::2]), na_e), ("Nb", np.trace(r1[1::2, 1::2]), nb_e), ("N", np.trace(r1), na_e + nb_e)]
    for lab, val, want in tr:
        if prem.get(lab):
            acc.ev()
            acc.count("trace_checked")
            if not abs(complex(val) - want) <= TOL_TR:
                cx.bad("trace", {"which": lab, "trace": complex(val), "expected": want, "form": form})
        else:
            acc.count("trace_skipped_state_not_number_eigenstate")
    return e_ref


def check_padding(cx, mol, I, form, r1, r2):
    """form 'spatial' -> pad_rdms_with_frozen_orbitals_restricted; 'uhf' -> ..._unrestricted.
    The helper is judged against ITS input: energy of the padded matrices with the full-space integrals == energy of the
    input matrices with the active-space integrals; trace(padded) == trace(input) + number of frozen electrons (hence the
    total electron count whenever the input traces to the number of active electrons)."""
    from tangelo.toolboxes.molecular_computation import rdms as R
    acc = cx.acc
    if form == "spatial":
        site = "pad_rdms_with_frozen_orbitals_restricted"
        a1, a2 = np.array(r1, copy=True), np.array(r2, copy=True)
        b1, b2 = a1.copy(), a2.copy()
        call = lambda: R.pad_rdms_with_frozen_orbitals_restricted(mol, a1, a2)
        e_in = e_spatial(I.act, b1, b2)
    else:
        site = "pad_rdms_with_frozen_orbitals_unrestricted"
        a1 = tuple(np.array(x, copy=True) for x in r1)
        a2 = tuple(np.array(x, copy=True) for x in r2)
        b1, b2 = tuple(x.copy() for x in a1), tuple(x.copy() for x in a2)
        call = lambda: R.pad_rdms_with_frozen_orbitals_unrestricted(mol, a1, a2)
        e_in = e_uhf(I.act, b1, b2)
    acc.transitions += 1
    try:
        p1, p2 = call()
    except Exception as ex:
        cx.bad("exception", {"err": repr(ex)[:300]}, site=site)
        return
    # arguments untouched
    acc.ev()
    if form == "spatial":
        mut = [n for n, x, y in (("onerdm", a1, b1), ("twordm", a2, b2)) if not same_bytes(x, y)]
        dmax = max(float(np.max(np.abs(a2 - b2))), float(np.max(np.abs(a1 - b1))))
    else:
        names1, names2 = ("onerdm[alpha]", "onerdm[beta]"), ("twordm[aa]", "twordm[ab]", "twordm[bb]")
        mut = [n for n, x, y in list(zip(names1, a1, b1)) + list(zip(names2, a2, b2)) if not same_bytes(x, y)]
        dmax = max(float(np.max(np.abs(x - y))) for x, y in list(zip(a1, b1)) + list(zip(a2, b2)))
    if mut:
        which = "+".join(sorted({m.split("[")[0] for m in mut}))
        cx.bad("argument-mutated", {"arguments changed by the call": mut, "max |after - before|": dmax}, site=site, sig=which)
    # trace of the padded 1-RDM = trace of the input + frozen electrons
    if form == "spatial":
        nfa = nfb = len(mol.frozen_occupied)
        trs = [("N", np.trace(p1), np.trace(b1) + 2 * nfa)]
    else:
        nfa, nfb = len(mol.frozen_occupied[0]), len(mol.frozen_occupied[1])
        trs = [("Na", np.trace(p1[0]), np.trace(b1[0]) + nfa), ("Nb", np.trace(p1[1]), np.trace(b1[1]) + nfb)]
    for lab, val, want in trs:
        acc.ev()
        if not abs(complex(val) - complex(want)) <= TOL_TR:
            cx.bad("padded-trace", {"which": lab, "trace(padded)": complex(val), "trace(input) + frozen electrons": complex(want)},
                   site=site)
    # energy with the full-space integrals: Tangelo's get_full_space_integrals and the PySCF reference
    acc.ev()
    try:
        cc, h1, h2 = mol.get_full_space_integrals()
        if form == "spatial":
            e_t = float(np.real(cc + np.sum(h1 * p1) + 0.5 * np.sum(np.asarray(h2).transpose(0, 3, 1, 2) * p2)))
            e_r = e_spatial(I.full, p1, p2)
        else:
            g = [np.asarray(x).transpose(0, 3, 1, 2) for x in h2]
            e_t = float(np.real(cc + np.sum(h1[0] * p1[0]) + np.sum(h1[1] * p1[1]) + 0.5 * np.sum(g[0] * p2[0])
                                + np.sum(g[1] * p2[1]) + 0.5 * np.sum(g[2] * p2[2])))
            e_r = e_uhf(I.full, p1, p2)
    except Exception as ex:
        cx.bad("exception", {"where": "contraction of padded RDMs with get_full_space_integrals", "err": repr(ex)[:300],
                             "shapes": [list(np.shape(x)) for x in (p1 if form != "spatial" else [p1])]}, site=site)
        return
    if not (abs(e_t - e_in) <= TOL_E and abs(e_r - e_in) <= TOL_E):
        cx.bad("padded-energy", {"E(padded, get_full_space_integrals)": e_t, "E(padded, PySCF full-space integrals)": e_r,
                                 "E(input, active-space integrals)": e_in, "n_frozen_occ": [nfa, nfb]}, site=site)


# ---------------------------------------------------------------------------------------------------------------------
# classical solvers

def nontrivial(mol, e, ref):
    frozen = mol.frozen_mos is not None and any(len(x) for x in (mol.frozen_mos if mol.uhf else [mol.frozen_mos]))
    return bool(frozen or ref == "u" or mol.spin != 0 or abs(e - mol.mf_energy) > 1e-6)


def run_classical(case, acc, cache=None):
    from tangelo.algorithms.classical import FCISolver, CCSDSolver, MP2Solver
    name, ref, frozen, sname = case["mol"], case["ref"], case["frozen"], case["solver"]
    cache = cache if cache is not None else {}
    key = (name, ref, repr(frozen))
    if key not in cache:
        mol = get_mol(name, ref, frozen)
        with quiet():
            fop = mol.fermionic_hamiltonian if not mol.uhf else None
        cache[key] = (mol, Ints(mol), fop)
    mol, I, fop = cache[key]
    cls = {"FCI": FCISolver, "CCSD": CCSDSolver, "MP2": MP2Solver}[sname]
    site = f"{sname}Solver.get_rdm"
    sig = f"{'UHF' if ref == 'u' else ('RHF' if mol.spin == 0 else 'ROHF')}/{'frozen' if mol.frozen_mos and any(np.size(x) for x in mol.frozen_mos) else 'nofrozen'}"
    cx = Ctx(acc, case, site, sig)
    acc.states += 1
    try:
        with quiet():
            s = cls(mol)
            acc.transitions += 1
            e = float(s.simulate())
    except NotImplementedError:
        acc.count(f"refused:{sname}:{'UHF' if ref == 'u' else 'restricted'}")
        return
    except Exception as ex:
        acc.count(f"simulate_failed:{sname}")      # the solver's energy itself is C04/C08's subject
        acc.sample({"simulate_failed": case, "err": repr(ex)[:200]})
        return
    acc.transitions += 1
    try:
        with quiet():
            r1, r2 = s.get_rdm()
    except RuntimeError as ex:
        if "not implemented" in str(ex):
            acc.count(f"refused:{sname}:get_rdm:{sig}")
            return
        cx.bad("exception", {"err": repr(ex)[:300]})
        return
    except Exception as ex:
        cx.bad("exception", {"err": repr(ex)[:300]})
        return
    tol = TOL_CC if sname == "CCSD" else TOL_E
    prem = {"N": True, "Na": True, "Nb": True}
    is_tuple = isinstance(r1, (tuple, list))
    first_copy = copy.deepcopy((r1, r2))      # for the second-call comparison at the end (the helpers below must not touch r1, r2)
    if nontrivial(mol, e, ref):
        acc.nt((name, ref, frozen, sname))
    acc.out((sname, round(e, 6)))
    if mol.uhf:
        form = "uhf"
        if not is_tuple:
            cx.bad("wrong-container", {"expected": "(alpha, beta) / (aa, ab, bb) for a UHF molecule", "got": str(type(r1))})
            return
        r1 = tuple(np.asarray(x) for x in r1)
        r2 = tuple(np.asarray(x) for x in r2)
        check_rdms(cx, mol, I, form, r1, r2, e, tol, prem)
        check_padding(cx, mol, I, form, r1, r2)
    else:
        if is_tuple:
            # documented return type: "numpy.array: One-particle RDM / Two-particle RDM"; mol.energy_from_rdms of a
            # restricted molecule contracts arrays. Report, then look at the content in the spin-resolved form.
            acc.ev()
            try:
                e_api = float(mol.energy_from_rdms(r1, r2))
                what = {"mol.energy_from_rdms(get_rdm())": e_api, "E_solver": e, "diff": e_api - e}
            except Exception as ex:
                what = {"mol.energy_from_rdms(get_rdm()) raises": repr(ex)[:200], "E_solver": e}
            what["returned"] = f"tuple of {len(r1)} 1-RDM blocks and {len(r2)} 2-RDM blocks for a restricted-reference molecule"
            r1 = tuple(np.asarray(x) for x in r1)
            r2 = tuple(np.asarray(x) for x in r2)
            # content looked at in the spin-resolved form; nothing documents which energy these blocks reproduce for an
            # ROHF reference (PySCF converts to UMP2 on non-canonical orbitals), so the value is only reported
            what["E(spin-resolved reference contraction of the blocks)"] = e_uhf(I.act, r1, r2)
            # The return FORMAT is not part of C13 and no documented energy is reproducible for ROHF-MP2 (non-canonical
            # orbitals): counted as an observation (DESIGN.md 7.4), not reported as a violation.
            acc.count("observation_mp2_rohf_returns_spin_resolved_tuples")
            check_rdms(cx, mol, I, "uhf", r1, r2, e, float("inf"), prem, api=False)
            return
        r1, r2 = np.asarray(r1), np.asarray(r2)
        check_rdms(cx, mol, I, "spatial", r1, r2, e, tol, prem, ferm_op=fop)
        check_padding(cx, mol, I, "spatial", r1, r2)
    # the same solver asked again: the matrices it returns must be the ones it returned the first time (whatever the caller did
    # with the first ones, e.g. padding them)
    acc.ev()
    try:
        with quiet():
            a1, a2 = s.get_rdm()
        flat = lambda x: [np.asarray(y) for y in x] if isinstance(x, (tuple, list)) else [np.asarray(x)]
        pairs = list(zip(flat(a1) + flat(a2), flat(first_copy[0]) + flat(first_copy[1])))
        dmax = max([float(np.max(np.abs(x - y))) if x.shape == y.shape else float("inf") for x, y in pairs] + [0.0])
        if dmax > 1e-9:
            cx.bad("second-call-returns-different-matrices", {"max_abs_difference": dmax})
    except Exception as ex:
        cx.bad("second-call-raises", {"err": repr(ex)[:300]})
    if len(acc.samples) < 2:
        acc.sample({"case": case, "E_solver": e, "trace_rdm1": (complex(np.trace(r1)).real if not isinstance(r1, tuple)
                                                                 else [float(np.trace(x).real) for x in r1])})


# ---------------------------------------------------------------------------------------------------------------------
# variational solver

def build_vqe(mol, ansatz, enc, utd):
    from tangelo.algorithms.variational import VQESolver, BuiltInAnsatze
    v = VQESolver({"molecule": mol, "ansatz": getattr(BuiltInAnsatze, ansatz), "qubit_mapping": enc, "up_then_down": utd,
                   "initial_var_params": "ones"})
    with quiet():
        v.build()
    return v


def run_vqe(cfg, theta_kinds, acc, forms=None, with_compute_rdms=True):
    """cfg: mol, ref, frozen, ansatz, enc, utd, seed. Explores theta_kinds x forms."""
    name, ref, frozen = cfg["mol"], cfg["ref"], cfg["frozen"]
    ansatz, enc, utd = cfg["ansatz"], cfg["enc"], cfg["utd"]
    g = generic_g(cfg["seed"])
    mol = get_mol(name, ref, frozen)
    if mol.n_active_sos > MAX_SOS or mol.n_active_electrons < 1:
        acc.count("vqe_skipped_size")
        return
    try:
        v = build_vqe(mol, ansatz, enc, utd)
        n = len(v.initial_var_params)
    except Exception as ex:
        acc.count(f"vqe_build_refused:{ansatz}:{enc}")       # not C13's subject
        acc.sample({"vqe_build_refused": cfg, "err": repr(ex)[:200]}, cap=6)
        return
    if n == 0:
        acc.count("vqe_no_parameters")
        return
    I = Ints(mol)
    with quiet():
        fop = mol.fermionic_hamiltonian if not mol.uhf else None
    diags, nq = number_diagonals(mol, enc, utd)
    na_e, nb_e = mol.n_active_ab_electrons
    targets = {"N": na_e + nb_e, "Na": na_e, "Nb": nb_e}
    spin_flag = "active_spin!=spin" if mol.active_spin != mol.spin else "spin-ok"
    refname = "UHF" if ref == "u" else ("RHF" if mol.spin == 0 else "ROHF")
    sig = f"{enc}/{refname}/{spin_flag}"
    if forms is None:
        forms = ("uhf",) if mol.uhf else ("spatial", "spinorb")
    for tk in theta_kinds:
        th = theta_vector(tk, n, g)
        case0 = dict(cfg, kind="vqe", theta=tk)
        try:
            with quiet():
                e = float(np.real(v.energy_estimation(th)))
                _, sv = v.backend.simulate(v.ansatz.circuit, return_statevector=True)
        except Exception as ex:
            acc.count("vqe_energy_failed")                   # energy evaluation itself is C08's subject
            acc.sample({"vqe_energy_failed": case0, "err": repr(ex)[:200]}, cap=6)
            continue
        sv, nq_sv = widen(sv, nq)
        assert nq_sv == nq, (nq_sv, nq)
        prem, vals = premises(sv, diags, targets)
        acc.count("states_number_eigenstate" if prem["N"] else "states_not_number_eigenstate")
        acc.out((ansatz, enc, utd, tk, round(e, 6)))
        nt = nontrivial(mol, e, ref)
        for form in forms:
            case = dict(case0, form=form)
            acc.states += 1
            acc.transitions += 1
            if nt:
                acc.nt((name, ref, frozen, ansatz, enc, utd, tk, form))
            if form == "uhf":
                cx = Ctx(acc, case, "VQESolver.get_rdm_uhf", sig)
                try:
                    with quiet():
                        r1, r2 = v.get_rdm_uhf(th)
                except Exception as ex:
                    cx.bad("exception", {"err": repr(ex)[:300]})
                    continue
                r1 = tuple(np.asarray(x) for x in r1)
                r2 = tuple(np.asarray(x) for x in r2)
                nact_a, nact_b = mol.n_active_mos
                if r1[0].shape != (nact_a, nact_a) or r1[1].shape != (nact_b, nact_b):
                    # unequal alpha/beta active spaces: blocks come back padded to the larger size
                    acc.ev()
                    try:
                        with quiet():
                            e_api = float(mol.energy_from_rdms(r1, r2))
                        if not abs(e_api - e) <= TOL_E:
                            cx.bad("shape-incompatible-with-energy_from_rdms",
                                   {"shapes": [list(x.shape) for x in r1], "n_active_mos": [nact_a, nact_b],
                                    "mol.energy_from_rdms": e_api, "E_solver": e}, sig="UHF/unequal-active-spaces")
                    except Exception as ex:
                        cx.bad("shape-incompatible-with-energy_from_rdms",
                               {"shapes": [list(x.shape) for x in r1], "n_active_mos": [nact_a, nact_b],
                                "mol.energy_from_rdms raises": repr(ex)[:200]}, sig="UHF/unequal-active-spaces")
                    # nothing may live outside the physical orbitals; continue with the physical blocks
                    t1 = (r1[0][:nact_a, :nact_a], r1[1][:nact_b, :nact_b])
                    t2 = (r2[0][:nact_a, :nact_a, :nact_a, :nact_a], r2[1][:nact_a, :nact_a, :nact_b, :nact_b],
                          r2[2][:nact_b, :nact_b, :nact_b, :nact_b])
                    outside = sum(float(np.abs(x).sum()) for x in r1 + r2) - sum(float(np.abs(x).sum()) for x in t1 + t2)
                    if outside > 1e-9:
                        cx.bad("weight-on-padding-orbitals", {"sum |entries outside the physical blocks|": outside})
                    r1, r2 = t1, t2
                check_rdms(cx, mol, I, "uhf", r1, r2, e, TOL_E, prem)
                check_padding(cx, mol, I, "uhf", r1, r2)
            else:
                cx = Ctx(acc, case, "VQESolver.get_rdm", sig)
                try:
                    with quiet():
                        r1, r2 = v.get_rdm(th, sum_spin=(form == "spatial"))
                except Exception as ex:
                    cx.bad("exception", {"err": repr(ex)[:300], "sum_spin": form == "spatial"})
                    continue
                r1, r2 = np.asarray(r1), np.asarray(r2)
                check_rdms(cx, mol, I, form, r1, r2, e, TOL_E, prem, ferm_op=fop)
                if form == "spatial":
                    check_padding(cx, mol, I, "spatial", r1, r2)
            if len(acc.samples) < 1 and tk == "dense":
                acc.sample({"case": case, "E_solver": e, "n_params": n, "<N>": vals["N"], "number_eigenstate": prem["N"]})
        # ---- rdms.compute_rdms fed with exact expectation values of the same state (dense vector, restricted) ------------
        if with_compute_rdms and tk == "dense" and not mol.uhf:
            from tangelo.toolboxes.molecular_computation.rdms import compute_rdms
            case = dict(case0, form="compute_rdms")
            cx = Ctx(acc, case, "rdms.compute_rdms", sig)
            acc.states += 1
            acc.transitions += 1
            fh = mol.fermionic_hamiltonian
            fh.n_spinorbitals, fh.n_electrons, fh.spin = mol.n_active_sos, mol.n_active_electrons, mol.active_spin
            try:
                with quiet():
                    o1, o2, s1, s2 = compute_rdms(fh, enc, utd, exp_vals=LazyExpectations(sv, nq))
            except Exception as ex:
                cx.bad("exception", {"err": repr(ex)[:300]})
                continue
            if nt:
                acc.nt((name, ref, frozen, ansatz, enc, utd, tk, "compute_rdms"))
            check_rdms(cx, mol, I, "spinorb", np.asarray(o1), np.asarray(o2), e, TOL_E, prem)
            check_rdms(cx, mol, I, "spatial", np.asarray(s1), np.asarray(s2), e, TOL_E, prem, ferm_op=fop)


# ---------------------------------------------------------------------------------------------------------------------

def tier_mols(tier):
    return [m for m in MOL_ORDER if tier == T or MOLS[m][4] == Q]


def bounds(tier, seed):
    return {"molecules": tier_mols(tier), "basis": "sto-3g",
            "frozen_patterns": {m: {r: [f for _, f in PATTERNS[m][r]] for r in ("r", "u")} for m in tier_mols(tier)},
            "classical_solvers": ["FCI", "CCSD", "MP2"], "ansaetze": list(ANSAETZE), "encodings": list(ENCODINGS[tier]),
            "up_then_down": [False, True], "theta_kinds": list(THETAS[tier]), "generic_g": generic_g(seed),
            "vqe_max_active_spin_orbitals": MAX_SOS, "forms": ["sum_spin=True", "sum_spin=False", "get_rdm_uhf", "compute_rdms(dense)"],
            "tolerances": {"energy": TOL_E, "energy_ccsd": TOL_CC, "hermiticity": TOL_H, "trace": TOL_TR}}


def shards(tier, seed):
    sh = []
    for name in tier_mols(tier):
        for ref in ("r", "u"):
            for label, frozen in PATTERNS[name][ref]:
                sh.append({"kind": "classical", "mol": name, "ref": ref, "frozen": frozen, "label": label, "seed": seed})
                nact = n_active_mos_of(name, ref, frozen)
                if not (2 <= nact and 2 * nact <= MAX_SOS):
                    continue
                for ansatz in ANSAETZE:
                    for enc in ENCODINGS[tier]:
                        for utd in (False, True):
                            base = {"kind": "vqe", "mol": name, "ref": ref, "frozen": frozen, "label": label, "ansatz": ansatz,
                                    "enc": enc, "utd": utd, "seed": seed}
                            if 2 * nact >= 8:       # one parameter vector per shard (comparable cost)
                                for tk in THETAS[tier]:
                                    sh.append(dict(base, thetas=[tk]))
                            else:
                                sh.append(dict(base, thetas=list(THETAS[tier])))
    # two cheap classical shards first (their samples reach the evidence), then the expensive shards, then the rest
    first = [s for s in sh if s["kind"] == "classical" and s["mol"] == "H4" and s["label"] == "core+top_virtual"]
    rest = [s for s in sh if s not in first]
    rest.sort(key=lambda s: (0 if s["kind"] == "vqe" and len(s["thetas"]) == 1 else 1))
    return first + rest


def run_shard(sh):
    acc = Acc()
    if sh["kind"] == "classical":
        cache = {}
        for sname in ("FCI", "CCSD", "MP2"):
            case = {"kind": "classical", "mol": sh["mol"], "ref": sh["ref"], "frozen": sh["frozen"], "solver": sname}
            run_classical(case, acc, cache)
        return acc
    cfg = {k: sh[k] for k in ("mol", "ref", "frozen", "ansatz", "enc", "utd", "seed")}
    run_vqe(cfg, sh["thetas"], acc)
    return acc


def replay_case(case):
    acc = Acc()
    if case.get("kind") == "classical":
        run_classical({k: case[k] for k in ("kind", "mol", "ref", "frozen", "solver")}, acc)
    else:
        cfg = {k: case[k] for k in ("mol", "ref", "frozen", "ansatz", "enc", "utd", "seed")}
        form = case.get("form")
        if form == "compute_rdms":
            run_vqe(cfg, [case["theta"]], acc, forms=(), with_compute_rdms=True)
        else:
            run_vqe(cfg, [case["theta"]], acc, forms=(form,) if form else None, with_compute_rdms=False)
    foc = case.get("focus")
    if foc:
        acc.viol = {k: v for k, v in acc.viol.items() if k.startswith(foc + "/")} or acc.viol
    return acc


# ---------------------------------------------------------------------------------------------------------------------

def selftest():
    """Oracle self-tests: the three reference contractions against PySCF's own FCI energy and RDMs."""
    from pyscf import gto, scf, fci
    CH.selftest()
    mol = gto.M(atom="H 0 0 0; H 0 0 0.9; H 0 0.2 1.85; H 0 0 2.8", basis="sto-3g", verbose=0)
    mf = scf.RHF(mol).run(conv_tol=1e-12)
    C = mf.mo_coeff
    act = CH.active_space(mf, C, [0], [1, 3, 2])
    ecore, (ha, _), (gaa, _, _) = act
    cis = fci.direct_spin1.FCISolver()
    cis.conv_tol = 1e-13
    e, ci = cis.kernel(ha, gaa, 3, (1, 1), ecore=ecore)
    d1, d2 = cis.make_rdm12(ci, 3, (1, 1))
    assert abs(e_spatial(act, d1, d2) - e) < 1e-10
    (da, db), (daa, dab, dbb) = cis.make_rdm12s(ci, 3, (1, 1))
    assert abs(e_uhf(act, (da, db), (daa, dab, dbb)) - e) < 1e-10
    n = 3
    s1 = np.zeros((2 * n, 2 * n))
    s2 = np.zeros((2 * n,) * 4)
    A, B = np.arange(n) * 2, np.arange(n) * 2 + 1
    s1[np.ix_(A, A)] = da
    s1[np.ix_(B, B)] = db
    s2[np.ix_(A, A, A, A)] = daa
    s2[np.ix_(B, B, B, B)] = dbb
    s2[np.ix_(A, A, B, B)] = dab
    s2[np.ix_(B, B, A, A)] = dab.transpose(2, 3, 0, 1)
    assert abs(e_spinorb(act, s1, s2) - e) < 1e-10
    assert herm1(d1) < 1e-12 and herm2(d2) < 1e-12 and exch2(d2) < 1e-12 and herm2(dab) < 1e-12
    bad = d2.copy()
    bad[0, 1, 0, 2] += 0.1
    assert herm2(bad) > 0.05
    # Pauli expectation against the dense matrix
    rng = np.random.RandomState(7)
    sv = rng.randn(8) + 1j * rng.randn(8)
    sv /= np.linalg.norm(sv)
    for w in (((0, "X"), (2, "Y")), ((1, "Z"),), ((0, "Y"), (1, "Y"), (2, "Z")), ()):
        M = P.matrix({w: 1.0}, 3)
        assert abs(pauli_expectation(sv, 3, w) - np.vdot(sv, M @ sv)) < 1e-12
    lz = LazyExpectations(sv, 3)
    assert ((0, "X"),) in lz and abs(lz[((1, "Z"),)] - np.vdot(sv, P.matrix({((1, "Z"),): 1.0}, 3) @ sv).real) < 1e-12
    w, nq = widen(np.array([0, 1.0]), 3)
    assert nq == 3 and w[4] == 1.0 and abs(np.linalg.norm(w) - 1) < 1e-15


if __name__ == "__main__":
    import sys
    runner.main(sys.modules[__name__])
