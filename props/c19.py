"""C19 - Noisy simulation applies exactly the specified channels.

E1: circuits of depth <= L over a small gate alphabet (1-, 2-, 3-qubit gates, controls) x every assignment of
{none, pauli, depol, pauli+depol, depol+pauli} with rate alphabets to the gate names; E3: the cirq samplers are scripted, so
the density matrix handed to the sampler (per term of an expectation value, after the basis rotation) is observed exactly and
every sample sequence is explored. Oracle: mc.ref.density (numpy).
"""
import itertools
import math

import numpy as np

from mc import runner, choicetree, seams
from mc.runner import Acc
from mc.ref import statevec as SV
from mc.ref import density as DM

PID = "C19"
ENGINE = "seqspace (circuit x noise-model assignments) + choicetree (scripted cirq samplers)"
RULE = ("cases = (circuit word of depth <= L, noise assignment per gate name, observable); every assignment of one of 17 "
        "channel specifications to each gate name present (and to one absent name); non-trivial = distinct (circuit, noise "
        "model) whose reference density matrix differs from the noiseless one by more than 1e-6")
ASSUMPTIONS = [
    "channel semantics as documented by NoiseModel: pauli (px,py,pz) independently on every qubit the gate touches; depol q "
    "jointly on all touched qubits: rho -> (1-q) rho + q I/2^k (x) Tr_k rho",
    "rates outside the alphabets, circuits beyond depth 2 (3 thorough) / 3 qubits, n_shots > 2 are not explored",
    "noisy expectation values: decided as (a) the density matrix handed to the sampler for each term equals the reference "
    "mixed state after the (noisy) basis rotation and (b) the estimate is the documented arithmetic of every sample sequence",
    "tolerance 1e-9 on density matrices (complex128 simulator)",
    "histories: every sequence of <= 4 (5 thorough) operations over {4 add_quantum_error calls, simulate on a shared backend, simulate on a "
    "new backend, translate} on one live NoiseModel; after each use the state must be that of the model as it currently is",
]
PI = math.pi
TOL = 1e-9


def G(name, t, c=None, p=""):
    return [name, list(t), (None if c is None else list(c)), p, False]


ALPHA = [G("X", [0]), G("H", [0]), G("H", [1]), G("RY", [0], None, 0.8), G("CNOT", [1], [0]), G("CNOT", [0], [1]),
         G("CRZ", [1], [0], 0.7), G("CSWAP", [0, 1], [2]), G("CNOT", [2], [0, 1]), G("X", [2]),
         G("RY", [1], None, 0.0)]      # a rotation by exactly zero is still an occurrence of the (noisy) gate

P_ALPHA = [[0.0, 0.0, 0.0], [0.1, 0.0, 0.0], [0.0, 0.2, 0.05], [0.3, 0.3, 0.4]]
Q_ALPHA = [0.0, 0.1, 1.0 / 3.0, 1.0]


def specs():
    out = [[]]
    out += [[["pauli", p]] for p in P_ALPHA]
    out += [[["depol", q]] for q in Q_ALPHA]
    for p, q in ((P_ALPHA[1], Q_ALPHA[1]), (P_ALPHA[2], Q_ALPHA[2]), (P_ALPHA[3], Q_ALPHA[1]), (P_ALPHA[1], Q_ALPHA[3])):
        out.append([["pauli", p], ["depol", q]])
        out.append([["depol", q], ["pauli", p]])
    return out


def mk_noise(assign):
    from tangelo.linq.noisy_simulation import NoiseModel
    nm = NoiseModel()
    for name, lst in assign.items():
        for kind, par in lst:
            nm.add_quantum_error(name, kind, par)
    return nm


def mk_circ(word, n):
    from tangelo.linq import Circuit, Gate
    return Circuit([Gate(d[0], list(d[1]), (None if d[2] is None else list(d[2])), d[3]) for d in word], n_qubits=n)


def width(word):
    return max(q for d in word for q in (d[1] + (d[2] or []))) + 1


def ref_noise(assign):
    return {k: [(kind, par) for kind, par in v] for k, v in assign.items()}


def nsig(assign, word):
    kinds = set()
    for name, lst in assign.items():
        ar = max([len(d[1]) + len(d[2] or []) for d in word if d[0] == name] + [0])
        for kind, _ in lst:
            kinds.add(f"{kind}@{ar}q")
    return "+".join(sorted(kinds)) or "none"


def check_state(case, acc):
    """(i) translator + cirq density-matrix simulator, (ii) backend._current_state and sampled frequencies (1 shot)."""
    from tangelo.linq import get_backend, translate_circuit
    import cirq
    word, assign = case["word"], case["noise"]
    n = width(word)
    c = mk_circ(word, n)
    rho = DM.run(word, n, ref_noise(assign))
    sg = nsig(assign, word)

    def bad(site, kind, detail):
        acc.violation(f"{site}/{kind}/{sg}", case, detail, group=f"{site}/{kind}")

    try:
        nm = mk_noise(assign)
    except Exception as e:
        bad("add_quantum_error", "valid-specification-rejected", {"err": repr(e)[:200]})
        return
    acc.ev()
    try:
        cc = translate_circuit(c, "cirq", output_options={"noise_model": nm})
        got = cirq.DensityMatrixSimulator(dtype=np.complex128).simulate(cc).final_density_matrix
    except Exception as e:
        bad("translate", "exception", {"err": repr(e)[:300]})
        return
    d = float(np.linalg.norm(got - rho, 2))
    if d > TOL:
        bad("translate", "density-matrix", {"distance": d, "diag_got": np.real(np.diag(got)).round(6).tolist(),
                                            "diag_ref": np.real(np.diag(rho)).round(6).tolist()})
    rho0 = DM.run(word, n, None)
    if np.linalg.norm(rho - rho0) > 1e-6:
        acc.nt((word, assign))
    zero = all(all((kind == "pauli" and not any(par)) or (kind == "depol" and par == 0.0) for kind, par in lst) for lst in assign.values())

    # backend with scripted sampler, one shot: state kept by the backend and frequencies from the scripted sample
    def run(ch):
        be = get_backend("cirq", n_shots=1, noise_model=nm)
        be.cirq = seams.CirqProxy(ch)
        fr, _ = be.simulate(c)
        return {k: float(v) for k, v in fr.items()}, np.array(be._current_state)

    for choices, trace, infos, (fr, cur) in choicetree.explore(run):
        acc.ev()
        acc.transitions += 1
        if len(trace) != 1 or trace[0][2] != "sample_density_matrix":
            bad("simulate", "unexpected-draws", {"trace": [(t[0], t[2]) for t in trace]})
            break
        dd = float(np.linalg.norm(np.asarray(infos[0]["state"]) - rho, 2))
        dc = float(np.linalg.norm(cur.reshape(rho.shape) - rho, 2)) if cur.size == rho.size else float("inf")
        if dd > TOL or dc > TOL:
            bad("simulate", "density-matrix", {"distance_handed_to_sampler": dd, "distance_current_state": dc})
            break
        support = sorted(infos[0]["probs"])
        want = {support[choices[0]]: 1.0}
        if fr != want:
            bad("simulate", "frequencies-from-sample", {"got": fr, "want": want})
        if zero:
            psi = SV.run(word, n)
            if np.linalg.norm(np.asarray(infos[0]["state"]) - np.outer(psi, psi.conj())) > TOL:
                bad("simulate", "zero-rates-differ-from-noiseless", {})
        acc.out(tuple(sorted(infos[0]["probs"])))


HIST_ADDS = [("X", "pauli", [0.1, 0.0, 0.0]), ("CNOT", "depol", 0.1), ("H", "depol", 1.0 / 3.0), ("X", "depol", 0.1)]
HIST_WORD = [G("X", [0]), G("H", [1]), G("CNOT", [1], [0]), G("X", [0])]
HIST_OPS = ["add0", "add1", "add2", "add3", "use-shared-backend", "use-new-backend", "translate"]


def check_history(case, acc):
    """E2-style: one live NoiseModel (and one live backend built on it) under every history of add_quantum_error / simulate /
    translate operations; after every use the simulated state must be that of the model as it is NOW (errors added after an
    earlier use included)."""
    from tangelo.linq import get_backend, translate_circuit
    from tangelo.linq.noisy_simulation import NoiseModel
    import cirq
    hist = case["history"]
    n = width(HIST_WORD)
    c = mk_circ(HIST_WORD, n)
    nm = NoiseModel()
    shared = {}
    model = {}

    def handed_state(be):
        def run(ch):
            be.cirq = seams.CirqProxy(ch)
            be.simulate(c)
            return 0
        ch = choicetree.Chooser()
        run(ch)
        return np.asarray(ch.infos[0]["state"])

    for step, op in enumerate(hist):
        acc.transitions += 1
        if op.startswith("add"):
            name, kind, par = HIST_ADDS[int(op[3:])]
            dup = any(k == kind for k, _ in model.get(name, []))
            try:
                nm.add_quantum_error(name, kind, par)
            except Exception as e:
                if not dup:
                    acc.violation("history/add_quantum_error/valid-specification-rejected", case, {"step": step, "err": repr(e)[:200]},
                                  group="history/add_quantum_error")
                continue
            if dup:
                acc.violation("history/add_quantum_error/same-type-twice-accepted", case, {"step": step}, group="history/add_quantum_error")
                return
            model.setdefault(name, []).append((kind, par))
            continue
        acc.ev()
        rho = DM.run(HIST_WORD, n, {k: list(v) for k, v in model.items()})
        try:
            if op == "translate":
                cc = translate_circuit(c, "cirq", output_options={"noise_model": nm})
                got = cirq.DensityMatrixSimulator(dtype=np.complex128).simulate(cc).final_density_matrix
            elif op == "use-new-backend":
                got = handed_state(get_backend("cirq", n_shots=1, noise_model=nm))
            else:
                if "be" not in shared:
                    shared["be"] = get_backend("cirq", n_shots=1, noise_model=nm)
                got = handed_state(shared["be"])
        except Exception as e:
            acc.violation(f"history/{op}/exception", case, {"step": step, "err": repr(e)[:300]}, group=f"history/{op}/exception")
            return
        d = float(np.linalg.norm(np.asarray(got).reshape(rho.shape) - rho, 2))
        if d > TOL:
            acc.violation(f"history/{op}/state-is-not-that-of-the-current-noise-model", case,
                          {"step": step, "distance": d, "model_now": {k: [list(x) for x in v] for k, v in model.items()}},
                          group=f"history/{op}/stale-noise-model")
            return
    acc.out(("history", tuple(sorted((k, tuple(x[0] for x in v)) for k, v in model.items()))))
    if any(o.startswith("add") for o in hist[1:]) and not hist[0].startswith("add"):
        acc.nt(("history", tuple(hist)))
    elif sum(1 for i, o in enumerate(hist) if o.startswith("add") and any(not h.startswith("add") for h in hist[:i])):
        acc.nt(("history", tuple(hist)))


def histories(tier):
    L = 4 if tier == "quick" else 5
    for l in range(2, L + 1):
        for h in itertools.product(HIST_OPS, repeat=l):
            if h[-1].startswith("add"):
                continue            # a history ending with an addition observes nothing new
            if not any(o.startswith("add") for o in h):
                continue
            yield list(h)


MEAS_PROGS = [
    [G("H", [0]), G("MEASURE", [0]), G("X", [1])],
    [G("RY", [0], None, 0.8), G("CNOT", [1], [0]), G("MEASURE", [1]), G("H", [0])],
    [G("MEASURE", [0]), G("X", [0])],                                   # measurement as the first instruction
    [G("H", [1]), G("X", [0]), G("MEASURE", [1]), G("CNOT", [0], [1])],
]
MEAS_NOISE = [{}, {"X": [["pauli", [0.1, 0.0, 0.0]]]}, {"H": [["depol", 0.1]], "CNOT": [["depol", 0.1]]},
              {"X": [["depol", 1.0 / 3.0]], "RY": [["pauli", [0.0, 0.2, 0.05]]]}]


def check_noisy_measure(case, acc):
    """Noise model together with a mid-circuit MEASURE, a desired outcome and (optionally) a user-supplied initial statevector:
    the retry loop of the backend is explored with the scripted cirq random state (horizon: 3 attempts). Every measurement draw
    must be handed the outcome distribution of the reference noisy state, and the state returned / sampled for the desired
    outcome must be the normalised post-measurement mixed state."""
    from tangelo.linq import get_backend
    word, assign, b, use_init = case["word"], case["noise"], case["desired"], case["init"]
    n = 2
    c = mk_circ(word, n)
    nm = mk_noise(assign) if assign else None
    psi0 = None
    if use_init:
        k = np.arange(2 ** n)
        psi0 = (1.0 + 0.37 * k) * np.exp(1j * (0.7 * k * k + 0.3 * k))
        psi0 = psi0 / np.linalg.norm(psi0)
    rho0 = None if psi0 is None else np.outer(psi0, psi0.conj())
    rho_b, p_b, dists = DM.run_measured(word, n, ref_noise(assign), b, rho0)
    sg = nsig(assign, word) + ("+init" if use_init else "")

    def bad(kind, detail):
        acc.violation(f"noisy-measure/{kind}/{sg}", case, detail, group=f"noisy-measure/{kind}")

    order = get_backend("cirq").backend_info()["statevector_order"]
    init_be = None if psi0 is None else SV.to_order(psi0, n, order)

    def run(ch):
        be = get_backend("cirq", n_shots=1, noise_model=nm)
        be.cirq = seams.CirqProxy(ch)
        fr, st = be.simulate(c, desired_meas_result=b, initial_statevector=init_be, return_statevector=True)
        return {k: float(v) for k, v in fr.items()}, np.array(st)

    n_exec = n_done = 0
    try:
        for choices, trace, infos, res in choicetree.explore(run, horizon=4, check_replay=True):
            n_exec += 1
            acc.transitions += len(trace)
            if isinstance(res, str):        # horizon: the desired outcome was not drawn within the explored attempts
                acc.count("noisy_measure_executions_cut_at_horizon")
                continue
            n_done += 1
            acc.ev()
            fr, st = res
            meas_draws = [i for i in infos if "p" in i]
            for i in meas_draws:
                pp = [x for x in (i["p"] or [])]
                if len(pp) != 2 or abs(pp[0] - dists[0][0]) > 1e-7 or abs(pp[1] - dists[0][1]) > 1e-7:
                    bad("measurement-outcome-distribution", {"handed_to_the_draw": pp, "reference": dists[0]})
                    return
            if rho_b is None:
                bad("zero-probability-outcome-returned", {"returned": fr})
                return
            samp = [i for i in infos if "state" in i]
            for i in samp:
                if np.asarray(i["state"]).shape == rho_b.shape and np.linalg.norm(np.asarray(i["state"]) - rho_b, 2) > 1e-7:
                    bad("post-measurement-state-handed-to-sampler", {"distance": float(np.linalg.norm(np.asarray(i["state"]) - rho_b, 2))})
                    return
            if nm is not None and st.size == rho_b.size and np.linalg.norm(st.reshape(rho_b.shape) - rho_b, 2) > 1e-7:
                bad("returned-state", {"distance": float(np.linalg.norm(st.reshape(rho_b.shape) - rho_b, 2))})
                return
            if nm is None and st.size == 2 ** n:
                v = SV.from_order(st.reshape(-1), n, order)
                if np.linalg.norm(np.outer(v, v.conj()) - rho_b, 2) > 1e-7:
                    bad("returned-state", {"distance": float(np.linalg.norm(np.outer(v, v.conj()) - rho_b, 2))})
                    return
            acc.out(("noisy-measure", tuple(sorted(fr))))
    except Exception as e:
        if seams_error(e):
            raise
        if rho_b is None:
            acc.nt(("noisy-measure-refused", repr(word), b))
            return
        bad("exception", {"err": repr(e)[:300]})
        return
    acc.states += n_exec
    if n_done and assign:
        acc.nt(("noisy-measure", repr(word), repr(assign), b, use_init))


def seams_error(e):
    return isinstance(e, (seams.UnownedRandomness, choicetree.ReplayDivergence))


OBS = [[("Z0", 1.0)], [("X0", 1.0)], [("Y1", -0.5)], [("Z0 Z1", 1.0)], [("X0 X1", 1.0), ("Z1", 0.5)], [("Y0 Z1", 1.0), ("", 0.25)]]


def parse_term(s):
    return tuple((int(t[1:]), t[0]) for t in s.split()) if s else ()


def check_expval(case, acc):
    from tangelo.linq import get_backend
    from tangelo.toolboxes.operators import QubitOperator
    word, assign, obs, shots = case["word"], case["noise"], case["obs"], case["n_shots"]
    n = max(width(word), 2)
    c = mk_circ(word, n)
    nm = mk_noise(assign)
    qop = QubitOperator()
    for s, cf in obs:
        qop += QubitOperator(s, cf)
    terms = [(parse_term(s), cf) for s, cf in obs]
    sg = nsig(assign, word)
    basis = {"X": lambda q: G("RY", [q], None, -PI / 2), "Y": lambda q: G("RX", [q], None, PI / 2)}

    def bad(kind, detail):
        acc.violation(f"get_expectation_value/{kind}/{sg}", case, detail, group=f"get_expectation_value/{kind}")

    def run(ch):
        be = get_backend("cirq", n_shots=shots, noise_model=nm)
        be.cirq = seams.CirqProxy(ch)
        return complex(be.get_expectation_value(qop, c))

    nz = [(t, cf) for t, cf in terms if t]
    # reference mixed state per term: circuit followed by the documented basis-rotation gates, all of them noisy if named
    refs = []
    for t, cf in nz:
        w2 = list(word) + [basis[p](q) for q, p in t if p in basis]
        refs.append(DM.run(w2, n, ref_noise(assign)))
    n_exec = 0
    for choices, trace, infos, res in choicetree.explore(run, max_exec=3000):
        n_exec += 1
        acc.ev()
        acc.transitions += len(trace)
        if len(trace) != len(nz) or any(t[2] != "sample_density_matrix" for t in trace):
            bad("unexpected-draws", {"trace": [(t[0], t[2]) for t in trace], "terms": len(nz)})
            break
        est = sum(cf for t, cf in terms if not t)
        ok = True
        for (t, cf), info, rho, ch_i in zip(nz, infos, refs, choices):
            d = float(np.linalg.norm(np.asarray(info["state"]) - rho, 2))
            if d > TOL:
                bad("mixed-state-handed-to-sampler", {"term": t, "distance": d})
                ok = False
                break
            support = sorted(info["probs"])
            seq = choicetree.sequences(len(support), info["repetitions"])[ch_i]
            est += cf * sum(SV.parity_value(support[j], t) for j in seq) / len(seq)
            if info["repetitions"] != shots:
                bad("sample-size", {"repetitions": info["repetitions"]})
        if not ok:
            break
        if abs(res - est) > 1e-12:
            bad("estimate-arithmetic", {"returned": res, "expected": est})
        acc.out(round(res.real, 9))
    if choicetree.explore.capped:
        acc.caps.append("expectation-value execution cap")
    acc.states += n_exec
    if n_exec > 1:
        acc.nt(("exp", word, assign, obs, shots))


def check_malformed(acc):
    from tangelo.linq import get_backend
    from tangelo.linq.noisy_simulation import NoiseModel
    word = [G("X", [0]), G("CNOT", [1], [0])]
    c = mk_circ(word, 2)
    bad_specs = [
        ("unknown-type", [("X", "amplitude_damping", 0.1)]),
        ("pauli-2-numbers", [("X", "pauli", [0.1, 0.1])]),
        ("pauli-4-numbers", [("X", "pauli", [0.1, 0.1, 0.1, 0.1])]),
        ("pauli-tuple", [("X", "pauli", (0.1, 0.1, 0.1))]),
        ("pauli-negative", [("X", "pauli", [-0.1, 0.0, 0.0])]),
        ("pauli-sum-above-1", [("X", "pauli", [0.5, 0.5, 0.5])]),
        ("pauli-float", [("X", "pauli", 0.1)]),
        ("depol-int", [("X", "depol", 1)]),
        ("depol-list", [("X", "depol", [0.1])]),
        ("depol-negative", [("X", "depol", -0.1)]),
        ("depol-above-max-1q", [("X", "depol", 1.5)]),
        ("depol-above-max-2q", [("CNOT", "depol", 1.2)]),
        ("same-type-twice", [("X", "depol", 0.1), ("X", "depol", 0.2)]),
        ("same-type-twice-pauli", [("CNOT", "pauli", [0.1, 0, 0]), ("CNOT", "pauli", [0, 0.1, 0])]),
    ]
    for label, adds in bad_specs:
        acc.ev()
        acc.states += 1
        case = {"kind": "malformed", "label": label}
        try:
            nm = NoiseModel()
            for g, kind, par in adds:
                nm.add_quantum_error(g, kind, par)
            be = get_backend("cirq", n_shots=1, noise_model=nm)
            out = be.simulate(c)
        except Exception:
            acc.nt(case)
            continue
        acc.violation(f"malformed-noise-accepted/{label}", case, {"returned": repr(out)[:200]}, group=f"malformed-noise-accepted/{label}")
    # unsupported backend / missing shots
    nm = NoiseModel()
    nm.add_quantum_error("X", "depol", 0.1)
    for label, f in (("noise-on-sympy", lambda: get_backend("sympy", n_shots=10, noise_model=nm).simulate(c)),
                     ("noise-without-shots", lambda: get_backend("cirq", n_shots=None, noise_model=nm).simulate(c))):
        acc.ev()
        case = {"kind": "malformed", "label": label}
        try:
            out = f()
        except Exception:
            acc.nt(case)
            continue
        acc.violation(f"unsupported-noise-accepted/{label}", case, {"returned": repr(out)[:200]}, group=f"unsupported-noise-accepted/{label}")
    # valid boundary specifications must be accepted
    for label, adds in (("depol-exactly-max-1q", [("X", "depol", 4.0 / 3.0)]), ("pauli-sum-exactly-1", [("X", "pauli", [0.5, 0.25, 0.25])]),
                        ("depol-1.0-2q", [("CNOT", "depol", 1.0)])):
        acc.ev()
        case = {"kind": "valid-boundary", "label": label}
        try:
            nm = NoiseModel()
            for g, kind, par in adds:
                nm.add_quantum_error(g, kind, par)
            get_backend("cirq", n_shots=1, noise_model=nm).simulate(c)
        except Exception as e:
            acc.violation(f"valid-noise-rejected/{label}", case, {"err": repr(e)[:200]}, group=f"valid-noise-rejected/{label}")


# ---------------------------------------------------------------------------------------------------------------------

def words(tier):
    L = 2 if tier == "quick" else 3
    out = []
    for l in range(1, L + 1):
        for w in itertools.product(range(len(ALPHA)), repeat=l):
            if l == 3 and not (w[0] <= 4 and w[1] <= 4 and w[2] <= 4):      # depth 3 over the first five gates of the alphabet
                continue
            out.append([ALPHA[i] for i in w])
    return out


def assignments(word, tier):
    names = sorted({d[0] for d in word})
    absent = "Z" if "Z" not in names else "Y"
    S = specs()
    if len(names) == 1:
        combos = [(s,) for s in S]
    elif len(names) == 2:
        S2 = S if tier == "thorough" else [S[0], S[2], S[3], S[6], S[8], S[9], S[12], S[14]]
        combos = list(itertools.product(S2, S2))
    else:
        sub = [S[0], S[2], S[6], S[9], S[12]]
        combos = list(itertools.product(sub, repeat=len(names)))
    for combo in combos:
        a = {nm: sp for nm, sp in zip(names, combo) if sp}
        yield a
    # an absent gate name carrying noise must change nothing
    yield {absent: S[3]}
    yield {absent: S[3], names[0]: S[6]}


def bounds(tier, seed):
    W = words(tier)
    return {"n_words": len(W), "specs_per_gate_name": len(specs()), "pauli_rates": P_ALPHA, "depol_rates": Q_ALPHA,
            "observables": OBS, "n_shots": [1, 2]}


NSH = 64


def shards(tier, seed):
    sh = [{"kind": "malformed"}]
    for i in range(16):
        sh.append({"kind": "history", "part": i, "tier": tier})
    for wi in range(len(MEAS_PROGS)):
        sh.append({"kind": "noisy-measure", "prog": wi, "tier": tier})
    for i in range(NSH):
        sh.append({"kind": "state", "part": i, "tier": tier})
        sh.append({"kind": "expval", "part": i, "tier": tier})
    return sh


def run_shard(sh):
    acc = Acc()
    if sh["kind"] == "malformed":
        check_malformed(acc)
        acc.sample({"kind": "malformed", "label": "pauli-sum-above-1"})
        return acc
    tier = sh["tier"]
    if sh["kind"] == "noisy-measure":
        for assign in MEAS_NOISE:
            for b in "01":
                for use_init in (False, True):
                    check_noisy_measure({"kind": "noisy-measure", "word": MEAS_PROGS[sh["prog"]], "noise": assign, "desired": b,
                                         "init": use_init}, acc)
        acc.sample({"kind": "noisy-measure", "word": MEAS_PROGS[sh["prog"]], "noise": MEAS_NOISE[1], "desired": "1", "init": True})
        return acc
    if sh["kind"] == "history":
        for i, h in enumerate(histories(tier)):
            if i % 16 == sh["part"]:
                acc.states += 1
                check_history({"kind": "history", "history": h}, acc)
        if sh["part"] == 0:
            acc.sample({"kind": "history", "history": ["add0", "use-shared-backend", "add1", "use-shared-backend"]})
        return acc
    W = words(tier)
    k = 0
    for wi, word in enumerate(W):
        for assign in assignments(word, tier):
            k += 1
            if k % NSH != sh["part"]:
                continue
            if sh["kind"] == "state":
                acc.states += 1
                acc.transitions += len(word)
                check_state({"kind": "state", "word": word, "noise": assign}, acc)
            else:
                # a thinner slice of the product for the (more expensive) expectation-value trees
                if (k // NSH) % (7 if tier == "quick" else 3):
                    continue
                if width(word) > 2:
                    continue
                for oi, obs in enumerate(OBS):
                    for shots in (1, 2):
                        if shots == 2 and (len(obs) > 1 or oi % 2):
                            continue
                        acc.states += 1
                        check_expval({"kind": "expval", "word": word, "noise": assign, "obs": obs, "n_shots": shots}, acc)
    if sh["part"] == 0:
        acc.sample({"kind": sh["kind"], "word": W[14], "noise": {"H": specs()[10]}})
        if sh["kind"] == "expval":
            acc.caps.append(f"expectation-value trees explore every {7 if tier == 'quick' else 3}th (circuit, noise model) pair of the product on <= 2 qubits; "
                            "the density-matrix comparison covers the whole product")
        elif tier == "quick":
            acc.caps.append("quick tier: two-name circuits use 8 of the 17 channel specifications per gate name (thorough: all 17)")
    return acc


def replay_case(case):
    acc = Acc()
    k = case.get("kind")
    if k == "state":
        check_state(case, acc)
    elif k == "expval":
        case = dict(case, obs=[tuple(o) for o in case["obs"]])
        check_expval(case, acc)
    elif k == "history":
        check_history(case, acc)
    elif k == "noisy-measure":
        check_noisy_measure(case, acc)
    else:
        check_malformed(acc)
    return acc


def selftest():
    DM.selftest()


if __name__ == "__main__":
    import sys
    runner.main(sys.modules[__name__])
