"""C02 - Expectation values equal <psi|H|psi> on every evaluation path.

E1: operators (all Pauli words on <=3 qubits x coefficient alphabet, all 2-term sums over a 12-word set, one 5-term
operator) x state preparations (empty, dense depth<=2, wider than operator, idle qubits, with MEASURE gates and every
desired outcome string) x initial statevector x backend; E3: finite shots with the scipy sampler / cirq samplers scripted.
"""
import itertools
import math

import numpy as np

from mc import runner, choicetree, seams
from mc.runner import Acc
from mc.ref import statevec as SV

PID = "C02"
ENGINE = "seqspace (operator x preparation catalogue) + choicetree (scripted samplers)"
RULE = ("cases = (route, backend, state preparation, initial vector, operator[, n_shots, sample sequences]); operators: "
        "64 Pauli words x 5 coefficients, 66 word pairs x 9 coefficient pairs, one 5-term operator; non-trivial = distinct "
        "(route, preparation, operator) whose reference value is not 0 or the bare identity coefficient, finite-shot cases with "
        "more than one possible sample")
ASSUMPTIONS = [
    "operators beyond 3 qubits / 2 non-identity terms (5-term operator excepted), preparations beyond the catalogue are not explored",
    "finite shots: n_shots in {1,2}; the statement is decided as (a) exact distribution handed to every sampler call and "
    "(b) exact arithmetic for every sample sequence; post-selection combined with finite shots is left to C10",
    "tolerance 1e-9 (cirq), 1e-6 (sympy floats)",
    "variance = sum_i c_i^2 Var_i of the +-1 variable under the frequencies the backend produced (no covariance), as documented",
]
PI = math.pi
TOL = 1e-9


def G(name, t, c=None, p=""):
    return [name, list(t), (None if c is None else list(c)), p, False]


def preps(seed):
    d = runner.seed_delta(seed)
    a, b = 0.37 + d, -1.23 - d
    P = [
        {"n": 2, "w": []},                                                  # empty circuit: size == 0 branch
        {"n": 3, "w": []},
        {"n": None, "w": [G("H", [0]), G("CNOT", [1], [0])]},
        {"n": None, "w": [G("RY", [0], None, a), G("RX", [1], None, b)]},
        {"n": None, "w": [G("RX", [0], None, a), G("CRY", [1], [0], b)]},
        {"n": None, "w": [G("H", [1]), G("S", [1])]},                        # idle qubit 0
        {"n": None, "w": [G("RY", [2], None, a), G("CNOT", [0], [2])]},      # idle qubit 1
        {"n": 3, "w": [G("RX", [0], None, b)]},                              # wider than used
        {"n": None, "w": [G("H", [0]), G("CNOT", [1], [0]), G("CNOT", [2], [1]), G("RZ", [2], None, a), G("RX", [1], None, b)]},
        {"n": None, "w": [G("RY", [0], None, a), G("RY", [1], None, b), G("RY", [2], None, 0.77), G("CZ", [2], [0]), G("RX", [1], None, a)]},
        {"n": None, "w": [G("X", [0]), G("RY", [1], None, 2 * PI / 3)]},
        {"n": 4, "w": [G("H", [3]), G("CNOT", [0], [3]), G("T", [0]), G("RX", [0], None, a)]},   # wider than any operator
    ]
    return P


def meas_preps(seed):
    d = runner.seed_delta(seed)
    a = 0.37 + d
    M = [
        {"n": None, "w": [G("H", [0]), G("MEASURE", [0]), G("CNOT", [1], [0]), G("RY", [1], None, a)]},
        {"n": None, "w": [G("RY", [0], None, a), G("CNOT", [1], [0]), G("MEASURE", [1]), G("H", [0])]},
        {"n": None, "w": [G("H", [0]), G("H", [1]), G("MEASURE", [0]), G("CRY", [1], [0], a), G("MEASURE", [1]), G("RX", [0], None, a)]},
        {"n": None, "w": [G("X", [0]), G("MEASURE", [0]), G("H", [1])]},    # outcome "0" has probability zero
        {"n": 3, "w": [G("RY", [2], None, a), G("MEASURE", [2]), G("CNOT", [0], [2])]},
    ]
    return M


WORDS3 = ["".join(p) for p in itertools.product("IXYZ", repeat=3)]


def word_to_term(w):
    return tuple((q, p) for q, p in enumerate(w) if p != "I")


COEFS = [1, -0.5, 0.3 + 0.4j, 1j, 2.0 + 0j]
SUB12 = ["XII", "IZI", "IIY", "XXI", "ZZI", "YIY", "XYZ", "ZIZ", "IXX", "YYI", "ZXY", "III"]
COEF2 = [1, -0.5, 0.3 + 0.4j]


def operators(tier):
    ops = []
    for w in WORDS3:
        for c in COEFS:
            ops.append([(w, c)])
    pairs = list(itertools.combinations(SUB12, 2))
    for (w1, w2) in pairs:
        for c1, c2 in itertools.product(COEF2, COEF2):
            ops.append([(w1, c1), (w2, c2)])
    ops.append([("III", 0.7), ("ZII", -0.2), ("XXI", 0.5), ("IYZ", 0.25), ("ZZZ", -1.1)])
    return ops


def width_of(prep):
    used = [q for g in prep["w"] for q in (g[1] + (g[2] or []))]
    return prep["n"] or (max(used) + 1)


def op_fits(op, n):
    return all(all(p == "I" for p in w[n:]) for w, _ in op)


def mk_op(op):
    from tangelo.toolboxes.operators import QubitOperator
    q = QubitOperator()
    for w, c in op:
        q += QubitOperator(word_to_term(w), c)
    return q


def op_terms(op):
    t = {}
    for w, c in op:
        k = word_to_term(w)
        t[k] = t.get(k, 0) + c
    return t


def mk_circ(prep):
    from tangelo.linq import Circuit, Gate
    return Circuit([Gate(d[0], list(d[1]), (None if d[2] is None else list(d[2])), d[3], d[4]) for d in prep["w"]], n_qubits=prep["n"])


def dense_state(n):
    k = np.arange(2 ** n)
    v = (1.0 + 0.29 * k + 0.13 * (k % 3)) * np.exp(1j * (0.6 * k * k + 0.2 * k))
    return v / np.linalg.norm(v)


def op_sig(op):
    kinds = []
    for w, c in op:
        kinds.append(("id" if set(w) == {"I"} else "".join(sorted(set(w) - {"I"}))) + (":complex" if isinstance(c, complex) else ""))
    return ",".join(sorted(set(kinds)))


def as_complex(v):
    try:
        return complex(v)
    except TypeError:
        return complex(np.asarray(v, dtype=complex).reshape(-1)[0])


# ---------------------------------------------------------------------------------------------------------------------

def check_exact(case, acc):
    """n_shots=None: expectation value (all routes), variance, standard error; optional desired_meas_result."""
    from tangelo.linq import get_backend
    prep, op, bname = case["prep"], case["op"], case["backend"]
    n = width_of(prep)
    be = get_backend(bname)
    order = be.backend_info()["statevector_order"]
    init = dense_state(n) if case.get("init") == "dense" else None
    dmr = case.get("dmr")
    tol = TOL if bname == "cirq" else 1e-6
    if SV.n_measures(prep["w"]):
        psi, prob = SV.run_measured(prep["w"], n, dmr, init)
    else:
        psi, prob = SV.run(prep["w"], n, init), 1.0
    init_be = None if init is None else SV.to_order(init, n, order)
    if bname == "sympy" and init_be is not None:
        init_be = init_be.reshape(-1, 1)
    c = mk_circ(prep)
    qop = mk_op(op)
    route = ("empty" if not prep["w"] else "statevector") + ("+dmr" if dmr is not None else "") + ("+init" if init is not None else "")

    def bad(site, kind, detail):
        acc.violation(f"{bname}/{site}/{kind}/{route}/{op_sig(op)}", case, detail, group=f"{bname}/{site}/{kind}")

    acc.ev()
    kw = {} if dmr is None else {"desired_meas_result": dmr}
    try:
        val = be.get_expectation_value(qop, c, initial_statevector=init_be, **kw)
    except Exception as e:
        if psi is None:
            acc.nt(("zero-prob-branch-refused", prep["w"], dmr))
            return
        bad("get_expectation_value", "exception", {"err": repr(e)[:300]})
        return
    if psi is None:
        bad("get_expectation_value", "zero-probability-branch-not-refused", {"value": repr(val)})
        return
    H = SV.op_matrix(op_terms(op), n)
    ref = complex(np.vdot(psi, H @ psi))
    got = as_complex(val)
    if abs(got - ref) > tol:
        bad("get_expectation_value", "value", {"got": got, "ref": ref})
    if bname == "cirq":
        # the operator, the circuit and the initial vector belong to the caller: unchanged afterwards, and the very same objects give
        # the same value again
        acc.ev()
        if dict(qop.terms) != dict(mk_op(op).terms):
            bad("get_expectation_value", "operator-argument-modified", {"after": repr(dict(qop.terms))[:300]})
        elif [SV.desc(g) for g in c._gates] != [SV.desc(g) for g in mk_circ(prep)._gates] or c.width != mk_circ(prep).width:
            bad("get_expectation_value", "circuit-argument-modified", {"after": [SV.desc(g) for g in c._gates]})
        elif init is not None and not np.array_equal(np.asarray(init_be), SV.to_order(init, n, order)):
            bad("get_expectation_value", "initial_statevector-argument-modified", {})
        else:
            try:
                again = as_complex(be.get_expectation_value(qop, c, initial_statevector=init_be, **kw))
            except Exception as e:
                again = None
            if again is None or abs(again - got) > tol:
                bad("get_expectation_value", "second-call-with-the-same-arguments-differs", {"first": got, "second": again})
    id_only = sum(c_ for w, c_ in op if set(w) == {"I"})
    if abs(ref - id_only) > 1e-6:
        acc.nt((bname, route, prep["w"], op))
    acc.out(round(ref.real, 9))
    if bname != "cirq" or not case.get("variance"):
        return
    # variance / standard error (exact frequencies)
    acc.ev()
    terms = op_terms(op)
    ref_var = 0.0
    for t, cf in terms.items():
        e = float(np.vdot(psi, SV.pauli_matrix(t, n) @ psi).real)
        ref_var += (abs(cf.real) ** 2 + abs(cf.imag) ** 2 if isinstance(cf, complex) else cf * cf) * (1 - e * e)
    try:
        var = as_complex(be.get_variance(qop, c, initial_statevector=init_be, **kw))
        se = as_complex(be.get_standard_error(qop, c, initial_statevector=init_be, **kw))
    except Exception as e:
        bad("get_variance", "exception", {"err": repr(e)[:300]})
        return
    if abs(var - ref_var) > 1e-8:
        bad("get_variance", "value", {"got": var, "ref": ref_var})
    if abs(se) > 1e-12:
        bad("get_standard_error", "nonzero-without-shots", {"got": se})


def decode(info, n):
    return {format(int(x), f"0{n}b")[::-1]: p for x, p in zip(info["xk"], info["pk"])}


def check_shots(case, acc):
    """Finite shots on a pure-state preparation: scipy sampler scripted; every sample sequence."""
    from tangelo.linq import get_backend
    import tangelo.linq.target.backend as BK
    prep, op, shots, what = case["prep"], case["op"], case["n_shots"], case["what"]
    n = width_of(prep)
    init = dense_state(n) if case.get("init") == "dense" else None
    psi = SV.run(prep["w"], n, init)
    c = mk_circ(prep)
    qop = mk_op(op)
    terms = list(op_terms(op).items())

    def run(ch):
        be = get_backend("cirq", n_shots=shots)
        with seams.patched(BK, "stats", seams.StatsProxy(ch)):
            f = {"exp": be.get_expectation_value, "var": be.get_variance, "se": be.get_standard_error}[what]
            return as_complex(f(qop, c, initial_statevector=init))

    def bad(kind, detail):
        acc.violation(f"cirq/shots/{what}/{kind}/{op_sig(op)}", case, detail, group=f"cirq/shots/{what}/{kind}")

    n_exec = 0
    for choices, trace, infos, res in choicetree.explore(run):
        n_exec += 1
        acc.ev()
        acc.transitions += len(trace)
        # which draws are expected: (prep frequencies unless the circuit is empty), then one per term
        exp_draws = []
        cplx = what != "exp" and any(isinstance(cf, complex) and cf.imag != 0 for _, cf in terms)
        if cplx:
            # documented: the operator is split into its real and imaginary Hermitian parts, each sampled on its own;
            # variance = sum_i (Re c_i)^2 Var_i[real-part samples] + (Im c_i)^2 Var_i[imaginary-part samples]
            for part in ("re", "im"):
                sub = [(t, (cf.real if part == "re" else cf.imag)) for t, cf in terms if (cf.real if part == "re" else cf.imag) != 0]
                if not sub:
                    continue
                if prep["w"] or init is not None:
                    exp_draws.append(("prep", None, None))
                exp_draws += [("term", t, w) for t, w in sub]
        else:
            if prep["w"] or init is not None:
                exp_draws.append(("prep", None, None))
            for t, cf in terms:
                if t or what != "exp":
                    exp_draws.append(("term", t, cf))
        if len(trace) != len(exp_draws):
            bad("number-of-draws", {"draws": len(trace), "expected": len(exp_draws)})
            break
        est, var = 0.0, 0.0
        k = 0
        okd = True
        for (kind, t, wcf), info, ch_i in zip(exp_draws, infos, choices):
            handed = decode(info, n)
            refd = SV.pauli_basis_distribution(psi, n, t or ())
            refd = {kk: v for kk, v in refd.items() if v >= 1e-10}
            if max([abs(handed.get(kk, 0) - refd.get(kk, 0)) for kk in set(handed) | set(refd)]) > 1e-9:
                bad("distribution-handed-to-sampler", {"draw": k, "term": t, "handed": handed, "ref": refd})
                okd = False
            k += 1
            if kind == "term":
                seqs = choicetree.sequences(len(info["xk"]), info["size"])
                drawn = [format(int(info["xk"][j]), f"0{n}b")[::-1] for j in seqs[ch_i]]
                vals = [SV.parity_value(bts, t) for bts in drawn]
                m = sum(vals) / len(vals)
                cf = wcf
                est += cf * m
                var += (cf * cf) * (1 - m * m)
                if info["size"] != shots:
                    bad("sample-size", {"size": info["size"]})
        if what == "exp":
            est += sum(cf for t, cf in terms if not t)
            if okd and abs(res - est) > 1e-12:
                bad("estimate-arithmetic", {"returned": res, "expected": est, "choices": choices})
        elif what == "var":
            if okd and abs(res - var) > 1e-12:
                bad("variance-arithmetic", {"returned": res, "expected": var, "choices": choices})
        else:
            if okd and abs(res - np.sqrt(var / shots)) > 1e-12:
                bad("standard-error-arithmetic", {"returned": res, "expected": np.sqrt(var / shots), "choices": choices})
        acc.out((what, round(res.real, 9)))
    acc.states += n_exec
    if n_exec > 1:
        acc.nt(("shots", what, prep["w"], op, shots))


BULK_MAX_EXEC = 64   # the unchanged code makes <= 16 executions per shot number; a change that multiplies the draws must not make the tree explode


def check_bulk_shots(case, acc):
    """Very large shot numbers (chunked sampling): <Z0> of H|0> with the scripted sampler answering every bulk draw with a constant
    array (one choice over the support per draw, all explored): the draw sizes must add up to n_shots and the estimate must be the
    mean of the drawn eigenvalues."""
    from tangelo.linq import get_backend, Circuit, Gate
    from tangelo.toolboxes.operators import QubitOperator
    import tangelo.linq.target.backend as BK
    shots = case["n_shots"]
    c = Circuit([Gate("H", 0)])
    qop = QubitOperator("Z0", 1.0)

    def run(ch):
        be = get_backend("cirq", n_shots=shots)
        with seams.patched(BK, "stats", seams.StatsProxy(ch)):
            return as_complex(be.get_expectation_value(qop, c))

    n_exec = 0
    for choices, trace, infos, res in choicetree.explore(run, check_replay=False, max_exec=BULK_MAX_EXEC):
        n_exec += 1
        acc.ev()
        acc.transitions += len(trace)
        # two sampler calls are made (the preparation circuit, then the term), each cut into chunks: the draws are grouped into calls
        # of exactly n_shots samples; the estimate is the mean of the eigenvalues drawn in the last call
        groups, cur, tot_cur = [], [], 0
        for info, ch_i in zip(infos, choices):
            cur.append((info, ch_i))
            tot_cur += info["size"]
            if tot_cur >= shots:
                groups.append((tot_cur, cur))
                cur, tot_cur = [], 0
        if cur and tot_cur:
            groups.append((tot_cur, cur))
        total = groups[-1][0] if groups else 0
        s1 = 0.0
        for info, ch_i in (groups[-1][1] if groups else []):
            if info["size"] == 0:
                continue
            if info.get("bulk"):
                vals = [(int(info["xk"][ch_i]), info["size"])]
            else:
                vals = [(int(info["xk"][j]), 1) for j in choicetree.sequences(len(info["xk"]), info["size"])[ch_i]]
            for x, m in vals:
                s1 += m * (1.0 if x == 0 else -1.0)
        if len(groups) != 2 or any(g[0] != shots for g in groups) or abs(res - s1 / shots) > 1e-12:
            acc.violation("cirq/shots/exp/chunked-draws-do-not-add-up-to-n_shots", case,
                          {"n_shots": shots, "draw_sizes": [i["size"] for i in infos], "returned": res, "mean_of_drawn_eigenvalues": s1 / shots},
                          group="cirq/shots/exp/chunked-draws")
            break
        acc.out(("bulk", shots, round(res.real, 9)))
    acc.states += n_exec
    acc.nt(("bulk-shots", shots))


def check_mixed_shots(case, acc):
    """Finite shots on a preparation containing MEASURE gates (no desired result): dephased density-matrix route."""
    from tangelo.linq import get_backend
    prep, op, shots = case["prep"], case["op"], case["n_shots"]
    n = width_of(prep)
    c = mk_circ(prep)
    qop = mk_op(op)
    terms = list(op_terms(op).items())
    nm = SV.n_measures(prep["w"])
    branches = []
    for bits in itertools.product("01", repeat=nm):
        psi, p = SV.run_measured(prep["w"], n, "".join(bits))
        if psi is not None:
            branches.append((p, psi))
    rho = sum(p * np.outer(psi, psi.conj()) for p, psi in branches)

    def run(ch):
        be = get_backend("cirq", n_shots=shots)
        be.cirq = seams.CirqProxy(ch)
        return as_complex(be.get_expectation_value(qop, c))

    def bad(kind, detail):
        acc.violation(f"cirq/mixed-shots/{kind}/{op_sig(op)}", case, detail, group=f"cirq/mixed-shots/{kind}")

    n_exec = 0
    for choices, trace, infos, res in choicetree.explore(run):
        n_exec += 1
        acc.ev()
        acc.transitions += len(trace)
        nz = [(t, cf) for t, cf in terms if t]
        if len(trace) != len(nz) or any(t[2] != "sample_density_matrix" for t in trace):
            bad("unexpected-draws", {"trace": [(t[0], t[2]) for t in trace], "expected": len(nz)})
            break
        est = sum(cf for t, cf in terms if not t)
        okd = True
        for (t, cf), info, ch_i in zip(nz, infos, choices):
            refd = SV.pauli_basis_distribution(rho, n, t)
            handed = info["probs"]
            if max([abs(handed.get(kk, 0) - refd.get(kk, 0)) for kk in set(handed) | set(refd)]) > 1e-9:
                bad("distribution-handed-to-sampler", {"term": t, "handed": handed, "ref": refd})
                okd = False
            support = sorted(handed)
            seqs = choicetree.sequences(len(support), info["repetitions"])
            drawn = [support[j] for j in seqs[ch_i]]
            est += cf * sum(SV.parity_value(bts, t) for bts in drawn) / len(drawn)
        if okd and abs(res - est) > 1e-12:
            bad("estimate-arithmetic", {"returned": res, "expected": est})
        acc.out(("mixed", round(res.real, 9)))
    acc.states += n_exec
    if n_exec > 1:
        acc.nt(("mixed-shots", prep["w"], op, shots))


def check_dmr_shots(case, acc):
    """Finite shots + desired_meas_result on a preparation with MEASURE gates. Whatever route the implementation takes,
    a sampler that is handed a complete distribution (density matrix / statevector / rv_discrete) while evaluating a
    post-selected quantity must be handed the post-selected distribution of the rotated state."""
    from tangelo.linq import get_backend
    import tangelo.linq.target.backend as BK
    prep, op, shots, what, dmr = case["prep"], case["op"], case["n_shots"], case["what"], case["dmr"]
    n = width_of(prep)
    c = mk_circ(prep)
    qop = mk_op(op)
    terms = [t for t, cf in op_terms(op).items()]
    psi, p = SV.run_measured(prep["w"], n, dmr)
    if psi is None:
        return
    refs = [SV.pauli_basis_distribution(psi, n, t) for t in terms]

    def run(ch):
        be = get_backend("cirq", n_shots=shots)
        be.cirq = seams.CirqProxy(ch)
        with seams.patched(BK, "stats", seams.StatsProxy(ch)):
            f = {"exp": be.get_expectation_value, "var": be.get_variance, "se": be.get_standard_error}[what]
            try:
                v = as_complex(f(qop, c, desired_meas_result=dmr))
                return ("value", v, dict(getattr(be, "all_frequencies", {}) or {}))
            except choicetree.HorizonExceeded:
                raise
            except Exception as e:   # e.g. no shot matched the requested outcome: refusing is allowed
                return ("raised", type(e).__name__, dict(getattr(be, "all_frequencies", {}) or {}))

    n_exec = 0
    for choices, trace, infos, res in choicetree.explore(run, horizon=14, max_exec=4000):
        n_exec += 1
        acc.ev()
        acc.transitions += len(trace)
        for t3, info in zip(trace, infos):
            if t3[2] in ("sample_density_matrix", "sample_state_vector"):
                handed = info["probs"]
            elif t3[2] == "rv_discrete.rvs":
                handed = decode(info, n)
            else:
                continue
            if not any(max([abs(handed.get(kk, 0) - r.get(kk, 0)) for kk in set(handed) | set(r)]) < 1e-9 for r in refs):
                acc.violation(f"cirq/dmr-shots/{what}/sampler-handed-distribution-without-post-selection/{op_sig(op)}", case,
                              {"handed": handed, "post_selected_refs": refs, "sampler": t3[2]},
                              group=f"cirq/dmr-shots/{what}/sampler-handed-distribution-without-post-selection")
        # single-term operators: the estimate must be the mean parity over exactly the shots whose mid-circuit record
        # equals the requested string (the table of shots recorded by the backend for that term)
        nz = [(t, cf) for t, cf in op_terms(op).items() if t]
        if what == "exp" and len(nz) == 1 and res != "HORIZON" and res[0] == "value":
            nm = len(dmr)
            allf = res[2]
            sel = {k[nm:]: v for k, v in allf.items() if k[:nm] == dmr}
            tot = sum(sel.values())
            if tot == 0 and allf and all(len(k) == nm + n for k in allf):
                acc.violation(f"cirq/dmr-shots/exp/estimate-although-no-shot-matches/{op_sig(op)}", case,
                              {"returned": res[1], "recorded_shots": allf, "desired": dmr},
                              group="cirq/dmr-shots/exp/estimate-although-no-shot-matches")
            if tot > 0 and all(len(k) == nm + n for k in allf):
                t, cf = nz[0]
                want = cf * sum(v / tot * SV.parity_value(k, t) for k, v in sel.items()) + sum(cf2 for t2, cf2 in op_terms(op).items() if not t2)
                if abs(res[1] - want) > 1e-12:
                    acc.violation(f"cirq/dmr-shots/exp/estimate-not-from-post-selected-shots/{op_sig(op)}", case,
                                  {"returned": res[1], "expected": want, "recorded_shots": allf, "desired": dmr},
                                  group="cirq/dmr-shots/exp/estimate-not-from-post-selected-shots")
        acc.out((what, repr(res[:2]) if res != "HORIZON" else res))
    if choicetree.explore.capped:
        acc.caps.append("dmr-shots execution cap")
    acc.states += n_exec
    if n_exec > 1:
        acc.nt(("dmr-shots", what, prep["w"], op, dmr))


def check_history(case, acc):
    """E2-style: ONE backend object serves a sequence of evaluations; operator objects are modified in place between
    calls and circuits change. Every value must be that of the current operator and circuit (no state may leak from an
    earlier call: stale translated operators, cached states, ...)."""
    from tangelo.linq import get_backend
    from tangelo.toolboxes.operators import QubitOperator
    P = case["preps"]
    be = get_backend(case["backend"], n_shots=None)
    order = be.backend_info()["statevector_order"]
    objs = {}
    hist = []
    for step in case["steps"]:
        hist.append(step)
        kind = step[0]
        if kind == "new":          # ("new", name, op)
            objs[step[1]] = mk_op([tuple(x) for x in step[2]])
            continue
        if kind == "iadd":         # ("iadd", name, word, coef)  in-place modification of an existing operator object
            objs[step[1]] += QubitOperator(word_to_term(step[2]), step[3])
            continue
        if kind == "imul":
            objs[step[1]] *= step[2]
            continue
        if kind == "setterm":
            objs[step[1]].terms[word_to_term(step[2])] = step[3]
            continue
        # ("eval", name, prep index, init)
        _, name, pi, init_kind = step
        prep = P[pi]
        n = width_of(prep)
        init = dense_state(n) if init_kind == "dense" else None
        psi = SV.run(prep["w"], n, init)
        terms = {t: c for t, c in objs[name].terms.items()}
        ref = complex(np.vdot(psi, SV.op_matrix(terms, n) @ psi))
        init_be = None if init is None else SV.to_order(init, n, order)
        acc.ev()
        acc.transitions += 1
        try:
            got = as_complex(be.get_expectation_value(objs[name], mk_circ(prep), initial_statevector=init_be))
        except Exception as e:
            acc.violation(f"{case['backend']}/history/exception", dict(case, steps=list(hist)), {"err": repr(e)[:300]},
                          group=f"{case['backend']}/history/exception")
            return
        if abs(got - ref) > 1e-8:
            acc.violation(f"{case['backend']}/history/value-depends-on-earlier-calls", dict(case, steps=list(hist)),
                          {"got": got, "ref": ref}, group=f"{case['backend']}/history/value-depends-on-earlier-calls")
            return
    acc.nt(("history", case["steps"]))


def histories(tier):
    """All sequences eval . mutate . eval (. mutate . eval) over a small menu; operator words fit 2 qubits."""
    ops0 = [[("ZII", 1.0)], [("XXI", 0.5), ("IZI", -1.0)]]
    muts = [("iadd", "XII", 0.7), ("iadd", "ZII", -1.0), ("imul", 2.0), ("setterm", "IYI", 0.25), ("setterm", "ZII", 0.0)]
    evs = [(2, None), (3, None), (3, "dense"), (0, None), (5, None)]
    out = []
    depth = 2 if tier == "quick" else 3
    for o in ops0:
        for e0 in evs:
            base = [("new", "A", o), ("eval", "A", e0[0], e0[1])]
            def rec(prefix, d):
                if d == 0:
                    return
                for m in muts:
                    for e in evs[:3] if tier == "quick" else evs:
                        mstep = (m[0], "A") + tuple(m[1:])
                        h = prefix + [mstep, ("eval", "A", e[0], e[1])]
                        out.append(h)
                        rec(h, d - 1)
            rec(base, depth)
    # two operator objects alternating on the same backend
    out.append([("new", "A", ops0[0]), ("new", "B", ops0[1]), ("eval", "A", 2, None), ("eval", "B", 2, None), ("eval", "A", 3, None),
                ("iadd", "B", "XII", 0.7), ("eval", "B", 3, None), ("eval", "A", 2, None)])
    return out


# ---------------------------------------------------------------------------------------------------------------------

def bounds(tier, seed):
    return {"n_operators": len(operators(tier)), "n_preparations": len(preps(seed)), "n_measured_preparations": len(meas_preps(seed)),
            "n_shots": [1, 2], "tier": tier}


def shards(tier, seed):
    sh = []
    P, M = preps(seed), meas_preps(seed)
    nops = len(operators(tier))
    chunk = 160 if tier == "quick" else 80
    for pi in range(len(P)):
        for init in (None, "dense"):
            for lo in range(0, nops, chunk):
                sh.append({"kind": "exact", "backend": "cirq", "pi": pi, "init": init, "lo": lo, "hi": min(nops, lo + chunk), "seed": seed})
    for mi in range(len(M)):
        sh.append({"kind": "exact_meas", "mi": mi, "seed": seed, "tier": tier})
    sy_preps = (0, 2, 3, 5) if tier == "quick" else (0, 2, 3, 4, 5, 6, 10)
    for pi in sy_preps:
        for part in range(4):
            sh.append({"kind": "exact_sympy", "pi": pi, "part": part, "seed": seed, "tier": tier})
    for pi in (0, 2, 3, 4, 5, 10):
        for what in ("exp", "var", "se"):
            sh.append({"kind": "shots", "pi": pi, "what": what, "seed": seed, "tier": tier})
    for part in range(16):
        sh.append({"kind": "history", "part": part, "seed": seed, "tier": tier})
    for mi in (0, 1, 2, 4):
        sh.append({"kind": "mixed_shots", "mi": mi, "seed": seed, "tier": tier})
        sh.append({"kind": "dmr_shots", "mi": mi, "seed": seed, "tier": tier})
    CH = 10 ** 7   # chunk size of the sampling loop (a local constant of the implementation); shot numbers on both sides of its
    #                multiples and one that is no multiple of any round chunk size
    for shots in ((2500001, CH - 1, CH, CH + 1) if tier == "quick" else (9, 65, 2500001, CH - 1, CH, CH + 1, 2 * CH)):
        sh.append({"kind": "bulk_shots", "n_shots": shots, "seed": seed, "tier": tier})
    for n in (9, 10, 11, 12):      # post-selected estimates on wide registers (measurement keys with two digits)
        sh.append({"kind": "wide", "n": n, "seed": seed, "tier": tier})
    sh.sort(key=lambda x: -x.get("n_shots", 0) if x["kind"] == "bulk_shots" else 1)
    return sh


def run_shard(sh):
    acc = Acc()
    seed = sh["seed"]
    P, M = preps(seed), meas_preps(seed)
    k = sh["kind"]
    if k == "bulk_shots":
        check_bulk_shots({"kind": "bulk_shots", "n_shots": sh["n_shots"]}, acc)
        acc.sample({"kind": "bulk_shots", "n_shots": sh["n_shots"]}, cap=1)
        return acc
    if k == "wide":
        from props import c10
        for nm in (1, 2):
            for shots in (1, 2):
                c10.check_wide({"kind": "wide", "n": sh["n"], "n_meas": nm, "n_shots": shots}, acc)
        acc.sample({"kind": "wide", "n": sh["n"], "n_meas": 1, "n_shots": 2}, cap=1)
        return acc
    if k == "exact":
        prep = P[sh["pi"]]
        n = width_of(prep)
        ops = operators("quick")[sh["lo"]:sh["hi"]]
        for i, op in enumerate(ops):
            if not op_fits(op, n):
                continue
            case = {"kind": "exact", "backend": "cirq", "prep": prep, "init": sh["init"], "op": op, "variance": (i % 4 == 0)}
            acc.states += 1
            acc.transitions += 1
            check_exact(case, acc)
        acc.sample({"kind": "exact", "backend": "cirq", "prep": prep, "init": sh["init"], "op": ops[0]}, cap=1)
    elif k == "exact_meas":
        if sh["mi"] == 0:
            acc.caps.append("measured preparations, sympy and finite-shot families use a deterministic sub-list of the 915 operators "
                            "(every 2nd..7th); the exact cirq family covers the full operator x preparation product")
        prep = M[sh["mi"]]
        n = width_of(prep)
        nm = SV.n_measures(prep["w"])
        ops = [op for op in operators("quick") if op_fits(op, n)]
        ops = ops[::7] if sh["tier"] == "quick" else ops[::2]
        for bits in itertools.product("01", repeat=nm):
            for init in (None, "dense"):
                for i, op in enumerate(ops):
                    case = {"kind": "exact", "backend": "cirq", "prep": prep, "init": init, "op": op, "dmr": "".join(bits),
                            "variance": (i % 5 == 0)}
                    acc.states += 1
                    acc.transitions += 1
                    check_exact(case, acc)
        acc.sample({"kind": "exact", "backend": "cirq", "prep": prep, "op": ops[3], "dmr": "1" * nm}, cap=1)
    elif k == "exact_sympy":
        prep = P[sh["pi"]]
        n = width_of(prep)
        ops = [op for op in operators("quick") if op_fits(op, n) and len(op) == 1 and op[0][1] in (1, 0.3 + 0.4j)]
        ops += [op for op in operators("quick") if op_fits(op, n) and len(op) == 2 and op[0][1] == 1 and op[1][1] == -0.5][::3]
        step = 6 if sh["tier"] == "quick" else 2
        ops = ops[sh["part"]::4][::step]
        for op in ops:
            for init in (None, "dense"):
                case = {"kind": "exact", "backend": "sympy", "prep": prep, "init": init, "op": op}
                acc.states += 1
                acc.transitions += 1
                check_exact(case, acc)
    elif k == "shots":
        prep = P[sh["pi"]]
        n = width_of(prep)
        single = [[(w, c)] for w in WORDS3 if op_fits([(w, 1)], n) for c in (1, -0.5)]
        if n == 2:
            single = [op for op in single]
        # keep the tree finite and small: 1-term operators with 2 shots, 2-term operators with 1 shot
        single = single[::2] if sh["tier"] == "quick" else single
        two = [op for op in operators("quick") if len(op) == 2 and op_fits(op, n) and op[0][1] == 1 and op[1][1] == -0.5]
        two = two[::6] if sh["tier"] == "quick" else two[::2]
        for op in single:
            for shots in (1, 2):
                if n >= 3 and shots == 2:
                    continue
                acc.states += 1
                check_shots({"kind": "shots", "prep": prep, "op": op, "n_shots": shots, "what": sh["what"]}, acc)
        for op in two:
            if n >= 3:
                continue
            acc.states += 1
            check_shots({"kind": "shots", "prep": prep, "op": op, "n_shots": 1, "what": sh["what"]}, acc)
        if sh["what"] == "exp":
            acc.states += 1
            check_shots({"kind": "shots", "prep": prep, "op": single[1], "n_shots": 1, "what": "exp", "init": "dense"}, acc)
        else:
            # complex coefficients with finite shots (variance / standard error are real, non-negative numbers)
            # (four sampler calls per case: kept to registers of <= 2 qubits and one shot so that the tree stays at <= 256 executions)
            if n <= 2:
                for w in [x for x in WORDS3 if op_fits([(x, 1)], n) and set(x) != {"I"}][:3]:
                    acc.states += 1
                    check_shots({"kind": "shots", "prep": prep, "op": [(w, 0.3 + 0.4j)], "n_shots": 1, "what": sh["what"]}, acc)
        acc.sample({"kind": "shots", "prep": prep, "op": single[1], "n_shots": 2, "what": sh["what"]}, cap=1)
    elif k == "mixed_shots":
        prep = M[sh["mi"]]
        n = width_of(prep)
        single = [[(w, c)] for w in WORDS3 if op_fits([(w, 1)], n) for c in (1,)]
        single = single[::3] if sh["tier"] == "quick" else single
        for op in single:
            for shots in ((1, 2) if n == 2 else (1,)):
                acc.states += 1
                check_mixed_shots({"kind": "mixed_shots", "prep": prep, "op": op, "n_shots": shots}, acc)
        two = [[("ZII", 0.5), ("IXI", -0.5)], [("XXI", 1), ("III", 0.25)]]
        for op in two:
            if op_fits(op, n):
                check_mixed_shots({"kind": "mixed_shots", "prep": prep, "op": op, "n_shots": 1}, acc)
        acc.sample({"kind": "mixed_shots", "prep": prep, "op": single[1], "n_shots": 1}, cap=1)
    elif k == "history":
        H = histories(sh["tier"])
        for i, h in enumerate(H):
            if i % 16 != sh["part"]:
                continue
            for b in (("cirq", "sympy") if len(h) <= 4 and i % 5 == 0 else ("cirq",)):
                acc.states += 1
                check_history({"kind": "history", "backend": b, "preps": P, "steps": h}, acc)
        if sh["part"] == 0:
            acc.sample({"kind": "history", "backend": "cirq", "steps": H[7]}, cap=1)
    elif k == "dmr_shots":
        prep = M[sh["mi"]]
        n = width_of(prep)
        nm = SV.n_measures(prep["w"])
        ops = [[("ZII", 1)], [("XII", 1)], [("IYI", -0.5)], [("ZZI", 1)]]
        for bits in itertools.product("01", repeat=nm):
            for op in ops:
                for what in ("exp", "var"):
                    acc.states += 1
                    check_dmr_shots({"kind": "dmr_shots", "prep": prep, "op": op, "n_shots": 1, "what": what, "dmr": "".join(bits)}, acc)
                if nm <= 1 or sh["tier"] == "thorough":
                    check_dmr_shots({"kind": "dmr_shots", "prep": prep, "op": op, "n_shots": 2, "what": "exp", "dmr": "".join(bits)}, acc)
        acc.sample({"kind": "dmr_shots", "prep": prep, "op": ops[0], "n_shots": 1, "what": "var", "dmr": "1" * nm}, cap=1)
    return acc


def replay_case(case):
    acc = Acc()
    k = case.get("kind")
    case = dict(case)
    if "op" in case:
        case["op"] = [(w, (complex(c["re"], c["im"]) if isinstance(c, dict) else c)) for w, c in case["op"]]
    if k == "bulk_shots":
        check_bulk_shots(case, acc)
    elif k == "wide":
        from props import c10
        c10.check_wide(case, acc)
    elif k == "exact":
        check_exact(case, acc)
    elif k == "shots":
        check_shots(case, acc)
    elif k == "mixed_shots":
        check_mixed_shots(case, acc)
    elif k == "dmr_shots":
        check_dmr_shots(case, acc)
    elif k == "history":
        case["steps"] = [tuple(x) for x in case["steps"]]
        check_history(case, acc)
    return acc


def selftest():
    SV.selftest()


if __name__ == "__main__":
    import sys
    runner.main(sys.modules[__name__])
