"""C20 - Fourier transform, state initialisation and phase estimation are exact.

E1: (a) every ordered qubit list out of a width-4 register x swap x inverse x n_qubits for get_qft_circuit, reference =
DFT matrix written out in numpy; (b) every vector of a finite amplitude alphabet for StateVector (initialising and
uncomputing circuits, both orders, set_n_qubits on/off), reference = numpy simulation of the returned gate list;
(c) QPESolver in exact mode for every register size m <= 3, every representable phase k/2^m, a catalogue of diagonal and
commuting non-diagonal Hamiltonians / user circuits and every way of building the controlled unitary.
E3: (d) IterativeQPESolver with n_shots in {1,2}: every answer of np.random.random() (grid) at every mid-circuit
measurement and every answer of the final state sampler; all executions must report the same bits.
"""
import itertools
import math

import numpy as np

from mc import runner, choicetree, seams
from mc.runner import Acc
from mc.ref import statevec as SV
from mc.ref import trotter as TR

PID = "C20"
DESIGN_REF = "DESIGN.md section 2 / C20"
ENGINE = "seqspace (qubit lists, amplitude vectors, (m,k,Hamiltonian,unitary) catalogue) + choicetree (scripted random(), state sampler)"
RULE = ("cases = (qubit list | int, n_qubits, swap, inverse) for the QFT; (vector, order, set_n_qubits) for StateVector; "
        "(m, k, Hamiltonian family + eigenstate | user circuit, way of building the controlled unitary, sign/time convention, "
        "form of ref_state) for QPE (exact) and iterative QPE (every execution of the choice tree); non-trivial = QFT on >= 2 "
        "qubits (controlled phases present), vector with >= 2 non-zero amplitudes, phase estimation with k != 0 (a non-zero "
        "phase has to be read out); distinct = distinct case descriptor")
ASSUMPTIONS = [
    "QFT: registers of 1..4 distinct qubits inside circuits of width <= 6; StateVector: 1..3 qubits, amplitude alphabet "
    "{0,1,-1,i,1+i} (3 qubits: <= 2 non-zeros) + 40 dense vectors; phase estimation: register size m <= 3, one or two state "
    "qubits, Hamiltonians whose terms commute (every Trotter order is then exact), cirq backend only",
    "eigenphases are exactly k/2^m (premise verified on a dense numpy reference of the unitary to 1e-11, otherwise harness error); "
    "non-representable phases are outside the statement",
    "control_method='variational' is only used on circuits whose non-variational gates compose to the identity (verified)",
    "np.random.random() answers range over the grid {(i+0.4)/K}; every recorded branch probability must be 1 within 1e-9, so "
    "the grid value cannot matter; n_shots in {1,2}",
    "tolerance 1e-9 on unitaries, amplitudes and frequencies (no phase freedom except for the uncomputing circuit)",
    "set_n_qubits=True is read as documented: the returned circuit spans the n qubits of the vector",
]
TOL = 1e-9
PI = math.pi


def G(name, t, c=None, p="", v=False):
    return [name, list(t), (None if c is None else list(c)), p, v]


def mk_gate(d):
    from tangelo.linq import Gate
    return Gate(d[0], list(d[1]), (None if d[2] is None else list(d[2])), d[3], d[4])


def mk_circ(word, nq=None):
    from tangelo.linq import Circuit
    return Circuit([mk_gate(d) for d in word], n_qubits=nq)


def gl(circ):
    return [SV.desc(g) for g in circ._gates]


# =====================================================================================================================
# (a) quantum Fourier transform

def dft(n, sign=1):
    N = 2 ** n
    x = np.arange(N)
    return np.exp(sign * 2j * PI * np.outer(x, x) / N) / math.sqrt(N)


def bitrev(n):
    N = 2 ** n
    R = np.zeros((N, N), dtype=complex)
    for i in range(N):
        R[int(format(i, f"0{n}b")[::-1], 2), i] = 1
    return R


def qft_reference(L, W, inverse, swap):
    """Reference operation on W qubits: DFT on the register L (L[j] carries weight 2^j) tensor identity.
    swap=False: forward = (bit reversal) . F  (output bit-reversed); inverse = adjoint of that."""
    n = len(L)
    F = dft(n, 1)
    if not swap:
        F = bitrev(n) @ F
    if inverse:
        F = F.conj().T
    # SV.embed: first listed sub-qubit is the MOST significant one -> hand the list reversed
    return SV.embed(F, list(reversed(L)), W)


def check_qft(case, acc):
    from tangelo.toolboxes.ansatz_generator.ansatz_utils import get_qft_circuit
    q, nq, swap, inv = case["qubits"], case["n_qubits"], case["swap"], case["inverse"]
    L = list(range(q)) if isinstance(q, int) else list(q)
    sg = f"len{len(L)}/swap={swap}/inverse={inv}"

    def bad(kind, detail):
        acc.violation(f"get_qft_circuit/{kind}/{sg}", case, detail, group=f"get_qft_circuit/{kind}")

    arg = q if isinstance(q, int) else list(q)
    acc.ev()
    try:
        c = get_qft_circuit(arg, n_qubits=nq, inverse=inv, swap=swap)
        cf = get_qft_circuit(arg, n_qubits=nq, inverse=False, swap=swap)
    except Exception as e:
        bad("exception", {"err": repr(e)[:300]})
        return
    if not isinstance(q, int) and arg != list(q):
        bad("argument-mutated", {"after": arg})
    if not isinstance(q, int):
        # the same register handed over in other container types: same circuit (a type the unchanged code refuses is not required)
        for tname, alt in (("tuple", tuple(q)), ("numpy-array", np.array(list(q))), ("numpy-ints-in-list", [np.int64(x) for x in q])):
            acc.ev()
            try:
                c_alt = get_qft_circuit(alt, n_qubits=nq, inverse=inv, swap=swap)
            except Exception:
                acc.count(f"qft_container_type_refused[{tname}]")
                continue
            if gl(c_alt) != gl(c) or c_alt.width != c.width:
                bad(f"container-type-changes-the-circuit[{tname}]", {"list_form": gl(c), "other_form": gl(c_alt)})
    W = c.width
    want_w = nq if nq else max(L) + 1
    if W != want_w:
        bad("width", {"width": W, "expected": want_w})
        W = max(W, want_w)
    try:
        U = SV.unitary(gl(c), W)
        Uf = SV.unitary(gl(cf), W)
    except (KeyError, IndexError) as e:
        bad("gate-outside-register-or-unknown", {"err": repr(e), "gates": gl(c)})
        return
    ref = qft_reference(L, W, inv, swap)
    d = SV.dist(U, ref)
    if not d <= TOL:
        bad("not-the-DFT-of-the-listed-register", {"distance": d, "up_to_phase": SV.dist_up_to_phase(U, ref)})
    if inv:
        acc.ev()
        d2 = SV.dist(U, Uf.conj().T)
        if not d2 <= TOL:
            bad("inverse-is-not-the-adjoint", {"distance": d2})
    if len(L) >= 2:
        acc.nt(("qft", q, nq, swap, inv))
    acc.out(("qft", len(c._gates), W))


def qft_cases(tier):
    lists = []
    for n in (1, 2, 3):
        lists += [list(p) for p in itertools.permutations(range(4), n)]
    if tier == "thorough":
        lists += [list(p) for p in itertools.permutations(range(4), 4)]
        lists += [[5, 2], [4, 0, 5], [2, 5, 3, 4]]           # positions beyond the width-4 register
    ints = [1, 2, 3] + ([4] if tier == "thorough" else [])
    out = []
    for q in lists + ints:
        top = (q if isinstance(q, int) else max(q) + 1)
        for nq in (None, max(top + 1, 6 if tier == "thorough" else 5)):
            for swap in (True, False):
                for inv in (False, True):
                    out.append({"kind": "qft", "qubits": q, "n_qubits": nq, "swap": swap, "inverse": inv})
    return out


# =====================================================================================================================
# (b) StateVector

ENTRIES = [0, 1, -1, 1j, 1 + 1j]


def sv_vectors(tier, seed):
    """List of (tag, n, raw entries) - raw = un-normalised entries as [re, im] pairs (JSON-able)."""
    d = runner.seed_delta(seed)
    out = []
    for n in (1, 2):
        for idx in itertools.product(range(5), repeat=2 ** n):
            if any(idx):
                out.append(("alpha", n, [ENTRIES[i] for i in idx]))
    n = 3
    for pos in range(8):
        for a in range(1, 5):
            v = [0] * 8
            v[pos] = ENTRIES[a]
            out.append(("alpha", n, v))
    for p1, p2 in itertools.combinations(range(8), 2):
        for a in range(1, 5):
            for b in range(1, 5):
                v = [0] * 8
                v[p1], v[p2] = ENTRIES[a], ENTRIES[b]
                out.append(("alpha", n, v))
    i = np.arange(8)
    for j in range(20):        # real, signs mixed, some exact zeros, one all-negative (angle = pi / -pi branch)
        v = np.sin(1.3 * (i + 1) * (j + 1) + 0.37 + d) + 0.1 * (j % 3)
        if j % 5 == 1:
            v[(j // 5) % 8] = 0.0
            v[(j // 5 + 3) % 8] = 0.0
        if j == 7:
            v = -np.abs(v) - 0.05
        out.append(("dense-real", n, [float(x) for x in v]))
    for j in range(20):        # complex
        v = (1.0 + 0.23 * ((i * (j + 1)) % 8)) * np.exp(1j * (0.5 * i * i + 0.3 * (j + 1) * i + d))
        if j % 5 == 2:
            v[(j // 5 + 1) % 8] = 0.0
        if j == 9:
            v = -(np.abs(v) + 0j)          # entries (-x, -0.0): np.angle gives -pi
        out.append(("dense-complex", n, [complex(x) for x in v]))
    if tier == "thorough":     # 2-qubit dense generic ones as well
        i4 = np.arange(4)
        for j in range(10):
            v = (0.4 + ((i4 + j) % 3)) * np.exp(1j * (0.9 * i4 * (j + 1) + d))
            out.append(("dense-complex", 2, [complex(x) for x in v]))
    return out


def enc(v):
    return [[float(np.real(x)), float(np.imag(x))] for x in v]


def dec(raw, as_real):
    if as_real:
        return np.array([r for r, _ in raw], dtype=float)
    return np.array([complex(r, i) for r, i in raw], dtype=complex)


def check_sv(case, acc):
    from tangelo.linq.helpers.circuits.statevector import StateVector
    n, order, setn = case["n"], case["order"], case["set_n"]
    as_real = bool(case.get("real"))
    raw = dec(case["raw"], as_real)
    v = raw / np.linalg.norm(raw)
    v_in = v.copy()
    nnz = int(np.sum(np.abs(v) > 0))
    sg = f"n{n}/{order}/nnz{min(nnz, 3)}{'+' if nnz > 3 else ''}"
    e0 = np.zeros(2 ** n, dtype=complex)
    e0[0] = 1
    # the vector the register 0..n-1 must hold, in the reference convention (qubit 0 = most significant index bit)
    v_ref = SV.from_order(np.asarray(v, dtype=complex), n, order)

    def bad(site, kind, detail):
        acc.violation(f"StateVector.{site}/{kind}/{sg}", case, detail, group=f"StateVector.{site}/{kind}")

    # ---- initialising circuit -----------------------------------------------------------------------------------------------
    acc.ev()
    sv0 = None
    try:
        sv = sv0 = StateVector(v, order=order)
        kw = {} if setn is None else {"set_n_qubits": setn}
        c, ph = sv.initializing_circuit(return_phase=True, **kw)
        c_only = sv.initializing_circuit(**kw)
    except Exception as e:
        bad("initializing_circuit", "exception", {"err": repr(e)[:300]})
        c = None
    if c is not None:
        W = c.width
        gates = gl(c)
        if gl(c_only) != gates:
            bad("initializing_circuit", "return_phase-changes-the-circuit", None)
        if W > n or any(q >= n for g in gates for q in g[1] + (g[2] or [])):
            bad("initializing_circuit", "acts-outside-the-register", {"width": W})
        else:
            psi = SV.run(gates, n)            # idle qubits stay in |0>
            dd = SV.dist(np.exp(1j * ph) * psi, v_ref)
            if not dd <= TOL:
                bad("initializing_circuit", "prepared-state-differs", {"distance": float(dd), "up_to_phase": SV.dist_up_to_phase(psi, v_ref),
                                                                      "phase": float(ph), "width": W})
            if setn:
                acc.ev()
                if W != n:     # public observable: the circuit does not span the register of the vector
                    bad("initializing_circuit", "set_n_qubits-ignored", {"width": W, "n_qubits_attr": c._qubits_simulated, "expected": n})
        acc.out(("init", len(gates), W))
    # ---- uncomputing circuit ---------------------------------------------------------------------------------------------------
    acc.ev()
    try:
        sv = StateVector(v, order=order)
        kw = {} if setn is None else {"set_n_qubits": setn}
        u, phu = sv.uncomputing_circuit(return_phase=True, **kw)
    except Exception as e:
        bad("uncomputing_circuit", "exception", {"err": repr(e)[:300]})
        u = None
    if u is not None:
        gates = gl(u)
        if u.width > n or any(q >= n for g in gates for q in g[1] + (g[2] or [])):
            bad("uncomputing_circuit", "acts-outside-the-register", {"width": u.width})
        else:
            out = SV.run(gates, n, init=v_ref)
            dd = SV.dist_up_to_phase(out, e0)
            if not dd <= TOL:
                bad("uncomputing_circuit", "does-not-reach-zero-state", {"distance": float(dd)})
            else:
                acc.ev()
                d3 = SV.dist(np.exp(1j * phu) * out, e0)
                if not d3 <= TOL:
                    bad("uncomputing_circuit", "returned-phase", {"distance": float(d3), "phase": float(phu)})
            if setn:
                acc.ev()
                if u.width != n:
                    bad("uncomputing_circuit", "set_n_qubits-ignored", {"width": u.width, "n_qubits_attr": u._qubits_simulated})
    if u is not None and sv0 is not None and c is not None:
        # history: the object that already produced its initialising circuits is asked for the uncomputing circuit, and for the
        # initialising circuit once more: same answers as the fresh objects gave
        acc.ev()
        try:
            u2, phu2 = sv0.uncomputing_circuit(return_phase=True, **kw)
            c3, ph3 = sv0.initializing_circuit(return_phase=True, **kw)
            if gl(u2) != gl(u) or abs(phu2 - phu) > 1e-12 or gl(c3) != gl(c) or abs(ph3 - ph) > 1e-12:
                bad("history", "answer-depends-on-earlier-calls-on-the-same-object", None)
        except Exception as e:
            bad("history", "exception", {"err": repr(e)[:300]})
    if not np.array_equal(v, v_in):
        bad("__init__", "input-mutated", None)
    if nnz >= 2:
        acc.nt(("sv", case["raw"], order, setn))


def sv_cases(tier, seed):
    out = []
    for tag, n, ent in sv_vectors(tier, seed):
        real = (tag == "dense-real")
        for order in ("msq_first", "lsq_first"):
            for setn in (False, True):
                out.append({"kind": "sv", "n": n, "raw": enc(ent), "real": real, "order": order, "set_n": setn})
    return out


# =====================================================================================================================
# (c)/(d) phase estimation: problem catalogue

BELL = [G("H", [0]), G("CNOT", [1], [0])]
STATES = {
    # tag -> (n, preparation gates)
    "0": (1, []), "1": (1, [G("X", [0])]),
    "00": (2, []), "01": (2, [G("X", [1])]), "10": (2, [G("X", [0])]), "11": (2, [G("X", [0]), G("X", [1])]),
    "phi+": (2, BELL), "phi-": (2, [G("X", [0])] + BELL),
}
X0X1 = ((0, "X"), (1, "X"))
Y0Y1 = ((0, "Y"), (1, "Y"))
Z0Z1 = ((0, "Z"), (1, "Z"))
Z0 = ((0, "Z"),)
Z1 = ((1, "Z"),)

# Hamiltonian families: name -> (n, list of eigenstate tags)
FAMILIES = {
    "Z": (1, ["0", "1"]),
    "ZZ": (2, ["00", "01", "10", "11"]),
    "NUM": (2, ["10", "01", "11", "00"]),
    "XXZZ": (2, ["phi+", "phi-"]),
    "XXYY": (2, ["phi+", "phi-"]),
}
# user circuits: name -> (n, eigenstate tags, variational control admissible)
SHAPES = {
    "P1": (1, ["1"], True), "RZ1": (1, ["0", "1"], True), "XPX": (1, ["0"], True), "ZZc": (2, ["00", "01"], True),
    "BELL": (2, ["phi+"], True), "SWP": (2, ["11"], False), "TOF": (2, ["10"], True), "CRZ2": (2, ["10"], True),
    # circuits that leave a qubit below their width idle (the state register still spans 0..width-1)
    "P1hi": (2, ["01", "11"], True), "RZhi": (2, ["00", "11"], True),
}
TCONV = {"neg2pi": -2 * PI, "pos2pi": 2 * PI, "unit": None, "gen": "gen"}


def state_vector(tag):
    n, gates = STATES[tag]
    return SV.run(gates, n)


def expval(word, psi, n):
    return float(np.real(np.vdot(psi, TR.pauli_dense(word, n) @ psi)))


def hamiltonian_terms(fam, state, E, seed):
    """Ordered [(word, coefficient)] such that H|state> = E|state> (all terms commute)."""
    g = 0.3 + runner.seed_delta(seed)
    n = FAMILIES[fam][0]
    psi = state_vector(state)
    if fam == "Z":
        return [(Z0, E * expval(Z0, psi, n))]
    if fam == "ZZ":
        return [(Z0Z1, E * expval(Z0Z1, psi, n))]
    if fam == "NUM":      # s * (n0 + 2 n1) = s * (1.5 - 0.5 Z0 - Z1)
        occ = 0.5 * (1 - expval(Z0, psi, n)) + (1 - expval(Z1, psi, n))
        s = g if occ == 0 else E / occ
        return [((), 1.5 * s), (Z0, -0.5 * s), (Z1, -1.0 * s)]
    w2 = Z0Z1 if fam == "XXZZ" else Y0Y1
    ex, e2 = expval(X0X1, psi, n), expval(w2, psi, n)
    return [(X0X1, g), (w2, (E - g * ex) / e2)]


def circuit_shape(shape, state, phi_t, seed):
    """Gate descriptors of a user circuit whose eigenvalue on |state> is exp(2 pi i phi_t)."""
    g = 0.45 + runner.seed_delta(seed)
    two, four = 2 * PI * phi_t, 4 * PI * phi_t
    if shape == "P1":
        return [G("PHASE", [0], None, two, True)]
    if shape == "RZ1":
        return [G("RZ", [0], None, (-four if state == "0" else four), True)]
    if shape == "XPX":
        return [G("X", [0]), G("PHASE", [0], None, two, True), G("X", [0])]
    if shape == "ZZc":
        return [G("CNOT", [1], [0]), G("RZ", [1], None, (-four if state == "00" else four), True), G("CNOT", [1], [0])]
    if shape == "BELL":
        return [G("H", [0]), G("H", [1]), G("CNOT", [1], [0]), G("RZ", [1], None, g, True), G("CNOT", [1], [0]), G("H", [0]), G("H", [1]),
                G("CNOT", [1], [0]), G("RZ", [1], None, -four - g, True), G("CNOT", [1], [0])]
    if shape == "SWP":
        return [G("SWAP", [0, 1]), G("PHASE", [0], None, two, True)]
    if shape == "TOF":
        return [G("CNOT", [1], [0]), G("PHASE", [1], None, two, True), G("CNOT", [1], [0])]
    if shape == "CRZ2":
        return [G("CRZ", [1], [0], -four, True)]
    if shape == "P1hi":
        return [G("PHASE", [1], None, two, True)]
    if shape == "RZhi":
        return [G("RZ", [1], None, (-four if state == "00" else four), True)]
    raise KeyError(shape)


def build_problem(case):
    """Everything derived from the case descriptor + premise verification on the dense reference (harness error if the
    premise fails: the statement only speaks about exact eigenstates with representable phases)."""
    seed = case.get("seed", 0)
    m, k, u = case["m"], case["k"], case["u"]
    phi_t = k / 2 ** m + case.get("wind", 0)
    state = case["state"]
    n, prep = STATES[state]
    psi = SV.run(prep, n)
    P = {"n": n, "prep": prep, "psi": psi, "phi_t": phi_t, "bits": format(k, f"0{m}b")}
    if u["type"] == "trotter":
        tc = TCONV[u["tconv"]]
        if tc is None:
            t = 1.0
        elif tc == "gen":
            t = -(0.9 + runner.seed_delta(seed))
        else:
            t = tc
        E = -2 * PI * phi_t / t
        terms = hamiltonian_terms(case["fam"], state, E, seed)
        if FAMILIES[case["fam"]][0] != n:
            raise RuntimeError("family/state mismatch (harness)")
        if not TR.all_commute([w for w, _ in terms if w]):
            raise RuntimeError("terms do not commute (harness)")
        U = TR.evolution(terms, n, t)
        P.update(terms=terms, time=t, E=E)
    else:
        word = circuit_shape(u["shape"], state, phi_t, seed)
        U = SV.unitary(word, n)
        if u["control"] == "variational":
            rest = [d for d in word if not d[4]]
            if SV.dist(SV.unitary(rest, n), np.eye(2 ** n)) > 1e-12:
                raise RuntimeError("variational control on a circuit whose fixed part is not the identity (harness)")
        P.update(word=word)
    res = np.linalg.norm(U @ psi - np.exp(2j * PI * k / 2 ** m) * psi)
    if res > 1e-11:
        raise RuntimeError(f"premise not met: residual {res} for {case}")
    P["U"] = U
    return P


def qubit_operator(terms):
    from tangelo.toolboxes.operators import QubitOperator
    H = QubitOperator()
    for w, c in terms:
        H += QubitOperator(" ".join(f"{p}{q}" for q, p in w), c)
    return H


def solver_options(case, P, n_shots):
    """Fresh option dictionary (fresh Tangelo objects) for QPESolver / IterativeQPESolver."""
    from tangelo.toolboxes.unitary_generator import TrotterSuzukiUnitary, CircuitUnitary
    u = case["u"]
    opts = {"size_qpe_register": case["m"], "backend_options": {"target": "cirq", "n_shots": n_shots}}
    rf = case.get("ref_form", "circuit")
    if rf == "circuit":
        opts["ref_state"] = mk_circ(P["prep"])
    elif rf == "list":
        opts["ref_state"] = [int(b) for b in case["state"]]
    elif rf == "none":
        pass
    else:
        raise KeyError(rf)
    if u["type"] == "trotter":
        uo = {"trotter_order": u["order"], "n_trotter_steps": u["steps"], "n_steps_method": u["method"]}
        if u["tconv"] != "unit":
            uo["time"] = P["time"]
        if u.get("form", "builtin") == "builtin":
            opts["qubit_hamiltonian"] = qubit_operator(P["terms"])
            opts["unitary_options"] = uo
        else:
            opts["unitary"] = TrotterSuzukiUnitary(qubit_operator(P["terms"]), **uo)
    else:
        circ = mk_circ(P["word"])
        if u.get("form", "circuit") == "circuit":
            opts["unitary"] = circ
            opts["unitary_options"] = {"control_method": u["control"]}
        else:
            opts["unitary"] = CircuitUnitary(circ, control_method=u["control"])
    return opts


def usig(case):
    u = case["u"]
    if u["type"] == "trotter":
        return f"trotter:{case['fam']}/order{u['order']}/{u['method']}"
    return f"circuit:{u['shape']}/{u['control']}"


def check_qpe(case, acc):
    from tangelo.algorithms.projective.qpe import QPESolver
    P = build_problem(case)
    m, k = case["m"], case["k"]
    sg = usig(case)

    def bad(kind, detail):
        acc.violation(f"QPESolver/{kind}/{sg}", case, detail, group=f"QPESolver/{kind}")

    acc.ev()
    try:
        s = QPESolver(solver_options(case, P, None))
        s.build()
        energy = s.simulate()
    except Exception as e:
        bad("exception", {"err": repr(e)[:300]})
        return
    fr = {b: float(v) for b, v in s.qpe_freqs.items()}
    want = P["bits"]
    f = fr.get(want, 0.0)
    if any(len(b) != m for b in fr):
        bad("register-bitstring-length", {"freqs": fr})
    elif not abs(f - 1) <= TOL:
        best = max(fr, key=fr.get)
        bad("phase-not-certain", {"expected_bits": want, "freq_of_expected": f, "most_probable": best, "freq": fr[best]})
    elif s.bitstring != want or abs(energy - k / 2 ** m) > 1e-12:
        bad("returned-phase", {"bitstring": s.bitstring, "energy": float(energy), "expected": k / 2 ** m})
    if k != 0:
        acc.nt(("qpe", case))
    acc.out(("qpe", s.bitstring))


def check_unitary_object_history(case, acc):
    """E2-style: ONE unitary object (TrotterSuzukiUnitary / CircuitUnitary) serves several solvers in a row - standard QPE with a
    3-qubit register, then a 2-qubit register, then a 1-qubit register, then 3 again; the eigenphase 1/2 is representable in all of
    them, so every solver must return it with certainty (nothing the object remembered from an earlier solver may leak)."""
    from tangelo.algorithms.projective.qpe import QPESolver
    sg = usig(case)

    def bad(kind, detail):
        acc.violation(f"QPESolver(shared unitary object)/{kind}/{sg}", case, detail, group=f"QPESolver(shared unitary object)/{kind}")

    shared = None
    for step, m in enumerate(case["registers"]):
        c = dict(case, m=m, k=2 ** (m - 1))
        P = build_problem(c)
        opts = solver_options(c, P, None)
        if shared is None:
            shared = opts["unitary"]
        opts["unitary"] = shared
        acc.ev()
        acc.transitions += 1
        try:
            s = QPESolver(opts)
            s.build()
            s.simulate()
        except Exception as e:
            bad("exception", {"step": step, "register": m, "err": repr(e)[:300]})
            return
        fr = {b: float(v) for b, v in s.qpe_freqs.items()}
        want = "1" + "0" * (m - 1)
        if abs(fr.get(want, 0.0) - 1) > TOL or s.bitstring != want:
            bad("answer-depends-on-earlier-solvers", {"step": step, "register": m, "freqs": fr, "expected": want})
            return
    acc.states += 1
    acc.nt(("unitary-history", case["u"], case["state"], tuple(case["registers"])))
    acc.out(("unitary-history", sg))


def unitary_history_cases(seed):
    out = []
    for regs in ([3, 2, 1, 3], [1, 3, 2], [2, 3]):
        for fam, st in (("Z", "1"), ("XXZZ", "phi+")):
            for (o, meth) in ((1, "time"), (2, "repeat")):
                out.append({"kind": "uhist", "fam": fam, "state": st, "wind": 0, "ref_form": "circuit", "seed": seed, "registers": regs,
                            "u": {"type": "trotter", "order": o, "steps": 1, "method": meth, "tconv": "neg2pi", "form": "object"}})
        for shape, st in (("P1", "1"), ("TOF", "10")):
            for ctl in ("all", "variational"):
                out.append({"kind": "uhist", "state": st, "wind": 0, "ref_form": "circuit", "seed": seed, "registers": regs,
                            "u": {"type": "circuit", "shape": shape, "control": ctl, "form": "object"}})
    return out


def check_iqpe(case, acc):
    from tangelo.algorithms.projective.iqpe import IterativeQPESolver
    import tangelo.linq.target.backend as BK
    P = build_problem(case)
    m, k, shots, K = case["m"], case["k"], case["n_shots"], case["K"]
    sg = usig(case)
    want = P["bits"]

    def bad(kind, detail):
        acc.violation(f"IterativeQPESolver/{kind}/{sg}", case, detail, group=f"IterativeQPESolver/{kind}")

    def run(ch):
        s = IterativeQPESolver(solver_options(case, P, shots))
        s.build()
        be = s.backend
        be.cirq = seams.CirqProxy(ch)
        probs = []
        orig = be.perform_measurement

        def pm(statevector, qubit, desired_meas_result=None):
            out = orig(statevector, qubit, desired_meas_result)
            probs.append((out[0], float(out[2])))
            return out
        be.perform_measurement = pm
        with seams.patched(BK, "np", seams.NumpyProxy(ch, K)):
            e = s.simulate()
        return {"energy": float(e), "bitstring": s.bitstring, "qpe_freqs": {b: float(v) for b, v in s.qpe_freqs.items()},
                "meas": list(s.cfunc.measurements), "probs": probs}

    n_exec = 0
    outcomes = set()
    try:
        for choices, trace, infos, out in choicetree.explore(run, max_exec=case.get("max_exec", 40000)):
            n_exec += 1
            acc.ev()
            acc.transitions += len(trace)
            nd = sum(1 for t in trace if t[2] == "np.random.random")
            grid = [(c + seams.GRID_OFFSET) / K for (_, c, lab) in trace if lab == "np.random.random"]
            # every measured bit, as recorded by the solver's own classical control (one string per shot, least significant bit
            # first) and - when the draws have the layout "1 discarded measurement of the fresh ancilla + m bits" per shot - as
            # returned by the backend's measurement routine
            for sh_bits in out["meas"][:shots]:
                if sh_bits != want[::-1]:
                    bad("measured-bit-differs", {"measured_lsb_first": sh_bits, "expected_lsb_first": want[::-1], "choices": choices,
                                                 "grid": grid})
                    break
            if nd == shots * (m + 1) and len(out["probs"]) == nd:
                acc.count("iqpe_backend_level_bit_checks")
                for i in range(shots):
                    sh = out["probs"][i * (m + 1):(i + 1) * (m + 1)]
                    if "".join(b for b, _ in sh[1:]) != want[::-1] or sh[0][0] != "0":
                        bad("measured-bit-differs", {"backend_outcomes": "".join(b for b, _ in sh), "expected_lsb_first": "0" + want[::-1],
                                                     "choices": choices, "grid": grid})
                        break
            worst = max([abs(p - 1) for _, p in out["probs"]] + [0.0])
            if worst > TOL:
                bad("branch-probability-not-0-or-1", {"probabilities": [p for _, p in out["probs"]], "choices": choices})
            if out["meas"][:shots] != [want[::-1]] * shots or out["bitstring"] != want or abs(out["energy"] - k / 2 ** m) > 1e-12 \
                    or out["qpe_freqs"] != {want: 1.0}:
                bad("returned-phase", {"out": {kk: vv for kk, vv in out.items() if kk != "probs"}, "expected_bits": want, "choices": choices})
            outcomes.add((out["bitstring"], out["energy"], tuple(out["meas"])))
    except choicetree.ReplayDivergence:
        raise
    except seams.UnownedRandomness:
        raise
    except Exception as e:
        bad("exception", {"err": repr(e)[:300]})
        return
    if choicetree.explore.capped:
        acc.caps.append("iqpe execution cap")
    acc.states += n_exec
    acc.count("iqpe_executions", n_exec)
    if len(outcomes) > 1:
        bad("outcome-depends-on-the-random-answers", {"outcomes": sorted(map(repr, outcomes))[:6]})
    if k != 0:
        acc.nt(("iqpe", case))
    for o in outcomes:
        acc.out(("iqpe", o[0]))


# ---- catalogue ------------------------------------------------------------------------------------------------------------

def mk_pairs():
    return [(m, k) for m in (1, 2, 3) for k in range(2 ** m)]


def trotter_variants(tier, level, m):
    """(order, steps, method, tconv, form). level: 'qpe' (exact, cheap) or 'iqpe1' / 'iqpe2' (choice tree)."""
    full = []
    for o in (1, 2, 4):
        for meth in ("time", "repeat"):
            full.append((o, 1, meth))
    full += [(1, 2, "time"), (2, 2, "repeat")]
    if tier == "thorough":
        full += [(1, 2, "repeat"), (2, 2, "time"), (4, 2, "time"), (4, 2, "repeat")]
    out = []
    if level == "qpe":
        tcs = ("neg2pi", "unit") if tier == "quick" else ("neg2pi", "unit", "pos2pi", "gen")
        for (o, s, meth) in full:
            for tc in tcs:
                out.append((o, s, meth, tc, "builtin"))
        out.append((1, 1, "time", "neg2pi", "object"))
        out.append((2, 1, "repeat", "unit", "object"))
    elif level == "iqpe1":
        if tier == "quick":
            out = [(1, 1, "time", "neg2pi", "builtin"), (2, 1, "repeat", "unit", "builtin"), (4, 1, "time", "neg2pi", "builtin"),
                   (1, 2, "repeat", "neg2pi", "object")]
        else:
            for i, (o, s, meth) in enumerate(full):
                out.append((o, s, meth, ("neg2pi", "unit")[i % 2], "builtin"))
            out += [(1, 1, "time", "pos2pi", "object"), (2, 1, "repeat", "gen", "object")]
    else:
        out = [(1, 1, "time", "neg2pi", "builtin"), (2, 1, "repeat", "unit", "builtin")]
        if tier == "thorough" and m <= 2:
            out += [(4, 1, "repeat", "neg2pi", "builtin")]
    return out


def pe_cases(tier, seed, level):
    """All phase-estimation case descriptors of one level ('qpe', 'iqpe1', 'iqpe2')."""
    out = []
    kind = "qpe" if level == "qpe" else "iqpe"
    for m, k in mk_pairs():
        if level == "iqpe2" and m == 3 and tier == "quick":
            continue
        restricted = level == "iqpe2" and (tier == "quick" or m == 3)     # two shots square the size of the choice tree
        # ---- Hamiltonians through TrotterSuzukiUnitary
        for fam, (n, states) in FAMILIES.items():
            for st in states:
                if fam == "NUM" and st == "00" and k != 0:
                    continue                      # eigenvalue 0 whatever the scale
                if restricted and (fam, st) not in (("NUM", "11"), ("XXZZ", "phi+"), ("XXYY", "phi-"), ("Z", "1")):
                    continue
                if restricted and m == 3 and (fam, st) == ("XXYY", "phi-"):
                    continue                      # (16*2)^2 executions per case: one entangled family is kept at m = 3
                single = fam in ("Z", "ZZ") or (fam == "NUM" and st != "00")
                # total phase = k/2^m + wind; a single-term Hamiltonian with total phase 0 would be the empty operator
                # (outside the statement), so k = 0 is reached through one full turn there
                primary = 1 if (k == 0 and single) else 0
                winds = [primary]
                if tier == "thorough" and level == "qpe":
                    winds += [w for w in (1, -1) if w != primary]
                for wind_eff in winds:
                    for (o, s, meth, tc, form) in trotter_variants(tier, level, m):
                        if wind_eff != primary and not (tc == "neg2pi" and s == 1):
                            continue
                        rforms = ["circuit"]
                        if st in ("0", "1", "00", "01", "10", "11") and (o, s, meth) == (1, 1, "time") and form == "builtin":
                            rforms.append("list")
                            if st in ("0", "00"):
                                rforms.append("none")
                        for rf in rforms:
                            out.append({"kind": kind, "m": m, "k": k, "fam": fam, "state": st, "wind": wind_eff, "ref_form": rf,
                                        "seed": seed, "u": {"type": "trotter", "order": o, "steps": s, "method": meth, "tconv": tc,
                                                            "form": form}})
        # ---- user circuits through CircuitUnitary
        for shape, (n, states, var_ok) in SHAPES.items():
            for st in states:
                if restricted and shape not in (("TOF", "RZ1") if m == 3 else ("TOF", "BELL", "RZ1")):
                    continue
                for ctl in ("all", "variational"):
                    if ctl == "variational" and not var_ok:
                        continue
                    forms = ("circuit", "object")
                    if level != "qpe" and (tier == "quick" or restricted):
                        forms = ("circuit",) if ctl == "all" else ("object",)
                    for form in forms:
                        winds = [0] if not (tier == "thorough" and level == "qpe") else [0, 1, -1]
                        for wind in winds:
                            out.append({"kind": kind, "m": m, "k": k, "state": st, "wind": wind, "ref_form": "circuit", "seed": seed,
                                        "u": {"type": "circuit", "shape": shape, "control": ctl, "form": form}})
    if level != "qpe":
        shots = 1 if level == "iqpe1" else 2
        for c in out:
            c["n_shots"] = shots
            if shots == 1:
                c["K"] = {1: 4, 2: 2, 3: 2}[c["m"]] if tier == "quick" else {1: 8, 2: 3, 3: 2}[c["m"]]
            else:
                c["K"] = 2
    return out


# =====================================================================================================================

N_QFT, N_SV, N_QPE, N_IQ1, N_IQ2 = 2, 12, 32, 64, 48


def bounds(tier, seed):
    return {"tier": tier, "qft_cases": len(qft_cases(tier)), "statevector_cases": len(sv_cases(tier, seed)),
            "qpe_cases": len(pe_cases(tier, seed, "qpe")), "iqpe_1shot_cases": len(pe_cases(tier, seed, "iqpe1")),
            "iqpe_2shot_cases": len(pe_cases(tier, seed, "iqpe2")), "register_sizes": [1, 2, 3],
            "families": {k: v[1] for k, v in FAMILIES.items()}, "circuit_shapes": {k: v[1] for k, v in SHAPES.items()},
            "amplitude_alphabet": [str(e) for e in ENTRIES], "generic_coefficient": 0.3 + runner.seed_delta(seed),
            "grid_K": "1 shot: quick 4/2/2, thorough 8/3/2 for m=1/2/3; 2 shots: 2"}


def shards(tier, seed):
    sh = []
    for kind, n in (("iter2", N_IQ2), ("iter1", N_IQ1), ("exactpe", N_QPE), ("sv", N_SV), ("qft", N_QFT)):
        for i in range(n):
            sh.append({"kind": kind, "part": i, "of": n, "tier": tier, "seed": seed})
    return sh


def cost(c):
    """rough relative cost, to balance the shards (deterministic)."""
    w = 2 ** c["m"]
    if c["u"]["type"] == "trotter":
        w *= {1: 1, 2: 2, 4: 8}[c["u"]["order"]] * c["u"]["steps"] * (2 if c["u"]["method"] == "repeat" else 1)
    if c["kind"] == "iqpe":
        w *= (c["K"] ** (c["m"] + 1) * 2) ** c["n_shots"]
    return w


def deal(cases, part, of):
    """Deterministic balanced dealing: sort by decreasing cost, then serpentine over the shards."""
    order = sorted(range(len(cases)), key=lambda i: (-cost(cases[i]), i))
    mine = []
    for pos, i in enumerate(order):
        r, q = pos % (2 * of), pos // (2 * of)
        s = r if r < of else 2 * of - 1 - r
        if s == part:
            mine.append(cases[i])
    return mine


def run_shard(sh):
    acc = Acc()
    tier, seed, kind, part, of = sh["tier"], sh["seed"], sh["kind"], sh["part"], sh["of"]
    if kind == "qft":
        cases = qft_cases(tier)
        for i, c in enumerate(cases):
            if i % of == part:
                acc.states += 1
                acc.transitions += 1
                check_qft(c, acc)
        if part == 0:
            acc.sample(cases[len(cases) // 2], cap=1)
    elif kind == "sv":
        cases = sv_cases(tier, seed)
        for i, c in enumerate(cases):
            if i % of == part:
                acc.states += 1
                acc.transitions += 2
                check_sv(c, acc)
        if part == 0:
            acc.sample(cases[700], cap=1)
    elif kind == "exactpe":
        cases = pe_cases(tier, seed, "qpe")
        for c in deal(cases, part, of):
            acc.states += 1
            acc.transitions += c["m"]
            check_qpe(c, acc)
        if part == 0:
            acc.sample(cases[len(cases) // 3], cap=1)
        for i, c in enumerate(unitary_history_cases(seed)):
            if i % of == part:
                check_unitary_object_history(c, acc)
    else:
        cases = pe_cases(tier, seed, {"iter1": "iqpe1", "iter2": "iqpe2"}[kind])
        for c in deal(cases, part, of):
            check_iqpe(c, acc)
        if part == 0:
            acc.sample(cases[len(cases) // 3], cap=1)
    return acc


def replay_case(case):
    acc = Acc()
    k = case.get("kind")
    if k == "qft":
        check_qft(case, acc)
    elif k == "sv":
        check_sv(case, acc)
    elif k == "qpe":
        check_qpe(case, acc)
    elif k == "iqpe":
        check_iqpe(case, acc)
    elif k == "uhist":
        check_unitary_object_history(case, acc)
    return acc


def selftest():
    SV.selftest()
    for n in (1, 2, 3):
        F = dft(n)
        assert np.allclose(F @ F.conj().T, np.eye(2 ** n)) and np.allclose(dft(n, -1), F.conj().T)
        R = bitrev(n)
        assert np.allclose(R @ R, np.eye(2 ** n))
    # DFT of |x=1> on register [q2 (weight 1), q0 (weight 2)] inside 3 qubits: amplitudes omega^y on y = y0 + 2 y1
    ref = qft_reference([2, 0], 3, False, True)
    col = ref[:, 0b001]                    # qubit 2 = 1  -> x = 1
    for y in range(4):
        idx = ((y >> 1) & 1) << 2 | (y & 1)   # y1 on qubit 0 (MSB), y0 on qubit 2 (LSB)
        assert abs(col[idx] - np.exp(2j * PI * y / 4) / 2) < 1e-12
    # textbook 2-qubit QFT circuit: H(1) CPHASE(pi/2; c0,t1) H(0) SWAP with qubit 0 least significant
    word = [G("H", [1]), G("CPHASE", [1], [0], PI / 2), G("H", [0]), G("SWAP", [0, 1])]
    assert SV.dist(SV.unitary(word, 2), qft_reference([0, 1], 2, False, True)) < 1e-12
    assert SV.dist(SV.unitary(word[:3], 2), qft_reference([0, 1], 2, False, False)) < 1e-12
    # catalogue premises (build_problem raises otherwise)
    for lvl in ("qpe", "iqpe1", "iqpe2"):
        cs = pe_cases("quick", 0, lvl)
        for c in cs[:: max(1, len(cs) // 150)]:
            build_problem(c)
    psi = state_vector("phi-")
    assert abs(expval(X0X1, psi, 2) + 1) < 1e-12 and abs(expval(Y0Y1, psi, 2) - 1) < 1e-12 and abs(expval(Z0Z1, psi, 2) - 1) < 1e-12


if __name__ == "__main__":
    import sys
    runner.main(sys.modules[__name__])
