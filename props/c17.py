"""C17 - Circuits and operators survive export/import round trips.

E1 (bounded-exhaustive words): for every external circuit format whose package is importable here (IonQ JSON and
ProjectQ command text need none), every gate word of depth <= L over THAT format's supported gate set, every placement
on <= 3 qubits, a finite parameter alphabet, free / idle-top / idle-bottom widths, is exported with
translate_circuit(c, fmt) and imported back with translate_circuit(x, "tangelo", source=fmt). The result must equal the
original under Circuit.__eq__ and under the harness' own structural comparison. Everything outside a format's gate set
must be refused (or, at the very least, come back unchanged) - never silently altered.
Also: eval(repr(Gate)) over the whole gate-name set, and qubit operators tangelo -> cirq -> tangelo and
tangelo -> openfermion -> tangelo.

The reference is numpy/python only: gate descriptors [name, targets, controls|None, parameter, is_variational] are the
ground truth; nothing of Tangelo is called to decide what the imported circuit should look like.
"""
import difflib
import itertools
import json
import math
import re

import numpy as np

from mc import runner
from mc.runner import Acc

PID = "C17"
DESIGN_REF = "DESIGN.md section 2 / C17"
ENGINE = "seqspace (prefix tree of gate words per export format; gate x parameter-kind product; Pauli-word sums)"
RULE = ("cases = (format, gate word of length<=L over the format's own gate set x every placement on 3 qubits x "
        "parameter alphabet, width variant (free / idle top qubits / idle bottom qubits)) each exported then imported; "
        "(format, word containing one gate outside the format's set) which must be refused; every Gate of the whole "
        "name set x controls x flag x parameter kind through eval(repr(.)); every Pauli word on <=3 qubits x "
        "coefficient and all 2-term (thorough: 3-term) sums over a 10-word set through each operator conversion. "
        "A circuit case is non-trivial when the exported artefact holds >=1 gate and the importer returned a circuit "
        "(both directions ran); refusal cases when the exporter was really called on the unsupported gate; repr cases "
        "when repr printed at least one optional field; operator cases when the operator has >=1 term. "
        "distinct = distinct (format, word, width variant) / repr string / (operator, target). distinct_nontrivial "
        "counts words of length<=2 only (longer words are counted in counters[...roundtrips...] to bound memory)")
ASSUMPTIONS = [
    "parameter values outside the finite alphabet, words longer than the depth bound and more than 3 active qubits "
    "(plus 2 idle below / 2 idle above) are not explored",
    "depth 3 is exhaustive over the full alphabet for ProjectQ (free width; idle-qubit variants at depth 3 over the "
    "2-parameter alphabet); for IonQ JSON depth 3 uses every gate name x every placement x 1-2 controls x one generic "
    "parameter value (the full 11-value alphabet is exhaustive to depth 2 in all six width variants): 807^3 words do "
    "not fit the budget; both translators handle gates one at a time (the only cross-gate state is the width)",
    "variational flags cannot be expressed in IonQ JSON / ProjectQ text: the imported circuit is compared with the "
    "original with flags cleared",
    "CNOT and CX are the same gate name for every comparison (Gate.__eq__ says so, the IonQ reader returns CX)",
    "parameters must come back bit-exact as floats for the text/JSON formats (IonQ JSON is additionally pushed through "
    "json.dumps/json.loads); object formats that need a third-party package (qiskit/openqasm/braket) would be compared "
    "to 12 significant digits but are skipped here: the packages do not import (see counters skipped_*)",
    "a gate outside a format's set is accepted when the exporter raises OR when the round trip returns it unchanged; "
    "anything else (importer raises on the exporter's own output, gate comes back altered) is a violation",
    "operators: term-by-term comparison, 1e-12 absolute on coefficients; tangelo<->openfermion uses "
    "QubitOperator.to_openfermion/from_openfermion because translate_operator has no 'openfermion' format "
    "(it raises NotImplementedError, counted)",
    "repr/eval: evaluated with only `Gate` in scope; sympy-symbol parameters, string parameters containing quotes and "
    "non-finite floats are outside the alphabet",
]
PI = math.pi
OP_TOL = 1e-12

UNIVERSE = ["H", "X", "Y", "Z", "S", "T", "SDAG", "RX", "RY", "RZ", "PHASE", "CNOT", "CX", "CY", "CZ", "CH", "CRX", "CRY",
            "CRZ", "CPHASE", "XX", "SWAP", "CSWAP", "CXSWAP", "MEASURE", "CMEASURE", "MYGATE", "CMYGATE"]
PARAM_NAMES = {"RX", "RY", "RZ", "PHASE", "CRX", "CRY", "CRZ", "CPHASE", "XX"}
TWO_TARGET = {"XX", "SWAP", "CSWAP", "CXSWAP"}
NO_CONTROL_C_NAMES = {"CXSWAP", "CMEASURE"}

_ONE = ("H", "X", "Y", "Z", "S", "T")
_ROT = ("RX", "RY", "RZ", "PHASE")
SPEC = {
    # needs: module that must import for the clause to run; exact: parameters must come back bit-exact
    "ionq": dict(needs=None, plain=_ONE, rot=_ROT, two=("SWAP",), tworot=("XX",), ctrl=("CNOT", "CX", "CY", "CZ"),
                 ctrlrot=("CRX", "CRY", "CRZ", "CPHASE"), cswap=False, measure=False, max_controls=2, exact=True),
    "projectq": dict(needs=None, plain=_ONE, rot=_ROT, two=(), tworot=(), ctrl=("CNOT",), ctrlrot=(), cswap=False,
                     measure=True, max_controls=1, exact=True),
    "openqasm": dict(needs="qiskit", plain=_ONE, rot=_ROT, two=("SWAP",), tworot=(), ctrl=("CNOT", "CY", "CZ"),
                     ctrlrot=("CRZ", "CPHASE"), cswap=True, measure=True, max_controls=1, exact=False),
    "qiskit": dict(needs="qiskit", plain=_ONE, rot=_ROT, two=("SWAP",), tworot=("XX",),
                   ctrl=("CNOT", "CX", "CY", "CZ", "CH"), ctrlrot=("CRX", "CRY", "CRZ", "CPHASE"), cswap=True,
                   measure=True, max_controls=1, exact=False),
    "braket": dict(needs="braket.circuits", plain=_ONE, rot=_ROT, two=("SWAP",), tworot=("XX",),
                   ctrl=("CNOT", "CX", "CY", "CZ"), ctrlrot=("CPHASE",), cswap=True, measure=False, max_controls=1,
                   exact=False),
}
OP_TARGETS = {"cirq": "cirq", "projectq": "projectq.ops", "qiskit": "qiskit", "qulacs": "qulacs", "pennylane": "pennylane"}

# width variants: (offset added to every qubit index = idle bottom qubits, number of idle top qubits)
VARIANTS = [(0, 0), (0, 1), (0, 2), (1, 0), (2, 0), (2, 1)]

_HAS = {}


def has(mod):
    if mod is None:
        return True
    if mod not in _HAS:
        try:
            __import__(mod)
            _HAS[mod] = True
        except Exception:
            _HAS[mod] = False
    return _HAS[mod]


def spec_names(sp):
    s = set(sp["plain"]) | set(sp["rot"]) | set(sp["two"]) | set(sp["tworot"]) | set(sp["ctrl"]) | set(sp["ctrlrot"])
    if sp["cswap"]:
        s.add("CSWAP")
    if sp["measure"]:
        s.add("MEASURE")
    return s


# ---------------------------------------------------------------------------------------------------------------------
# alphabets

def params(seed):
    d = runner.seed_delta(seed)
    g = round(0.37 + d, 6)
    m = round(-1.23 - d, 6)
    return [0.0, g, m, PI / 2, PI, 2 * PI + 0.61, 4 * PI - 0.3, 1e-5, -1e-17, 12345.678, {"np64": g / 3}]


def placements(nt, nc):
    return [(list(qs[:nt]), (list(qs[nt:]) if nc else None)) for qs in itertools.permutations((0, 1, 2), nt + nc)]


def symbols(sp, pars, g):
    S = []
    for n in sp["plain"] + (("MEASURE",) if sp["measure"] else ()):
        S += [[n, t, None, "", False] for t, _ in placements(1, 0)]
    for n in sp["rot"]:
        S += [[n, t, None, p, False] for t, _ in placements(1, 0) for p in pars]
    for n in sp["two"]:
        S += [[n, t, None, "", False] for t, _ in placements(2, 0)]
    for n in sp["tworot"]:
        S += [[n, t, None, p, False] for t, _ in placements(2, 0) for p in pars]
    for n in sp["ctrl"]:
        for nc in range(1, sp["max_controls"] + 1):
            S += [[n, t, c, "", False] for t, c in placements(1, nc)]
    for n in sp["ctrlrot"]:
        for nc in range(1, sp["max_controls"] + 1):
            S += [[n, t, c, p, False] for t, c in placements(1, nc) for p in pars]
    if sp["cswap"]:
        S += [["CSWAP", t, c, "", False] for t, c in placements(2, 1)]
    # variational members (the flag cannot be exported: must come back as the same gate, flag cleared)
    S += [[n, [0], None, g, True] for n in sp["rot"]]
    S += [[n, [0, 1], None, g, True] for n in sp["tworot"]]
    S += [[n, [1], [0], g, True] for n in sp["ctrlrot"]]
    return S


def alphabet(fmt, al, seed):
    P = params(seed)
    if al == "full":
        return symbols(SPEC[fmt], P, P[1])
    if al == "reduced":
        return symbols(SPEC[fmt], [P[1], P[9]], P[1])
    return symbols(SPEC[fmt], [P[1]], P[1])          # "small": every name x every placement, one generic parameter


def shift(d, off):
    if not off:
        return d
    return [d[0], [q + off for q in d[1]], (None if d[2] is None else [q + off for q in d[2]]), d[3], d[4]]


def dmax(d):
    return max(d[1] + (d[2] or []))


def classify(fmt, d):
    """None when the gate descriptor is inside the format's supported set, else a signature of why it is not."""
    sp = SPEC[fmt]
    name, t, c, p, v = d
    if name not in spec_names(sp):
        return name + (f"/{len(c)}-controls" if c and len(c) > 1 else "")
    nc = len(c) if c else 0
    if nc > (1 if name == "CSWAP" else sp["max_controls"]):
        return f"{name}/{nc}-controls"
    if name in PARAM_NAMES:
        if isinstance(p, str):
            return f"{name}/string-parameter"
        if isinstance(p, dict) and "sym" in p:
            return f"{name}/symbol-parameter"
    return None


def feature(unsup):
    first = unsup.split("+")[0]
    f = first.split("/", 1)[1] if "/" in first else "gate-name"
    return "non-numeric-parameter" if f in ("string-parameter", "symbol-parameter") else f


def word_unsup(fmt, word):
    s = sorted({u for u in (classify(fmt, d) for d in word) if u})
    return "+".join(s) if s else None


# ---------------------------------------------------------------------------------------------------------------------
# descriptors -> real objects, canonical forms (reference side: descriptors only)

def mk_param(p):
    if isinstance(p, dict):
        if "np64" in p:
            return np.float64(p["np64"])
        if "np32" in p:
            return np.float32(p["np32"])
        if "npint" in p:
            return np.int64(p["npint"])
        if "sym" in p:
            import sympy
            return sympy.Symbol(p["sym"])
        if "cm" in p:
            return {k: [mk_gate(d) for d in v] for k, v in p["cm"].items()}
        raise ValueError(f"bad parameter descriptor {p}")
    return p


def mk_gate(d):
    from tangelo.linq import Gate
    return Gate(d[0], list(d[1]), (None if d[2] is None else list(d[2])), mk_param(d[3]), d[4])


def _nm(n):
    return "CX" if n == "CNOT" else n


def _num(v, exact):
    v = float(v)
    return ("num", v.hex()) if exact else ("num", float("%.12g" % v))


def pcanon_desc(p, exact=True, kinds=False):
    """Canonical form of a parameter descriptor. kinds=True (repr/eval) also keeps int-vs-float."""
    if isinstance(p, dict):
        if "np64" in p:
            return _num(p["np64"], exact) + (("float",) if kinds else ())
        if "np32" in p:
            return _num(np.float32(p["np32"]), exact) + (("float",) if kinds else ())
        if "npint" in p:
            return _num(p["npint"], exact) + (("int",) if kinds else ())
        if "sym" in p:
            return ("sym", p["sym"])
        if "cm" in p:
            return ("cm", tuple(sorted((k, tuple(full_canon_desc(g) for g in v)) for k, v in p["cm"].items())))
    if isinstance(p, bool):
        return ("other", repr(p))
    if isinstance(p, (int, float)):
        return _num(p, exact) + ((("int" if isinstance(p, int) else "float"),) if kinds else ())
    if isinstance(p, str):
        return ("str", p)
    return ("other", repr(p))


def pcanon_obj(p, exact=True, kinds=False):
    if isinstance(p, (bool, np.bool_)):
        return ("other", repr(p))
    if isinstance(p, (int, np.integer)):
        return _num(p, exact) + (("int",) if kinds else ())
    if isinstance(p, (float, np.floating)):
        return _num(p, exact) + (("float",) if kinds else ())
    if isinstance(p, str):
        return ("str", p)
    if isinstance(p, dict):
        try:
            return ("cm", tuple(sorted((k, tuple(full_canon_obj(g) for g in v)) for k, v in p.items())))
        except Exception:
            return ("other", repr(p))
    if type(p).__module__.startswith("sympy"):
        return ("sym", str(p))
    return ("other", repr(p))


def canon_desc(d, exact=True):
    return (_nm(d[0]), tuple(d[1]), (None if d[2] is None else tuple(d[2])), pcanon_desc(d[3], exact))


def canon_obj(g, exact=True):
    return (_nm(g.name), tuple(g.target), (None if g.control is None else tuple(g.control)), pcanon_obj(g.parameter, exact))


def full_canon_desc(d):
    return (d[0], tuple(d[1]), (None if d[2] is None else tuple(d[2])), pcanon_desc(d[3], True, True), bool(d[4]))


def full_canon_obj(g):
    return (g.name, tuple(g.target), (None if g.control is None else tuple(g.control)),
            pcanon_obj(g.parameter, True, True), bool(g.is_variational))


def diff(exp, exp_w, got, got_w):
    """None when gate lists and widths agree, else (kind, signature)."""
    if exp != got:
        tags = set()
        for tag, i1, i2, j1, j2 in difflib.SequenceMatcher(a=exp, b=got, autojunk=False).get_opcodes():
            if tag == "equal":
                continue
            if tag == "replace" and (i2 - i1) == (j2 - j1):
                for a, b in zip(exp[i1:i2], got[j1:j2]):
                    fields = [f for f, x, y in zip(("name", "target", "control", "parameter"), a, b) if x != y]
                    tags.add(f"{a[0]}:{'+'.join(fields)}")
            else:
                tags.update(f"missing:{a[0]}" for a in exp[i1:i2])
                tags.update(f"extra:{b[0]}" for b in got[j1:j2])
        return ("gates-changed", ",".join(sorted(tags)))
    if exp_w != got_w:
        return ("width-changed", "idle-top-qubits-lost" if got_w < exp_w else "wider")
    return None


def exc_sig(e):
    msg = re.sub(r"[-+]?\d+(\.\d+)?(e[-+]?\d+)?", "N", str(e)).replace("/", "|")
    return f"{type(e).__name__}:{msg[:90]}"


# ---------------------------------------------------------------------------------------------------------------------
# the round trip oracle

def _export(fmt, c):
    from tangelo.linq.translator import translate_circuit
    return translate_circuit(c, fmt)


def _import(fmt, x):
    from tangelo.linq.translator import translate_circuit
    return translate_circuit(x, "tangelo", source=fmt)


def routes(fmt, x):
    """The exported artefact as it would travel: IonQ JSON also as JSON text."""
    if fmt == "ionq":
        out = [("dict", x, None)]
        try:
            txt = json.dumps(x)
            out.append(("json-text", json.loads(txt), txt))
        except (TypeError, ValueError) as e:
            out.append(("json-text", e, None))
        return out
    return [("text" if isinstance(x, str) else "object", x, x if isinstance(x, str) else None)]


def _viol(acc, n, key, mkcase, mkdetail, group):
    """Record a violation; a key that already has a witness with fewer gates only gets counted (cost control:
    the runner keeps the smallest witness per key anyway)."""
    seen = acc.__dict__.setdefault("_minlen", {})
    old = seen.get(key)
    if old is not None and old < n:
        acc.count("violating_cases")
        return
    seen[key] = n if old is None else min(old, n)
    acc.violation(key, mkcase(), mkdetail(), group=group)


def check_roundtrip(fmt, gates, plain, exp, exp_w, nq, acc, mkcase, unsup=None, nt_key=None):
    """gates: real Gate objects; plain: same with flags cleared (or None when no gate is variational);
    exp/exp_w: reference canonical gate list and width; unsup: None for a word inside the supported set."""
    from tangelo.linq import Circuit
    c = Circuit(gates, n_qubits=nq)
    acc.ev()
    n = len(exp)
    try:
        x = _export(fmt, c)
    except Exception as e:
        if unsup is None:
            _viol(acc, n, f"{fmt}.export/raises-on-supported-gate/{exc_sig(e)}", mkcase, lambda: {"err": repr(e)[:300]},
                  f"{fmt}.export/raises-on-supported-gate")
        else:
            acc.count(f"{fmt}_unsupported_refused_by_exporter")
            acc.out(("refused", fmt, unsup, type(e).__name__))
            if nt_key is not None:
                acc.nt(nt_key)
        return
    cc = c if plain is None else Circuit(plain, n_qubits=nq)
    exact = SPEC[fmt]["exact"]
    for label, art, txt in routes(fmt, x):
        if isinstance(art, Exception):
            if unsup is None:
                _viol(acc, n, f"{fmt}.export/not-serialisable/{exc_sig(art)}", mkcase, lambda: {"err": repr(art)[:300]},
                      f"{fmt}.export/not-serialisable")
            else:
                acc.count(f"{fmt}_unsupported_refused_at_serialisation")
            continue
        try:
            c2 = _import(fmt, art)
        except Exception as e:
            if unsup is None:
                _viol(acc, n, f"{fmt}.import/raises-on-own-export/{exc_sig(e)}", mkcase,
                      lambda: {"exported": art, "err": repr(e)[:300], "route": label},
                      f"{fmt}.import/raises-on-own-export")
            else:
                # the round trip fails loudly: the gate is refused (at import) rather than silently altered
                acc.count(f"{fmt}_unsupported_refused_by_importer")
                acc.out(("refused-at-import", fmt, unsup, type(e).__name__))
                if nt_key is not None:
                    acc.nt(nt_key)
            continue
        got = [canon_obj(g, exact) for g in c2._gates]
        got_w = c2.width
        if len(exp) <= 2 and label != "json-text":
            # the exported artefact belongs to the caller: importing the very same object a second time gives the same circuit
            acc.ev()
            try:
                c3 = _import(fmt, art)
                again = ([canon_obj(g, exact) for g in c3._gates], c3.width)
            except Exception as e:
                again = ("raises", repr(e)[:200])
            if again != (got, got_w):
                _viol(acc, n, f"{fmt}.import/second-import-of-the-same-object-differs", mkcase,
                      lambda: {"exported_now": art if not isinstance(art, str) else art[:300], "first": got, "second": again},
                      f"{fmt}.import/second-import-of-the-same-object-differs")
        d = diff(exp, exp_w, got, got_w)
        try:
            eq = bool(c2 == cc) and not bool(c2 != cc)
        except Exception as e:
            _viol(acc, n, f"{fmt}.roundtrip/circuit-eq-raises/{exc_sig(e)}", mkcase, lambda: {"err": repr(e)[:300]},
                  f"{fmt}.roundtrip/circuit-eq-raises")
            eq = None
        if nt_key is not None:
            if exp:
                acc.nt(nt_key + (label,))
            acc.out(txt if txt is not None else repr(got))

        def detail():
            return {"exported": art, "expected": [exp, exp_w], "imported": [got, got_w], "circuit_eq": eq, "route": label}
        if unsup is not None:
            if d is None and eq:
                acc.count(f"{fmt}_unsupported_not_refused_but_unchanged")
            else:
                _viol(acc, n, f"{fmt}.export/unsupported-not-refused/{unsup}:{d[0] + '(' + d[1] + ')' if d else 'eq-false'}",
                      mkcase, detail, f"{fmt}.export/unsupported-not-refused({feature(unsup)})")
            continue
        if d is not None:
            _viol(acc, n, f"{fmt}.roundtrip/{d[0]}/{d[1]}", mkcase, detail, f"{fmt}.roundtrip/{d[0]}({d[1].split(',')[0]})")
        elif eq is False:
            _viol(acc, n, f"{fmt}.roundtrip/circuit-eq-false-but-structurally-equal/{'+'.join(sorted({e[0] for e in exp}))}",
                  mkcase, detail, f"{fmt}.roundtrip/circuit-eq-false-but-structurally-equal")


def run_circ_case(case, acc, nt_key=None):
    """Slow path: one case from descriptors (refusal cases, replay)."""
    fmt, word, nq = case["fmt"], case["word"], case.get("nq")
    exact = SPEC[fmt]["exact"]
    gates = [mk_gate(d) for d in word]
    plain = [mk_gate(d[:4] + [False]) for d in word] if any(d[4] for d in word) else None
    exp = [canon_desc(d, exact) for d in word]
    exp_w = nq if nq else (max(dmax(d) for d in word) + 1 if word else 0)
    check_roundtrip(fmt, gates, plain, exp, exp_w, nq, acc, lambda: case, unsup=word_unsup(fmt, word), nt_key=nt_key)


# ---------------------------------------------------------------------------------------------------------------------
# refusal cases: one gate outside the format's set, alone and next to supported gates

def _cm(seed):
    g = params(seed)[1]
    return {"cm": {"0": [["X", [1], None, "", False]], "1": [["RZ", [1], None, g, True], ["CNOT", [2], [1], "", False]]}}


def outside_symbols(fmt, seed):
    sp = SPEC[fmt]
    g = params(seed)[1]
    inside = spec_names(sp)
    out = []
    for name in UNIVERSE:
        if name in inside:
            continue
        nts = [2] if name in TWO_TARGET else ([1, 3] if name in ("MYGATE", "CMYGATE") else [1])
        for nt in nts:
            ncs = [0]
            if name.startswith("C") and name not in NO_CONTROL_C_NAMES:
                ncs = [k for k in (1, 2) if nt + k <= 3]
                if nt == 3:
                    ncs = []
            if name in PARAM_NAMES:
                ps = [g]
            elif name == "CMEASURE":
                ps = ["", _cm(seed)]
            elif name in ("MYGATE", "CMYGATE"):
                ps = ["", g]
            else:
                ps = [""]
            for nc in ncs:
                for t, c in placements(nt, nc):
                    out += [[name, t, c, p, False] for p in ps]
    # features of in-set names that the format cannot carry
    for n in sp["ctrl"] + sp["ctrlrot"]:
        nc = sp["max_controls"] + 1
        if nc <= 2:
            out += [[n, t, c, (g if n in PARAM_NAMES else ""), False] for t, c in placements(1, nc)]
    for n in sp["rot"]:
        out += [[n, t, None, p, False] for t, _ in placements(1, 0) for p in ("theta", {"sym": "theta"})]
    for n in sp["tworot"]:
        out += [[n, [0, 2], None, p, False] for p in ("theta", {"sym": "theta"})]
    for n in sp["ctrlrot"]:
        out += [[n, [1], [0], p, False] for p in ("theta", {"sym": "theta"})]
    return out


def refusal_cases(fmt, tier, seed):
    g = params(seed)[1]
    ctx = [["H", [0], None, "", False], ["CNOT", [1], [0], "", False], ["RX", [2], None, g, False]]
    cases = []
    for bad in outside_symbols(fmt, seed):
        words = [[bad]] + [[a, bad] for a in ctx] + [[bad, a] for a in ctx]
        if tier == "thorough":
            words += [[a, bad, b] for a in ctx for b in ctx]
        for w in words:
            m = max(dmax(d) for d in w)
            for nq in (None, m + 2):
                cases.append({"kind": "circ", "fmt": fmt, "word": w, "nq": nq})
    return cases


# ---------------------------------------------------------------------------------------------------------------------
# repr / eval

def repr_param_alphabet(seed):
    return params(seed) + [0, 2, -3, {"np32": 0.1}, {"npint": 4}, "theta", "alpha_1", ""]


def repr_descs(seed):
    g = params(seed)[1]
    out = []
    P = repr_param_alphabet(seed)
    for name in UNIVERSE:
        nts = [2] if name in TWO_TARGET else ([1, 3] if name in ("MYGATE", "CMYGATE") else [1])
        for nt in nts:
            ncs = [0]
            if name.startswith("C") and name not in NO_CONTROL_C_NAMES:
                ncs = [1, 2]
            for nc in ncs:
                for qs in ((0, 1, 2, 3, 4), (7, 3, 5, 0, 11)):
                    t, c = list(qs[:nt]), (list(qs[nt:nt + nc]) if nc else None)
                    for v in (False, True):
                        out += [[name, t, c, p, v] for p in P]
    # CMEASURE / MEASURE with measurement results and dictionaries of gate lists
    S = [["X", [1], None, "", False], ["H", [0], None, "", True], ["RZ", [1], None, g, True],
         ["RX", [2], None, {"np64": g / 3}, False], ["PHASE", [0], None, "theta", True], ["RY", [0], None, 2, False],
         ["CNOT", [2], [1], "", False], ["CRZ", [2], [0, 1], -1e-17, False], ["XX", [0, 2], None, 12345.678, False],
         ["CSWAP", [0, 1], [2], "", False], ["MEASURE", [1], None, "", False], ["CMEASURE", [1], None, "1", False]]
    for q in (0, 4):
        for nm in ("MEASURE", "CMEASURE"):
            out += [[nm, [q], None, p, False] for p in ("0", "1")]
        for a in S:
            out.append(["CMEASURE", [q], None, {"cm": {"0": [], "1": [a]}}, False])
            for b in S:
                out.append(["CMEASURE", [q], None, {"cm": {"0": [a], "1": [b, a]}}, False])
        inner = ["CMEASURE", [1], None, {"cm": {"0": [S[0]], "1": []}}, False]
        out.append(["CMEASURE", [q], None, {"cm": {"0": [inner, S[2]], "1": []}}, False])
        out.append(["CMEASURE", [q], None, {"cm": {"0": [], "1": []}}, True])
    return out


def pkind(p):
    if isinstance(p, dict):
        return next(iter(p))
    return "empty" if p == "" else type(p).__name__


def run_repr_case(case, acc):
    from tangelo.linq import Gate
    d = case["g"]
    g = mk_gate(d)
    acc.ev()
    sig = f"{d[0]}/{pkind(d[3])}"
    try:
        r = repr(g)
    except Exception as e:
        acc.violation(f"Gate.__repr__/raises/{sig}", case, {"err": repr(e)[:300]}, group="Gate.__repr__/raises")
        return
    acc.out(r)
    if "control=" in r or "parameter=" in r or "is_variational" in r:
        acc.nt(r)
    try:
        g2 = eval(r, {"Gate": Gate})
    except Exception as e:
        acc.violation(f"Gate.__repr__/eval-raises/{sig}", case, {"repr": r, "err": repr(e)[:300]},
                      group="Gate.__repr__/eval-raises")
        return
    if not isinstance(g2, Gate):
        acc.violation(f"Gate.__repr__/eval-not-a-gate/{sig}", case, {"repr": r}, group="Gate.__repr__/eval-not-a-gate")
        return
    try:
        eq = bool(g2 == g) and bool(g == g2) and not bool(g2 != g)
    except Exception as e:
        acc.violation(f"Gate.__repr__/eq-raises/{sig}", case, {"repr": r, "err": repr(e)[:300]},
                      group="Gate.__repr__/eq-raises")
        return
    if not eq:
        acc.violation(f"Gate.__repr__/eval-not-equal/{sig}", case, {"repr": r, "repr_of_eval": repr(g2)},
                      group="Gate.__repr__/eval-not-equal")
    want, got = full_canon_desc(d), full_canon_obj(g2)
    if want != got:
        fields = [f for f, x, y in zip(("name", "target", "control", "parameter", "is_variational"), want, got) if x != y]
        acc.violation(f"Gate.__repr__/eval-structurally-different/{sig}:{'+'.join(fields)}", case,
                      {"repr": r, "expected": want, "got": got}, group="Gate.__repr__/eval-structurally-different")
    elif repr(g2) != r:
        acc.violation(f"Gate.__repr__/repr-not-stable/{sig}", case, {"repr": r, "repr_of_eval": repr(g2)},
                      group="Gate.__repr__/repr-not-stable")


# ---------------------------------------------------------------------------------------------------------------------
# operators

COEFS = [1, -0.5, 1e-9, [0.3, 0.4]]          # [re, im] = complex
QMAPS = [(0, 1, 2), (1, 4, 7)]
TEN = ["", "X0", "Z1", "Y2", "X0 X1", "Z0 Z2", "Y1 Z2", "X0 Y1 Z2", "Z0 Z1 Z2", "Y0 X2"]


def all_words3():
    out = []
    for letters in itertools.product("IXYZ", repeat=3):
        out.append(" ".join(f"{p}{q}" for q, p in enumerate(letters) if p != "I"))
    return out


def remap(word, qm):
    return " ".join(f"{f[0]}{qm[int(f[1:])]}" for f in word.split())


def _coef(c):
    return complex(c[0], c[1]) if isinstance(c, list) else c


def term_key(word):
    return tuple(sorted((int(f[1:]), f[0]) for f in word.split()))


def op_cases(tier):
    cases = []
    W = all_words3()
    for qm in QMAPS:
        for w in W:
            for c in COEFS:
                cases.append([[remap(w, qm), c]])
    for a, b in itertools.combinations(TEN, 2):
        for ca in COEFS:
            for cb in COEFS:
                cases.append([[a, ca], [b, cb]])
    for a, b in itertools.combinations(TEN[1:6], 2):
        for ca in COEFS:
            for cb in COEFS:
                cases.append([[remap(a, QMAPS[1]), ca], [remap(b, QMAPS[1]), cb]])
    cases.append([])                       # the empty operator
    if tier == "thorough":
        for tr in itertools.combinations(TEN, 3):
            for cs in itertools.product(COEFS, repeat=3):
                cases.append([[w, c] for w, c in zip(tr, cs)])
    return cases


def op_diff(ref, got):
    tags = []
    for k, v in ref.items():
        if k not in got:
            # QubitOperator equality (and openfermion's compress) treat |coef| <= 1e-8 as zero: such a term may vanish
            if abs(v) > 1e-8:
                tags.append(("term-dropped", f"abs(coef)={abs(v):.0e}"))
        elif not abs(complex(got[k]) - complex(v)) <= OP_TOL:
            tags.append(("coefficient-differs", f"abs(coef)={abs(v):.0e}"))
    for k, v in got.items():
        if k not in ref and not abs(complex(v)) <= OP_TOL:
            tags.append(("extra-term", f"{len(k)}-local"))
    return tags


def run_op_case(case, acc):
    from tangelo.toolboxes.operators import QubitOperator
    from tangelo.linq.translator import translate_operator
    terms, target = case["terms"], case["target"]
    ref = {term_key(w): _coef(c) for w, c in terms}
    op = QubitOperator()
    op.terms = dict(ref)
    acc.ev()
    site = f"operator[tangelo->{target}->tangelo]"
    try:
        if target == "openfermion":
            x = op.to_openfermion()
            back = QubitOperator.from_openfermion(x)
        else:
            n = max([q for k in ref for q, _ in k] + [0]) + 1
            x = translate_operator(op, "tangelo", target, n_qubits=n)
            back = translate_operator(x, target, "tangelo")
        got = dict(back.terms)
    except Exception as e:
        acc.violation(f"{site}/raises/{exc_sig(e)}", case, {"err": repr(e)[:300]}, group=f"{site}/raises")
        return
    if ref:
        acc.nt((target, terms))
    acc.out((target, sorted((repr(k), repr(complex(v))) for k, v in got.items())))
    if dict(op.terms) != ref:
        acc.violation(f"{site}/source-operator-changed", case, None, group=f"{site}/source-operator-changed")
    tags = op_diff(ref, got)
    if tags:
        kind, sig = sorted(tags)[0]
        try:
            lib_eq = bool(back == op)
        except Exception:
            lib_eq = None
        acc.violation(f"{site}/{kind}/{sig}", case,
                      {"expected": {repr(k): v for k, v in ref.items()}, "got": {repr(k): v for k, v in got.items()},
                       "all_differences": tags, "equal_under_QubitOperator.__eq__(tolerance 1e-8)": lib_eq},
                      group=f"{site}/{kind}")


# ---------------------------------------------------------------------------------------------------------------------
# shards

def active_formats():
    return [f for f in SPEC if has(SPEC[f]["needs"])]


def plan(tier):
    """(format, alphabet, depth, variant indices) blocks; every block is enumerated exhaustively."""
    P = []
    allv = list(range(len(VARIANTS)))
    for f in active_formats():
        if f == "projectq":
            P.append((f, "full", 2, allv))
            if tier == "thorough":
                P.append((f, "full", 3, [0]))
                P.append((f, "reduced", 3, [2, 5]))
        elif f == "ionq":
            P.append((f, "full", 1, allv))
            P.append((f, "reduced", 2, allv))
            if tier == "quick":
                P.append((f, "full", 2, [0, 2, 5]))
            else:
                P.append((f, "full", 2, allv))
                P.append((f, "small", 3, [0]))
        else:   # optional object formats (package present): smaller budget, never exercised in this sandbox
            P.append((f, "reduced", 2 if tier == "quick" else 3, [0, 2, 5]))
            P.append((f, "full", 1 if tier == "quick" else 2, [0]))
    return P


def shards(tier, seed):
    sh = [{"kind": "meta", "tier": tier, "seed": seed}]
    for f, al, depth, vs in plan(tier):
        n = len(alphabet(f, al, seed))
        per_first = sum(n ** k for k in range(depth)) * len(vs)
        block = max(1, 30000 // per_first)
        for i in range(0, n, block):
            sh.append({"kind": "words", "fmt": f, "al": al, "depth": depth, "variants": vs,
                       "firsts": list(range(i, min(n, i + block))), "seed": seed})
    for f in active_formats():
        nb = 8 if tier == "thorough" else 2
        for b in range(nb):
            sh.append({"kind": "refuse", "fmt": f, "tier": tier, "part": b, "of": nb, "seed": seed})
    nr = 4
    for b in range(nr):
        sh.append({"kind": "repr", "part": b, "of": nr, "seed": seed})
    no = 8
    for tgt in ["openfermion"] + [t for t, m in OP_TARGETS.items() if has(m)]:
        for b in range(no):
            sh.append({"kind": "ops", "target": tgt, "tier": tier, "part": b, "of": no, "seed": seed})
    # longest first: better pool balance
    sh.sort(key=lambda s: -(len(s.get("firsts", [])) * 1000 + s.get("depth", 0)))
    return sh


def run_words(sh, acc):
    fmt, al, depth, seed = sh["fmt"], sh["al"], sh["depth"], sh["seed"]
    exact = SPEC[fmt]["exact"]
    A = alphabet(fmt, al, seed)
    n = len(A)
    offs = sorted({VARIANTS[v][0] for v in sh["variants"]})
    D = {o: [shift(d, o) for d in A] for o in offs}
    G = {o: [mk_gate(d) for d in D[o]] for o in offs}
    GP = {o: [mk_gate(d[:4] + [False]) for d in D[o]] for o in offs}
    E = {o: [canon_desc(d, exact) for d in D[o]] for o in offs}
    M = {o: [dmax(d) for d in D[o]] for o in offs}
    VAR = [bool(d[4]) for d in A]
    for d in A:
        assert classify(fmt, d) is None, d
    nsample = 0
    for first in sh["firsts"]:
        for L in range(0, depth):
            for rest in itertools.product(range(n), repeat=L):
                idx = (first,) + rest
                anyvar = any(VAR[i] for i in idx)
                light = len(idx) <= 2
                for v in sh["variants"]:
                    off, top = VARIANTS[v]
                    m = max(M[off][i] for i in idx)
                    nq = (m + 1 + top) if top else None
                    Do = D[off]
                    acc.states += 1
                    acc.transitions += len(idx)
                    check_roundtrip(fmt, [G[off][i] for i in idx], ([GP[off][i] for i in idx] if anyvar else None),
                                    [E[off][i] for i in idx], (nq if nq else m + 1), nq, acc,
                                    lambda: {"kind": "circ", "fmt": fmt, "word": [Do[i] for i in idx], "nq": nq},
                                    nt_key=((fmt, al, idx, v) if light and (v == 0 or al != "full" or len(idx) == 1) else None))
                    if not light:
                        acc.count(f"{fmt}_roundtrips_depth3")
                if nsample < 2 and len(idx) == depth and idx[-1] == (first * 7 + 3) % n:
                    nsample += 1
                    acc.sample({"kind": "circ", "fmt": fmt, "word": [A[i] for i in idx], "nq": None}, cap=2)


def run_shard(sh):
    acc = Acc()
    k = sh["kind"]
    if k == "meta":
        for f, sp in SPEC.items():
            if not has(sp["needs"]):
                acc.count(f"skipped_circuit_format_{f}({sp['needs']} does not import)")
        for t, m in OP_TARGETS.items():
            if not has(m):
                acc.count(f"skipped_operator_format_{t}({m.split('.')[0]} does not import)")
        try:
            from tangelo.linq.translator import translate_operator
            from tangelo.toolboxes.operators import QubitOperator
            translate_operator(QubitOperator("X0"), "tangelo", "openfermion")
            acc.count("translate_operator_accepts_openfermion")
        except NotImplementedError:
            acc.count("translate_operator_has_no_openfermion_format(used to_openfermion/from_openfermion)")
        # wide registers: qubit indices with two and three digits (text formats: lexicographic order, regular expressions),
        # gates on and idle qubits beyond index 9
        for f in active_formats():
            two_q = "CNOT" if "CNOT" in spec_names(SPEC[f]) else None
            idxs = (0, 1, 9, 10, 11, 12, 19, 20, 99, 100)
            wide = [[["H", [q], None, "", False]] for q in idxs] + [[["RX", [q], None, 0.37, False]] for q in idxs]
            if two_q:
                wide += [[[two_q, [a], [b], "", False]] for a in (0, 9, 10, 11, 20, 100) for b in (0, 9, 10, 11, 20, 100) if a != b]
            wide += [[["H", [10], None, "", False], ["X", [9], None, "", False], ["H", [2], None, "", False]]]
            for w in wide:
                m = max(dmax(d) for d in w)
                for nq in (None, m + 2, m + 4):
                    acc.states += 1
                    acc.transitions += len(w)
                    run_circ_case({"kind": "circ", "fmt": f, "word": w, "nq": nq}, acc, nt_key=("wide", f, repr(w), nq))
            for nq in (9, 10, 11, 12, 21, 25, 100, 101):
                acc.states += 1
                run_circ_case({"kind": "circ", "fmt": f, "word": [["H", [0], None, "", False]], "nq": nq}, acc, nt_key=("wide-idle", f, nq))
        # the empty word in every width variant
        for f in active_formats():
            for nq in (None, 1, 3):
                case = {"kind": "circ", "fmt": f, "word": [], "nq": nq}
                acc.states += 1
                run_circ_case(case, acc)
        return acc
    if k == "words":
        run_words(sh, acc)
        return acc
    if k == "refuse":
        cs = refusal_cases(sh["fmt"], sh["tier"], sh["seed"])
        for i, case in enumerate(cs):
            if i % sh["of"] != sh["part"]:
                continue
            assert word_unsup(case["fmt"], case["word"]) is not None, case
            acc.states += 1
            acc.transitions += len(case["word"])
            run_circ_case(case, acc, nt_key=("refuse", case["fmt"], case["word"], case["nq"]))
            if i in (0, 41):
                acc.sample(case, cap=2)
        return acc
    if k == "repr":
        for i, d in enumerate(repr_descs(sh["seed"])):
            if i % sh["of"] != sh["part"]:
                continue
            acc.states += 1
            acc.transitions += 1
            case = {"kind": "repr", "g": d}
            run_repr_case(case, acc)
            if i in (5, 3001):
                acc.sample(case, cap=2)
        return acc
    if k == "ops":
        for i, terms in enumerate(op_cases(sh["tier"])):
            if i % sh["of"] != sh["part"]:
                continue
            acc.states += 1
            acc.transitions += max(1, len(terms))
            case = {"kind": "op", "terms": terms, "target": sh["target"]}
            run_op_case(case, acc)
            if i in (9, 600):
                acc.sample(case, cap=2)
        return acc
    raise ValueError(f"unknown shard kind {k}")


# ---------------------------------------------------------------------------------------------------------------------
# replay: one case + a standalone reproduction script

def param_src(p):
    if isinstance(p, dict):
        if "np64" in p:
            return f"numpy.float64({p['np64']!r})"
        if "np32" in p:
            return f"numpy.float32({p['np32']!r})"
        if "npint" in p:
            return f"numpy.int64({p['npint']!r})"
        if "sym" in p:
            return f"sympy.Symbol({p['sym']!r})"
        if "cm" in p:
            return "{" + ", ".join(f"{k!r}: [{', '.join(gate_src(g) for g in v)}]" for k, v in p["cm"].items()) + "}"
    return repr(p)


def gate_src(d):
    s = f"Gate({d[0]!r}, {d[1]}"
    if d[2] is not None:
        s += f", control={d[2]}"
    if d[3] != "":
        s += f", parameter={param_src(d[3])}"
    if d[4]:
        s += ", is_variational=True"
    return s + ")"


def standalone(case):
    k = case.get("kind")
    L = ["import numpy, sympy", "from tangelo.linq import Gate, Circuit"]
    if k == "circ":
        f = case["fmt"]
        L += ["from tangelo.linq.translator import translate_circuit",
              f"c = Circuit([{', '.join(gate_src(d) for d in case['word'])}], n_qubits={case.get('nq')})",
              f"x = translate_circuit(c, {f!r})   # must raise if the format cannot express c",
              "print(x)",
              f"c2 = translate_circuit(x, 'tangelo', source={f!r})",
              "print([repr(g) for g in c2._gates], 'width', c2.width, 'expected width', c.width, 'equal:', c2 == c)"]
    elif k == "repr":
        L += [f"g = {gate_src(case['g'])}", "print(repr(g))", "g2 = eval(repr(g))", "print(g2 == g, repr(g2))"]
    elif k == "op":
        L = ["from tangelo.toolboxes.operators import QubitOperator",
             "from tangelo.linq.translator import translate_operator",
             "op = QubitOperator()",
             "op.terms = {" + ", ".join(f"{term_key(w)!r}: {_coef(c)!r}" for w, c in case["terms"]) + "}"]
        if case["target"] == "openfermion":
            L += ["back = QubitOperator.from_openfermion(op.to_openfermion())"]
        else:
            L += [f"x = translate_operator(op, 'tangelo', {case['target']!r})", "print(x)",
                  f"back = translate_operator(x, {case['target']!r}, 'tangelo')"]
        L += ["print(op.terms, '->', back.terms)"]
    return "\n".join(L)


def replay_case(case):
    acc = Acc()
    k = case.get("kind")
    if k == "circ":
        run_circ_case(case, acc)
    elif k == "repr":
        run_repr_case(case, acc)
    elif k == "op":
        run_op_case(case, acc)
    print("---- standalone reproduction ----")
    print(standalone(case))
    print("---------------------------------")
    return acc


def bounds(tier, seed):
    P = params(seed)
    return {
        "tier": tier, "parameter_alphabet": P, "reduced_parameter_alphabet": [P[1], P[9]], "small_parameter_alphabet": [P[1]],
        "width_variants(offset=idle bottom qubits, idle top qubits)": VARIANTS,
        "formats_run": active_formats(),
        "formats_skipped": {f: f"package {SPEC[f]['needs']} does not import" for f in SPEC if f not in active_formats()},
        "blocks(format, alphabet, max depth, width variants)": [list(b) for b in plan(tier)],
        "alphabet_sizes": {f"{f}/{al}": len(alphabet(f, al, seed)) for f in active_formats() for al in ("full", "reduced", "small")},
        "gate_sets": {f: sorted(spec_names(SPEC[f])) for f in active_formats()},
        "max_controls": {f: SPEC[f]["max_controls"] for f in active_formats()},
        "refusal_cases": {f: len(refusal_cases(f, tier, seed)) for f in active_formats()},
        "gate_name_universe": UNIVERSE,
        "repr_cases": len(repr_descs(seed)), "repr_parameter_alphabet": repr_param_alphabet(seed),
        "operator_cases_per_target": len(op_cases(tier)), "operator_coefficients": COEFS, "operator_tolerance": OP_TOL,
        "operator_targets_run": ["openfermion"] + [t for t, m in OP_TARGETS.items() if has(m)],
        "operator_targets_skipped": [t for t, m in OP_TARGETS.items() if not has(m)],
    }


def selftest():
    # the hard-coded name universe must cover every name the library knows about
    from tangelo.linq import gate as GM
    known = set().union(GM.ONE_QUBIT_GATES, GM.TWO_QUBIT_GATES, GM.THREE_QUBIT_GATES, GM.INVERTIBLE_GATES,
                        GM.CLIFFORD_GATES, GM.PARAMETERIZED_GATES, GM.ONE_TARGET_GATES, GM.TWO_TARGET_GATES)
    assert known <= set(UNIVERSE), known - set(UNIVERSE)
    assert PARAM_NAMES == set(GM.PARAMETERIZED_GATES)
    # canonical forms: bit-exact parameters, CNOT==CX, order of targets/controls matters
    a = ["CNOT", [2], [0, 1], "", False]
    assert canon_desc(a) == canon_desc(["CX", [2], [0, 1], "", True]) != canon_desc(["CX", [2], [1, 0], "", False])
    assert pcanon_desc(0.1 + 0.2) != pcanon_desc(0.3) and pcanon_desc(0.1 + 0.2, exact=False) == pcanon_desc(0.3, exact=False)
    assert pcanon_desc({"np64": 0.25}) == pcanon_obj(np.float64(0.25)) == pcanon_obj(0.25)
    assert pcanon_desc(2, True, True) != pcanon_desc(2.0, True, True) and pcanon_desc(2) == pcanon_desc(2.0)
    assert pcanon_desc("") == pcanon_obj("") and pcanon_desc("a") != pcanon_desc("")
    e = [canon_desc(d) for d in (["H", [0], None, "", False], ["MEASURE", [1], None, "", False], ["RX", [0], None, 0.5, False])]
    assert diff(e, 2, e, 2) is None
    assert diff(e, 3, e, 2) == ("width-changed", "idle-top-qubits-lost")
    assert diff(e, 2, [e[0], e[2]], 1) == ("gates-changed", "missing:MEASURE")
    assert diff(e, 2, e[:2] + [canon_desc(["RX", [0], None, 0.5000001, False])], 2) == ("gates-changed", "RX:parameter")
    assert diff(e[:1], 1, [canon_desc(["H", [1], None, "", False])], 2) == ("gates-changed", "H:target")
    # classification
    assert classify("projectq", ["CNOT", [2], [0, 1], "", False]) == "CNOT/2-controls"
    assert classify("projectq", ["RX", [0], None, "theta", False]) == "RX/string-parameter"
    assert classify("projectq", ["CX", [1], [0], "", False]) == "CX" and classify("ionq", ["CX", [2], [0, 1], "", False]) is None
    assert classify("ionq", ["MEASURE", [0], None, "", False]) == "MEASURE" and classify("projectq", ["MEASURE", [0], None, "", False]) is None
    for f in ("ionq", "projectq"):
        assert all(classify(f, d) is None for d in alphabet(f, "full", 0))
        assert all(classify(f, d) is not None for d in outside_symbols(f, 0))
        assert {d[0] for d in outside_symbols(f, 0)} >= set(UNIVERSE) - spec_names(SPEC[f])
    # operator comparison
    r = {((0, "X"),): 1e-9, (): 1}
    assert op_diff(r, dict(r)) == [] and op_diff(r, {(): 1 + 0j, ((0, "X"),): 1e-9 + 1e-13}) == []
    assert op_diff(r, {(): 1}) == [] and op_diff({((0, "X"),): 1e-3, (): 1}, {(): 1})[0][0] == "term-dropped"
    assert op_diff(r, {(): 1, ((0, "X"),): 2e-9})[0][0] == "coefficient-differs"
    assert op_diff({}, {((1, "Z"),): 1e-3})[0][0] == "extra-term"
    assert len(all_words3()) == 64 and term_key("Z2 X0") == ((0, "X"), (2, "Z")) and remap("X0 Z2", (1, 4, 7)) == "X1 Z7"


if __name__ == "__main__":
    import sys
    runner.main(sys.modules[__name__])
