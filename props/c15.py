"""C15 - Problem-decomposition energies satisfy their defining identities.

E1 over a catalogue, one full product per family, everything run on the real Tangelo classes:

  relink : geometry x ordered atom pair (staying, leaving) x capping species x scale factor  -> Link.relink
  oniom  : geometry x model selection (int | index list in every order | whole system) x solver pair x link x factor
           -> ONIOMProblemDecomposition(...).simulate()
  dmet   : molecule x physical fragmentation x ordering of the (nested) fragment list x atom relabelling x localisation
           x fragment solver -> DMETProblemDecomposition(...).build()/_oneshot_loop(0)/simulate()
  mi     : complete increment table on n centres x energy assignment x corrections x user overrides x input form
           -> MethodOfIncrementsHelper(...).mi_summation()

Oracles: numpy geometry for the caps; the ONIOM defining formula with the layer energies recomputed in the harness by the
same solver class on the geometry the formula names; PySCF FCI/CCSD of the whole molecule for exactly embedded DMET;
inclusion-exclusion for the increments.
"""
import contextlib
import copy
import io
import itertools
import json
import math
import os
import tempfile
import time
import warnings

import numpy as np

from mc import runner
from mc.runner import Acc

PID = "C15"
DESIGN_REF = "DESIGN.md section 2 / C15"
ENGINE = "seqspace (catalogue product per family: Link.relink, ONIOM, DMET, method of increments)"
RULE = ("cases = four families, each a full product. relink: geometry x every ordered atom pair x species {H,F,CH3,CF3,NH2,custom} "
        "x factor {0.5,0.709,1.0,generic}. oniom: geometry x model selection (int k for every k, every order of the listed 2-3 "
        "atom subsets, whole system as int and as a permuted list) x solver pair {(HF,HF),(HF,CCSD),(HF,FCI),(CCSD,CCSD),(CCSD,FCI)} "
        "x link {none, H, F, CH3 on the shortest broken bond} x factor {0.5,0.709,1.0}; whole-system models carry no link. "
        "dmet: molecule x physical fragmentation (whole, pairs, singles, uneven) x ordering of the fragment list x relabelling of "
        "the atoms (nested index lists always; atom counts too when the fragments are contiguous) x localisation x fragment solver. "
        "mi: n centres x assignment (one-hot, two-hot, 3 dense) x corrections off/on x overrides (none, each single fragment, all) "
        "x key order x input form. Non-trivial: relink = every case (staying != leaving); oniom = the model is a proper subset, "
        "is listed in a non-identity order, or carries a cap; dmet = the atoms are relabelled or listed in non-canonical order, or "
        "the chemical-potential search took a secant step (mismatch not constant); mi = n >= 2 (at least one subtraction of "
        "lower-order increments). distinct = distinct case dictionaries")
ASSUMPTIONS = [
    "only the catalogue is explored: ONIOM on an H4 chain, H2O, H-F...H-F (and ethane in the thorough tier), sto-3g (thorough adds "
    "a 3-21g high level on H4); DMET on H2, an H4 chain, a rectangular H4 ring (thorough: square H4 dication ring, H6 ring, H10 ring "
    "with ccsd, IAO in 3-21g, vqe on H2 and on single-atom fragments of H4); increments on 1-4 centres (thorough: 5)",
    "the neutral square H4 ring is excluded: its restricted mean field is degenerate (half-filled e_g pair), so the premise of "
    "a well-defined DMET energy fails; the rectangular ring and the square dication are used instead",
    "ONIOM layer energies of the reference are computed in the harness with Tangelo's own CCSDSolver/FCISolver/mean field on a "
    "harness-built SecondQuantizedMolecule (frozen_orbitals=None, as Fragment.get_mol does); correctness of those solvers is "
    "C04/C08, not C15. Model fragments with an odd electron count are given spin=1 (ROHF). Cases whose layer solver cannot run on "
    "the fragment in isolation either (CCSD on a one-electron fragment) or whose FCI space exceeds 2e6 determinants are counted "
    "as skipped, not judged",
    "the torsion of a capping group about the bond is not fixed by the property; the model-layer reference energies are computed "
    "on the capped geometry Tangelo produced after that geometry passed the placement/rigidity/axis checks",
    "tolerances: cap position 1e-12 A, rigidity/axis 1e-9 A, ONIOM identities 1e-7 Ha (1e-6 when the reference was computed on "
    "a different atom order: CCSD converges to 1e-7), DMET exact embedding and relabelling 1e-6 Ha (vqe fragments: 1e-4), "
    "increments 1e-10 Ha",
    "DMET electron count: scipy's secant search stops on |delta mu| <= 1e-5, it puts no bound on the mismatch itself; the check "
    "demands |sum_frag N_frag - N| <= 2e-5 * max(1, |d mismatch / d mu|) with the slope measured by central differences "
    "(h = 1e-3) only when the plain bound 2e-5 is exceeded",
    "fragment+bath spans all orbitals is measured on the run (t_list of every fragment adds up to the number of orbitals), "
    "not assumed from the fragmentation",
    "exact-embedding reference = PySCF FCI (fci and vqe fragments; vqe only for two-electron molecules) or PySCF CCSD (ccsd "
    "fragments) of the whole molecule from a fresh RHF",
    "mi: only complete tables (every subset of the centres present, none screened out); the energy of a fragment is its "
    "stored energy_total, or the user value plus the stored correction when overridden (as mi_summation documents)",
    "out of scope: MI-FNO fragment Hamiltonians (need QEMIST Cloud MO-coefficient files), QM/MM (needs force-field data and "
    "openmm/rdkit), UHF/ROHF DMET, frozen fragment orbitals, ECPs, truncated-order increments, screened-out increments",
]

TOL_POS = 1e-12
TOL_RIGID = 1e-9
TOL_E = 1e-7
TOL_E_PERM = 1e-6
TOL_DMET = 1e-6
TOL_DMET_VQE = 1e-4
TOL_N = 2e-5
TOL_MI = 1e-10
FCI_MAX_DETS = 2_000_000

Z = {"H": 1, "C": 6, "N": 7, "O": 8, "F": 9, "I": 53, "Cl": 17}


@contextlib.contextmanager
def quiet():
    with warnings.catch_warnings():
        warnings.simplefilter("ignore")
        buf = io.StringIO()
        with contextlib.redirect_stdout(buf), contextlib.redirect_stderr(buf):
            yield


def T(geom):
    """-> the list-of-tuples format Tangelo takes."""
    return [(str(a[0]), tuple(float(x) for x in a[1])) for a in geom]


def J(geom):
    """-> JSON-able."""
    return [[str(a[0]), [float(x) for x in a[1]]] for a in geom]


def nelec(geom):
    return sum(Z[a[0]] for a in geom)


def sig_exc(e):
    return type(e).__name__


# ---------------------------------------------------------------------------------------------------------------------
# catalogue of geometries (generic lengths are seed-perturbed, DESIGN 1.3)

ETHANE = [["C", [0.7166, 0.898, 0.6425]], ["H", [0.5397, 1.7666, -0.0025]], ["H", [0.4899, 0.0005, 0.0551]],
          ["H", [-0.0078, 0.9452, 1.464]], ["C", [2.1541, 0.8745, 1.1659]], ["H", [2.3313, 0.0053, 1.81]],
          ["H", [2.8785, 0.8284, 0.3444]], ["H", [2.3805, 1.7715, 1.7542]]]


def ring(n, r):
    return [["H", [round(r * math.cos(2 * math.pi * k / n), 10), round(r * math.sin(2 * math.pi * k / n), 10), 0.]]
            for k in range(n)]


def geometries(seed):
    d = runner.seed_delta(seed)
    s = round(0.85 + 0.1 * d, 6)
    k = 1 + 0.02 * d
    a, b = round(0.8 + 0.05 * d, 6), 1.3
    return {
        "H2": [["H", [0., 0., 0.]], ["H", [0., 0., round(0.72 + 0.05 * d, 6)]]],
        "H4c": [["H", [0., 0., round(s * i, 6)]] for i in range(4)],
        "H4r": [["H", [0., 0., 0.]], ["H", [a, 0., 0.]], ["H", [a, b, 0.]], ["H", [0., b, 0.]]],
        "H4q": [["H", [0., 0., 0.]], ["H", [1.1, 0., 0.]], ["H", [1.1, 1.1, 0.]], ["H", [0., 1.1, 0.]]],
        "H6r": ring(6, round(0.95 + 0.1 * d, 6)),
        "H10r": ring(10, round(0.97 + 0.03 * d, 6)),
        "H2O": [["O", [0., 0., round(0.1173 * k, 6)]], ["H", [0., round(0.7572 * k, 6), round(-0.4692 * k, 6)]],
                ["H", [0., round(-0.7572 * k, 6), round(-0.4692 * k, 6)]]],
        "HFHF": [["H", [0., 0., 0.]], ["F", [0., 0., round(0.92 * k, 6)]], ["H", [0., 0.3, 2.75]], ["F", [0., 0.9, 3.45]]],
        "C2H6": copy.deepcopy(ETHANE),
    }


# ---------------------------------------------------------------------------------------------------------------------
# Link.relink: numpy reference

CUSTOM_GROUP = [["X", [0., 0., 0.]], ["N", [0., 0., 1.1]], ["H", [0.9, 0., 1.5]], ["H", [-0.4, 0.8, 1.5]],
                ["F", [-0.3, -0.7, 1.6]]]   # axis exactly +z (parallel / antiparallel to the H4 chain bonds)
_GROUPS = None


def groups():
    global _GROUPS
    if _GROUPS is None:
        from tangelo.problem_decomposition.oniom._helpers.capping_groups import chemical_groups
        _GROUPS = copy.deepcopy(chemical_groups)   # data table only
    return _GROUPS


def species_atoms(species):
    """-> (ghost position or None, [(element, xyz)]) of the capping species in its own frame."""
    if isinstance(species, str):
        if species in groups():
            spec = groups()[species]
        else:
            return None, [(species, np.zeros(3))]
    else:
        spec = species
    ghost = np.array(spec[0][1], float)
    atoms = [(a[0], np.array(a[1], float)) for a in spec if a[0].upper() != "X"]
    return ghost, atoms


def species_name(species):
    return species if isinstance(species, str) else f"custom{len(species) - 1}"


def relink_problems(out, geometry, staying, leaving, factor, species):
    """Compare the output of Link.relink with the definition. Returns [(failure kind, detail)]."""
    ghost, atoms = species_atoms(species)
    probs = []
    try:
        names = [str(o[0]) for o in out]
        P = np.array([[float(x) for x in o[1]] for o in out], float)
    except Exception as e:  # malformed output
        return [("malformed-output", {"err": repr(e)[:200]})]
    if names != [a[0] for a in atoms] or P.shape != (len(atoms), 3):
        return [("wrong-atoms", {"returned": names, "expected": [a[0] for a in atoms]})]
    s = np.array(geometry[staying][1], float)
    l = np.array(geometry[leaving][1], float)
    target = s + factor * (l - s)
    d0 = float(np.max(np.abs(P[0] - target)))
    if not d0 <= TOL_POS:
        probs.append(("first-atom-position", {"returned": P[0].tolist(), "expected": target.tolist(), "deviation": d0}))
    if len(atoms) > 1:
        R0 = np.array([a[1] for a in atoms])
        dref = np.linalg.norm(R0[:, None, :] - R0[None, :, :], axis=2)
        dout = np.linalg.norm(P[:, None, :] - P[None, :, :], axis=2)
        dev = float(np.max(np.abs(dref - dout)))
        if not dev <= TOL_RIGID:
            probs.append(("group-not-rigid", {"max_distance_change": dev}))
        if len(atoms) >= 4:
            v_ref = float(np.linalg.det(R0[1:4] - R0[0]))
            v_out = float(np.linalg.det(P[1:4] - P[0]))
            if not abs(v_ref - v_out) <= 1e-8:
                probs.append(("group-mirrored-or-deformed", {"signed_volume_ref": v_ref, "signed_volume_out": v_out}))
        u_ref = (R0[0] - ghost) / np.linalg.norm(R0[0] - ghost)
        u_bond = (l - s) / np.linalg.norm(l - s)
        pr = (R0 - R0[0]) @ u_ref
        po = (P - P[0]) @ u_bond
        dev = float(np.max(np.abs(pr - po)))
        if not dev <= TOL_RIGID:
            probs.append(("axis-not-parallel-to-bond", {"max_projection_change": dev, "proj_ref": pr.tolist(),
                                                        "proj_out": po.tolist()}))
    return probs


def run_relink_case(case, acc):
    from tangelo.problem_decomposition.oniom._helpers.helper_classes import Link
    geometry = T(case["geometry"])
    before = J(geometry)
    sp = case["species"]
    name = species_name(sp)
    acc.states += 1
    acc.transitions += 1
    acc.ev()
    try:
        with quiet():
            link = Link(case["staying"], case["leaving"], case["factor"], copy.deepcopy(sp))
            out = link.relink(geometry)
    except Exception as e:
        acc.violation(f"Link.relink/exception/{name}:{sig_exc(e)}", case, {"err": repr(e)[:300]}, group="Link.relink/exception")
        return None
    acc.nt(("relink", case["gname"], case["staying"], case["leaving"], case["factor"], name))
    probs = relink_problems(out, geometry, case["staying"], case["leaving"], case["factor"], sp)
    for kind, det in probs:
        acc.violation(f"Link.relink/{kind}/{name}", case, det, group=f"Link.relink/{kind}")
    if J(geometry) != before:
        acc.violation(f"Link.relink/input-geometry-mutated/{name}", case, None, group="Link.relink/input-geometry-mutated")
    acc.out(("relink", name, len(out), not probs))
    return out


# ---------------------------------------------------------------------------------------------------------------------
# ONIOM

SOLVER_PAIRS = [("HF", "HF"), ("HF", "CCSD"), ("HF", "FCI"), ("CCSD", "CCSD"), ("CCSD", "FCI")]
LINK_SPECIES = [None, "H", "F", "CH3"]
FACTORS = [0.5, 0.709, 1.0]


def oniom_selections(gname, tier):
    """Model-fragment selections of a geometry: (selection, is_whole)."""
    if gname == "H4c":
        n, subsets = 4, [(1, 2), (0, 1, 2)]
    elif gname == "H2O":
        n, subsets = 3, [(0, 1), (0, 2)]
    elif gname == "HFHF":
        n, subsets = 4, [(2, 3), (0, 1, 2)]
    elif gname == "C2H6":
        n, subsets = 8, [(0, 4), (4, 5, 6)]
    sels = [k for k in range(1, n)] if gname != "C2H6" else [1, 4, 5]
    for sub in subsets:
        sels += [list(p) for p in itertools.permutations(sub)]
    if gname == "C2H6":
        sels += [[4, 5, 6, 7], [7, 4, 6, 5]]
    whole = [n, list(range(n)), [(3 * i + 2) % n for i in range(n)] if n != 3 else [2, 0, 1]]
    return sels, whole


def model_indices(sel):
    return list(range(sel)) if isinstance(sel, int) else list(sel)


def pick_link(geometry, model):
    best = None
    for i in model:
        for j in range(len(geometry)):
            if j in model:
                continue
            dist = round(float(np.linalg.norm(np.array(geometry[i][1], float) - np.array(geometry[j][1], float))), 9)
            if best is None or (dist, i, j) < best:
                best = (dist, i, j)
    return best[1], best[2]


NORB = {"sto-3g": {"H": 1}, "3-21g": {"H": 2}, "6-31g": {"H": 2}}
NORB_HEAVY = {"sto-3g": 5, "3-21g": 9, "6-31g": 9}


def fci_dets(geom, spin, basis):
    norb = sum(NORB[basis].get(a[0], NORB_HEAVY[basis]) for a in geom)
    ne = nelec(geom)
    na = (ne + spin) // 2
    nb = ne - na
    if na > norb or nb > norb:
        return 0
    return math.comb(norb, na) * math.comb(norb, nb)


class RefEnergies:
    """Layer energies recomputed in the harness (per shard cache)."""

    def __init__(self):
        self.mols = {}
        self.en = {}

    def mol(self, geom, spin, basis, frozen=None):
        key = (json.dumps(J(geom)), spin, basis, frozen)
        if key not in self.mols:
            from tangelo import SecondQuantizedMolecule
            if len(self.mols) > 40:
                self.mols.clear()
            try:
                with quiet():
                    self.mols[key] = ("ok", SecondQuantizedMolecule(T(geom), 0, spin, basis=basis, frozen_orbitals=frozen))
            except Exception as e:
                self.mols[key] = ("err", repr(e)[:200])
        return self.mols[key]

    def energy(self, geom, spin, solver, basis, frozen=None):
        """-> ("ok", E) | ("err", message)."""
        key = (json.dumps(J(geom)), spin, solver, basis, frozen)
        if key in self.en:
            return self.en[key]
        st, mol = self.mol(geom, spin, basis, frozen)
        if st != "ok":
            res = ("err", mol)
        else:
            try:
                with quiet():
                    if solver == "HF":
                        res = ("ok", float(mol.mf_energy))
                    elif solver == "CCSD":
                        from tangelo.algorithms import CCSDSolver
                        res = ("ok", float(CCSDSolver(mol).simulate()))
                    elif solver == "FCI":
                        from tangelo.algorithms import FCISolver
                        res = ("ok", float(FCISolver(mol).simulate()))
            except Exception as e:
                res = ("err", repr(e)[:200])
        self.en[key] = res
        return res


def run_oniom_case(case, acc, ref=None):
    from tangelo.problem_decomposition.oniom.oniom_problem_decomposition import ONIOMProblemDecomposition
    from tangelo.problem_decomposition.oniom._helpers.helper_classes import Fragment, Link
    ref = ref or RefEnergies()
    geometry = T(case["geometry"])
    n = len(geometry)
    sel = case["selection"]
    low, high = case["low"], case["high"]
    blow, bhigh = case.get("basis_low", "sto-3g"), case.get("basis_high", "sto-3g")
    lk = case.get("link")
    fz_low, fz_high = case.get("fz_low"), case.get("fz_high")     # frozen_orbitals handed to the model fragment's solvers
    model = model_indices(sel)
    whole = sorted(model) == list(range(n))
    tag = f"{low}-{high}"
    acc.states += 1

    # expected model geometry: the selected atoms in the listed order + the cap (placed by the real relink, validated)
    cap = []
    if lk:
        rc = {"kind": "relink", "gname": case["gname"], "geometry": case["geometry"], "staying": lk["staying"],
              "leaving": lk["leaving"], "factor": lk["factor"], "species": lk["species"]}
        nv = len(acc.viol)
        out = run_relink_case(rc, acc)
        if out is None or len(acc.viol) > nv:
            return          # the cap itself is wrong: reported by the relink check, energies not judged
        cap = [(o[0], tuple(float(x) for x in o[1])) for o in out]
    exp_model = [geometry[i] for i in model] + cap
    spin_m = nelec(exp_model) % 2

    # reference layer energies
    identical = (low == high and blow == bhigh and fz_low == fz_high)
    for g, sp, solver, basis in ((geometry, 0, low, blow), (exp_model, spin_m, low, blow), (exp_model, spin_m, high, bhigh)):
        if solver == "FCI" and fci_dets(g, sp, basis) > FCI_MAX_DETS:
            acc.count("oniom_skipped_fci_too_big")
            return
    need = [("sys_low", geometry, 0, low, blow, None)]
    if not identical:
        need += [("mod_high", exp_model, spin_m, high, bhigh, fz_high), ("mod_low", exp_model, spin_m, low, blow, fz_low)]
    if whole and not lk:
        need += [("sys_high", geometry, 0, high, bhigh, fz_high)]
    E = {}
    for name, g, sp, solver, basis, fz in need:
        st, val = ref.energy(g, sp, solver, basis, fz)
        if st != "ok":
            acc.count("oniom_skipped_solver_not_applicable_to_fragment")
            acc.out(("oniom-skip", str(val)[:60]))
            return
        E[name] = val

    acc.transitions += 1
    try:
        with quiet():
            links = [Link(lk["staying"], lk["leaving"], lk["factor"], lk["species"])] if lk else None
            system = Fragment(solver_low=low, options_low={"basis": blow})
            ol, oh = {"basis": blow}, {"basis": bhigh}
            if fz_low is not None:
                ol["frozen_orbitals"] = fz_low
            if fz_high is not None:
                oh["frozen_orbitals"] = fz_high
            mfrag = Fragment(solver_low=low, options_low=ol, solver_high=high, options_high=oh,
                             selected_atoms=copy.deepcopy(sel), spin=spin_m, broken_links=links)
            oniom = ONIOMProblemDecomposition({"geometry": T(case["geometry"]), "fragments": [system, mfrag]})
            e = float(oniom.simulate())
    except Exception as ex:
        # a layer solver that cannot run on the isolated fragment either (CCSD on one electron) is not ONIOM's fault
        for g, sp, solver, basis in ((exp_model, spin_m, low, blow), (exp_model, spin_m, high, bhigh)):
            if ref.energy(g, sp, solver, basis)[0] != "ok":
                acc.count("oniom_skipped_solver_not_applicable_to_fragment")
                acc.out(("oniom-skip", sig_exc(ex)))
                return
        acc.ev()
        acc.violation(f"ONIOM.simulate/exception/{tag}:{sig_exc(ex)}", case, {"err": repr(ex)[:300]},
                      group="ONIOM.simulate/exception")
        return

    if (not whole) or lk or (not isinstance(sel, int) and model != list(range(n))):
        acc.nt(("oniom", case["gname"], sel, low, high, bhigh, lk))

    # (1) atom distribution
    acc.ev()
    got = [(str(a[0]), tuple(float(x) for x in a[1])) for a in mfrag.geometry]
    okgeo = (len(got) == len(exp_model) and all(g[0] == x[0] and max(abs(p - q) for p, q in zip(g[1], x[1])) <= TOL_POS
                                                 for g, x in zip(got, exp_model)))
    if not okgeo:
        acc.violation(f"ONIOM.distribute_atoms/model-geometry/{'link' if lk else 'nolink'}:{type(sel).__name__}", case,
                      {"fragment_geometry": J(got), "expected": J(exp_model)}, group="ONIOM.distribute_atoms/model-geometry")
    sysgeo = [(str(a[0]), tuple(float(x) for x in a[1])) for a in system.geometry]
    if sysgeo != geometry:
        acc.violation(f"ONIOM.distribute_atoms/system-geometry/{'link' if lk else 'nolink'}", case,
                      {"fragment_geometry": J(sysgeo)}, group="ONIOM.distribute_atoms/system-geometry")

    # (2) identical levels -> low-level energy of the whole system
    if identical:
        acc.ev()
        if not abs(e - E["sys_low"]) <= TOL_E:
            acc.violation(f"ONIOM.simulate/identical-levels/{low}:{'link' if lk else 'nolink'}", case,
                          {"E_oniom": e, "E_low_system": E["sys_low"], "diff": e - E["sys_low"]},
                          group="ONIOM.simulate/identical-levels")
    # (3) model == whole system -> high-level energy
    if whole and not lk and fz_low is None:
        acc.ev()
        tol = TOL_E if model == list(range(n)) else TOL_E_PERM
        if not abs(e - E["sys_high"]) <= tol:
            acc.violation(f"ONIOM.simulate/model-is-whole-system/{tag}:{type(sel).__name__}", case,
                          {"E_oniom": e, "E_high_system": E["sys_high"], "diff": e - E["sys_high"], "tol": tol},
                          group="ONIOM.simulate/model-is-whole-system")
    # (4) the defining formula with independently recomputed layer energies
    if not identical:
        acc.ev()
        expect = E["sys_low"] + E["mod_high"] - E["mod_low"]
        if not abs(e - expect) <= TOL_E:
            acc.violation(f"ONIOM.simulate/defining-formula/{tag}:{'link' if lk else 'nolink'}", case,
                          {"E_oniom": e, "expected": expect, "layers": E, "diff": e - expect},
                          group="ONIOM.simulate/defining-formula")
        if abs(E["mod_high"] - E["mod_low"]) > 1e-6:
            acc.count("oniom_cases_with_nonzero_correction")
    acc.out(("oniom", case["gname"], round(e, 6)))


def oniom_cases_of_shard(sh):
    geometry = sh["geometry"]
    base = {"kind": "oniom", "gname": sh["gname"], "geometry": geometry, "selection": sh["selection"], "low": sh["low"],
            "high": sh["high"], "basis_low": "sto-3g", "basis_high": sh.get("basis_high", "sto-3g")}
    for sp in sh["species_list"]:
        if sp is None:
            yield dict(base, link=None)
            # solver options with frozen orbitals on the model fragment (heavy-atom systems: there is a core to freeze)
            if sh["gname"] in ("H2O", "HFHF") and sh["high"] in ("CCSD", "FCI"):
                yield dict(base, link=None, fz_high=1)
                if sh["low"] == "CCSD":
                    yield dict(base, link=None, fz_high=1, fz_low=1)
                    yield dict(base, link=None, fz_low=1)
            continue
        st, lv = pick_link(geometry, model_indices(sh["selection"]))
        for f in sh.get("factors", {}).get(sp, FACTORS):
            yield dict(base, link={"staying": st, "leaving": lv, "species": sp, "factor": f})


# ---------------------------------------------------------------------------------------------------------------------
# DMET

def dmet_catalogue(tier):
    """molecule -> dict(q, basis list per localisation, classes (physical partitions), perms mode)."""
    pairs4 = [[[0, 1], [2, 3]], [[0, 2], [1, 3]], [[0, 3], [1, 2]]]
    cls4 = [[[0, 1, 2, 3]]] + pairs4 + [[[0], [1], [2], [3]], [[0], [1, 2, 3]], [[1], [0, 2, 3]]]
    cat = {
        "H2": dict(q=0, classes=[[[0, 1]], [[0], [1]]], perms="all"),
        "H4c": dict(q=0, classes=cls4, perms="all"),
        "H4r": dict(q=0, classes=cls4, perms="all"),
    }
    if tier == "thorough":
        cat["H4q"] = dict(q=2, classes=[[[0, 1, 2, 3]], pairs4[0], pairs4[1], [[0], [1], [2], [3]]], perms="all")
        cat["H6r"] = dict(q=0, classes=[[[0, 1, 2, 3, 4, 5]], [[0, 1], [2, 3], [4, 5]], [[0, 1, 2], [3, 4, 5]],
                                        [[0, 2, 4], [1, 3, 5]], [[i] for i in range(6)]], perms="cyclic")
        cat["H10r"] = dict(q=0, classes=[[[2 * i, 2 * i + 1] for i in range(5)], [[i] for i in range(10)]], perms="cyclic",
                           solvers=["ccsd"])
    return cat


def perms_of(n, mode):
    if mode == "all":
        return [list(p) for p in itertools.permutations(range(n))]
    if mode == "gen":
        out = [list(range(n)), list(range(n))[::-1], [1, 0] + list(range(2, n)), list(range(1, n)) + [0]]
        uniq = []
        for p in out:
            if p not in uniq:
                uniq.append(p)
        return uniq
    if mode == "cyclic":
        return [[(i + k) % n for i in range(n)] for k in range(n)] + [[(-i) % n for i in range(n)]]
    raise ValueError(mode)


def variants_of(partition, level):
    """Orderings of the nested fragment list: (fragment order) x (order inside each fragment)."""
    if level == "two":
        v = [copy.deepcopy(partition), [list(reversed(f)) for f in reversed(partition)]]
        return v if v[0] != v[1] else v[:1]
    out = []
    for forder in itertools.permutations(range(len(partition))):
        inner = [list(itertools.permutations(partition[i])) for i in forder]
        for combo in itertools.product(*inner):
            out.append([list(c) for c in combo])
    return out


def dmet_exact(geometry, q, basis, which, cache):
    key = (json.dumps(geometry), q, basis, which)
    if key not in cache:
        from pyscf import gto, scf, fci, cc
        with quiet():
            m = gto.M(atom=[(a[0], tuple(a[1])) for a in geometry], basis=basis, charge=q, spin=0, verbose=0)
            mf = scf.RHF(m)
            mf.conv_tol = 1e-12
            mf.kernel()
            if which == "fci":
                s = fci.FCI(mf)
                s.conv_tol = 1e-12
                cache[key] = float(s.kernel()[0])
            else:
                c = cc.CCSD(mf)
                c.conv_tol = 1e-10
                c.conv_tol_normt = 1e-8
                c.kernel()
                cache[key] = float(c.e_tot)
    return cache[key]


def dmet_run(c):
    """One DMET calculation on the real code. c: geometry (already relabelled), q, basis, fragment_atoms, loc, solver."""
    from tangelo import SecondQuantizedMolecule
    from tangelo.problem_decomposition import DMETProblemDecomposition
    from tangelo.problem_decomposition.dmet import Localization
    r = {"stage": "build"}
    try:
        with quiet():
            mol = SecondQuantizedMolecule(T(c["geometry"]), c["q"], 0, basis=c["basis"])
            d = DMETProblemDecomposition({"molecule": mol, "fragment_atoms": copy.deepcopy(c["fragment_atoms"]),
                                          "fragment_solvers": c["solver"], "verbose": False,
                                          "electron_localization": getattr(Localization, c["loc"])})
            d.build()
            r["nao"] = int(d.molecule.nao_nr())
            r["N"] = int(d.orbitals.number_active_electrons)
            r["stage"] = "probe"
            f0 = d._oneshot_loop(0.0, save_results=True)
            r["f0"], r["E0"] = float(np.real(f0)), float(np.real(d.dmet_energy))
            r["tlists"] = [[int(x) for x in sf[3]] for sf in d.scf_fragments]
            r["full_span"] = all(sum(t) == r["nao"] for t in r["tlists"])
            r["no_bath"] = all(t[1] == 0 for t in r["tlists"])
            r["stage"] = "simulate"
            rec = []
            orig = d._oneshot_loop

            def wrapped(mu, *a, **k):
                v = orig(mu, *a, **k)
                rec.append((float(np.real(mu)), float(np.real(v))))
                return v
            d._oneshot_loop = wrapped
            r["rec"] = rec
            e = d.simulate()
            d._oneshot_loop = orig
            r["E"], r["mu"] = float(np.real(e)), float(np.real(d.chemical_potential))
            r["E_attr"] = float(np.real(d.dmet_energy))
            r["mismatch"] = rec[-1][1]
            r["stage"] = "done"
            if not abs(r["mismatch"]) <= TOL_N:
                h = 1e-3
                r["slope"] = float(np.real(orig(r["mu"] + h) - orig(r["mu"] - h))) / (2 * h)
    except Exception as ex:
        r["err"] = repr(ex)[:300]
        r["err_type"] = sig_exc(ex)
    return r


def dmet_case(sh, variant, perm, form):
    """Build the case dict: relabel the atoms with perm (new atom i = physical atom perm[i])."""
    geometry = sh["geometry"]
    inv = {p: i for i, p in enumerate(perm)}
    nested = [[inv[a] for a in f] for f in variant]
    fa = nested if form == "nested" else [len(f) for f in nested]
    return {"kind": "dmet", "mname": sh["mname"], "geometry": [geometry[p] for p in perm], "q": sh["q"], "basis": sh["basis"],
            "fragment_atoms": fa, "loc": sh["loc"], "solver": sh["solver"], "perm": perm, "variant": variant, "form": form,
            "base_geometry": geometry}


def judge_dmet(case, r, acc, exact_cache):
    """Checks on a single run (everything but the relabelling comparison)."""
    solver, loc = case["solver"], case["loc"]
    tol = TOL_DMET_VQE if solver == "vqe" else TOL_DMET
    acc.states += 1
    acc.transitions += len(r.get("rec", [])) + 1
    nfr = len(case["fragment_atoms"])
    shape = "whole-molecule-fragment" if nfr == 1 else f"{nfr}-fragments"
    if r["stage"] in ("build", "probe"):
        acc.ev()
        acc.violation(f"DMET.{'build' if r['stage'] == 'build' else '_oneshot_loop(0)'}/exception/{shape}:{r['err_type']}", case,
                      {"err": r["err"]}, group=f"DMET.{'build' if r['stage'] == 'build' else '_oneshot_loop(0)'}/exception")
        return None
    exact = None
    if r["full_span"]:
        if solver == "ccsd":
            exact = dmet_exact(case["base_geometry"], case["q"], case["basis"], "ccsd", exact_cache)
        elif solver == "fci" or r["N"] == 2:
            exact = dmet_exact(case["base_geometry"], case["q"], case["basis"], "fci", exact_cache)
    # exact embedding at zero chemical potential
    if exact is not None:
        acc.ev()
        acc.count("dmet_full_span_runs")
        if not (abs(r["E0"] - exact) <= tol and abs(r["f0"]) <= max(10 * tol, 1e-5)):
            acc.violation(f"DMET._oneshot_loop(0)/full-span-energy/{solver}:{loc}:{shape}", case,
                          {"E_dmet(mu=0)": r["E0"], "exact": exact, "diff": r["E0"] - exact, "mismatch(mu=0)": r["f0"],
                           "tlists": r["tlists"]}, group="DMET._oneshot_loop(0)/full-span-energy")
    if r["stage"] == "simulate":
        acc.ev()
        const = r["no_bath"]
        kind = ("constant-mismatch:" + ("whole-molecule-fragment" if nfr == 1 else "fragments-without-bath")) if const \
            else shape
        acc.count("dmet_simulate_raised")
        acc.violation(f"DMET.simulate/exception/{kind}:{r['err_type']}", case,
                      {"err": r["err"], "mismatch_evaluations": r.get("rec"), "tlists": r["tlists"],
                       "E(mu=0)": r["E0"], "exact": exact},
                      group="DMET.simulate/exception" + (f"({kind})" if const else ""))
        return None
    # electron count at convergence
    acc.ev()
    bound = TOL_N * max(1.0, abs(r.get("slope", 0.0)))
    if not abs(r["mismatch"]) <= bound:
        acc.violation(f"DMET.simulate/electron-count/{solver}:{shape}", case,
                      {"sum_N_frag - N": r["mismatch"], "bound": bound, "mu": r["mu"], "slope": r.get("slope"),
                       "evaluations": r["rec"]}, group="DMET.simulate/electron-count")
    if r["E"] != r["E_attr"]:
        acc.violation(f"DMET.simulate/returned-energy-differs-from-attribute/{solver}", case,
                      {"returned": r["E"], "dmet_energy": r["E_attr"]}, group="DMET.simulate/returned-energy-differs-from-attribute")
    if exact is not None:
        acc.ev()
        if not abs(r["E"] - exact) <= tol:
            acc.violation(f"DMET.simulate/full-span-energy/{solver}:{loc}:{shape}", case,
                          {"E_dmet": r["E"], "exact": exact, "diff": r["E"] - exact, "mu": r["mu"], "tlists": r["tlists"]},
                          group="DMET.simulate/full-span-energy")
    vals = [v for _, v in r["rec"]]
    if case["perm"] != sorted(case["perm"]) or case["variant"] != sorted(sorted(f) for f in case["variant"]) \
            or (len(vals) >= 3 and max(vals) - min(vals) > 1e-9):
        acc.nt(("dmet", case["mname"], case["basis"], case["fragment_atoms"], case["perm"], loc, solver))
    acc.out(("dmet", case["mname"], loc, solver, round(r["E"], 5)))
    return r["E"]


def run_dmet_shard(sh, acc):
    exact_cache = {}
    n = len(sh["geometry"])
    ident = list(range(n))
    canon = sh["partition"]
    contiguous = [a for f in canon for a in f] == ident
    # class reference: canonical order, no relabelling
    ref_case = dmet_case(sh, canon, ident, "counts" if contiguous else "nested")
    ref_e = judge_dmet(ref_case, dmet_run(ref_case), acc, exact_cache)
    tol = TOL_DMET_VQE if sh["solver"] == "vqe" else TOL_DMET
    sampled = False
    for variant in sh["variants"]:
        for perm in sh["perms"]:
            forms = ["nested"]
            inv = {p: i for i, p in enumerate(perm)}
            if [inv[a] for f in variant for a in f] == ident:
                forms.append("counts")
            for form in forms:
                case = dmet_case(sh, variant, perm, form)
                if case["fragment_atoms"] == ref_case["fragment_atoms"] and perm == ident:
                    continue
                e = judge_dmet(case, dmet_run(case), acc, exact_cache)
                if e is None:
                    continue
                if ref_e is None:
                    ref_e, ref_case = e, case
                    continue
                acc.ev()
                if not abs(e - ref_e) <= tol:
                    acc.violation(f"DMET.simulate/relabelling-changes-energy/{form}:{sh['solver']}:{sh['loc']}", dict(case, reference=ref_case),
                                  {"E": e, "E_reference": ref_e, "diff": e - ref_e,
                                   "reference_fragment_atoms": ref_case["fragment_atoms"], "reference_perm": ref_case["perm"]},
                                  group="DMET.simulate/relabelling-changes-energy")
                if not sampled and perm != ident:
                    acc.sample(case, cap=1)
                    sampled = True


# ---------------------------------------------------------------------------------------------------------------------
# method of increments

def mi_subsets(n):
    return [s for k in range(1, n + 1) for s in itertools.combinations(range(n), k)]


def mi_energies(c):
    """-> (e_mf, stored total energy, correction, user overrides (raw), final energy) per subset."""
    n, d = c["n"], c["d"]
    subs = mi_subsets(n)
    idx = {s: i for i, s in enumerate(subs)}
    emf = -7.5 - d
    a = c["assign"]
    ecorr = {}
    for s in subs:
        if a["type"] == "onehot":
            ecorr[s] = -0.3125 if idx[s] == a["hot"][0] else 0.0
        elif a["type"] == "twohot":
            ecorr[s] = (-0.3 - 0.01 * d) if idx[s] == a["hot"][0] else (0.17 if idx[s] == a["hot"][1] else 0.0)
        else:
            k = a["k"]
            ecorr[s] = (-(0.011 * (k + 1)) * len(s) - 0.0007 * (k + 1) * sum((i + 1) ** 2 for i in s)
                        + 0.003 * math.sin(7 * k + 13 * idx[s] + d))
    corr = {s: ((-0.001 * (idx[s] + 1) - 1e-4 * d) if c["corr"] else 0.0) for s in subs}
    stored = {s: emf + ecorr[s] + corr[s] for s in subs}
    ov = c["override"]
    if ov == "none":
        over = {}
    elif ov == "all":
        over = {s: emf + ecorr[s] - 0.05 - 0.001 * idx[s] for s in subs}
    else:
        s = subs[ov]
        over = {s: emf + ecorr[s] - 0.05 - 0.001 * idx[s]}
    final = {s: (over[s] + corr[s]) if s in over else stored[s] for s in subs}
    return emf, stored, corr, over, final


def mobius_total(emf, final, n):
    """Reference inclusion-exclusion written out naively (used by selftest and reported in witnesses)."""
    eps = {}
    for s in mi_subsets(n):
        eps[s] = final[s] - emf - sum(eps[t] for k in range(1, len(s)) for t in itertools.combinations(s, k))
    return emf + sum(eps.values()), eps


def run_mi_case(c, acc):
    from tangelo.problem_decomposition import MethodOfIncrementsHelper
    n = c["n"]
    subs = mi_subsets(n)
    emf, stored, corr, over, final = mi_energies(c)
    full = tuple(range(n))
    data = {}
    for k in range(1, n + 1):
        ks = [s for s in subs if len(s) == k]
        if c.get("key_order") == "rev":
            ks = ks[::-1]
        data[str(k) if c.get("nbody_keys") == "str" else k] = {
            str(s): {"energy_total": stored[s], "energy_correlation": stored[s] - emf, "correction": corr[s],
                     "epsilon": 0.0, "problem_handle": 1000 + subs.index(s), "complete_orbital_space": [0, 1, 2],
                     "frozen_orbitals_truncated": []} for s in ks}
    if c.get("key_order") == "rev":
        data = dict(reversed(list(data.items())))
    full_result = {"energy_total": stored[full], "energy_correlation": stored[full] - emf, "subproblem_data": data}
    user = {str(s): v for s, v in over.items()} if over else None
    acc.states += 1
    acc.transitions += 1
    acc.ev()
    tag = f"{n}c:{'corr' if c['corr'] else 'nocorr'}:{'override-' + ('single' if isinstance(c['override'], int) else c['override'])}"
    path = None
    try:
        with quiet():
            if c.get("via") == "file":
                fd, path = tempfile.mkstemp(prefix="c15_mi_", suffix=".log")
                with os.fdopen(fd, "w") as f:
                    f.write("full_result:\n" + json.dumps(full_result))
                helper = MethodOfIncrementsHelper(log_file=path)
            else:
                helper = MethodOfIncrementsHelper(full_result=full_result)
            user_arg = copy.deepcopy(user)
            got = float(helper.mi_summation(user_arg) if user is not None else helper.mi_summation())
            # the override dictionary belongs to the caller; a second summation (same helper, same dictionary) must agree
            if user_arg != user:
                acc.violation(f"MI.mi_summation/argument-modified/{tag}", c, {"before": user, "after": user_arg},
                              group="MI.mi_summation/argument-modified")
            acc.ev()
            again = float(helper.mi_summation(user_arg) if user is not None else helper.mi_summation())
            if not abs(again - got) <= TOL_MI:
                acc.violation(f"MI.mi_summation/second-call-differs/{tag}", c, {"first": got, "second": again},
                              group="MI.mi_summation/second-call-differs")
    except Exception as e:
        acc.violation(f"MI.mi_summation/exception/{tag}:{sig_exc(e)}", c, {"err": repr(e)[:300]}, group="MI.mi_summation/exception")
        return
    finally:
        if path and os.path.exists(path):
            os.remove(path)
    if n >= 2:
        acc.nt(("mi", c))
    expect = final[full]
    if not abs(got - expect) <= TOL_MI:
        acc.violation(f"MI.mi_summation/full-order-sum-differs-from-complete-fragment/{tag}", c,
                      {"mi_summation": got, "energy_of_complete_fragment": expect, "diff": got - expect,
                       "naive_inclusion_exclusion": mobius_total(emf, final, n)[0], "e_mf": emf},
                      group="MI.mi_summation/full-order-sum-differs-from-complete-fragment")
    acc.out(("mi", n, round(got, 9)))


def mi_cases_of_shard(sh):
    n, d = sh["n"], sh["d"]
    m = 2 ** n - 1
    if sh["atype"] == "onehot":
        assigns = [{"type": "onehot", "hot": [i]} for i in range(m)]
    elif sh["atype"] == "twohot":
        assigns = [{"type": "twohot", "hot": [i, j]} for i, j in itertools.combinations(range(m), 2)]
    else:
        assigns = [{"type": "dense", "k": k} for k in range(3)]
    for a in assigns:
        for corr in (False, True):
            for ov in ["none", "all"] + list(range(m)):
                forms = [("fwd", "int", "dict")]
                if ov in ("none", "all"):
                    forms += [("rev", "int", "dict"), ("fwd", "str", "dict")]
                    if a["type"] == "dense":
                        forms += [("fwd", "str", "file")]
                for ko, nk, via in forms:
                    yield {"kind": "mi", "n": n, "d": d, "assign": a, "corr": corr, "override": ov, "key_order": ko,
                           "nbody_keys": nk, "via": via}


# ---------------------------------------------------------------------------------------------------------------------
# shards

CUSTOM_GROUP2 = [["X", [0., 0., 0.]], ["O", [0., 0., 1.0]], ["H", [0.8, 0., 1.4]]]          # ghost + exactly two atoms
CUSTOM_GROUP3 = [["X", [0.2, -0.1, 0.3]], ["C", [0.2, -0.1, 1.4]], ["N", [0.2, -0.1, 2.55]], ["H", [1.1, 0.3, 1.0]]]  # ghost off the origin
RELINK_SPECIES = ["H", "F", "CH3", "CF3", "NH2", CUSTOM_GROUP, CUSTOM_GROUP2, CUSTOM_GROUP3]


def relink_factors(seed):
    return FACTORS + [round(0.55 + 0.4 * runner.seed_delta(seed), 6)]


def shards(tier, seed):
    geos = geometries(seed)
    d = runner.seed_delta(seed)
    sh = []
    # --- relink
    for gname in ("H4c", "H2O", "HFHF", "C2H6"):
        for sp in RELINK_SPECIES:
            sh.append({"kind": "relink", "gname": gname, "geometry": geos[gname], "species": sp, "factors": relink_factors(seed)})
    # --- method of increments
    for n in range(1, (5 if tier == "thorough" else 4) + 1):
        for atype in ("onehot", "twohot", "dense"):
            if atype == "twohot" and n == 1:
                continue
            sh.append({"kind": "mi", "n": n, "atype": atype, "d": d})
    # --- ONIOM
    gl = ["H4c", "H2O", "HFHF"] + (["C2H6"] if tier == "thorough" else [])
    for gname in gl:
        sels, whole = oniom_selections(gname, tier)
        # quick tier: the full link x factor product on the H4 chain; on H2O / HF dimer the F and CH3 caps are run through
        # the energy identities at factor 0.709 only (all factors are placed and checked geometrically in the relink family)
        fac = {"F": [0.709], "CH3": [0.709]} if (tier == "quick" and gname != "H4c") else {}
        for low, high in SOLVER_PAIRS:
            for sel in sels:
                sh.append({"kind": "oniom", "gname": gname, "geometry": geos[gname], "selection": sel, "low": low,
                           "high": high, "species_list": LINK_SPECIES, "factors": fac})
            for sel in whole:
                sh.append({"kind": "oniom", "gname": gname, "geometry": geos[gname], "selection": sel, "low": low,
                           "high": high, "species_list": [None]})
    if tier == "thorough":   # a larger basis for the high level (no identical-level oracle; defining formula only)
        sels, whole = oniom_selections("H4c", tier)
        for low, high in SOLVER_PAIRS:
            for sel in sels + whole:
                sh.append({"kind": "oniom", "gname": "H4c", "geometry": geos["H4c"], "selection": sel, "low": low,
                           "high": high, "species_list": (LINK_SPECIES if sel in sels else [None]), "basis_high": "3-21g"})
    # --- DMET
    cat = dmet_catalogue(tier)
    for mname, m in cat.items():
        n = len(geos[mname])
        configs = [("sto-3g", "meta_lowdin"), ("sto-3g", "nao")]
        if tier == "thorough" and mname in ("H2", "H4c", "H4q"):
            configs += [("3-21g", "iao"), ("3-21g", "meta_lowdin")]
        for basis, loc in configs:
            for solver in m.get("solvers", ["fci", "ccsd"]):
                for part in m["classes"]:
                    if tier == "thorough":
                        vlevel = "all" if (solver == "fci" and mname in ("H2", "H4c") and basis == "sto-3g") else "two"
                        pmode = m["perms"] if (solver == "fci" or mname in ("H2", "H4c") or m["perms"] != "all") else "gen"
                    else:
                        vlevel = "two"
                        pmode = m["perms"] if solver == "fci" else "gen"
                    if basis != "sto-3g" and m["perms"] == "all":
                        pmode = "all" if (solver == "fci" and n <= 2) else "gen"
                    for v in variants_of(part, vlevel):
                        sh.append({"kind": "dmet", "mname": mname, "geometry": geos[mname], "q": m["q"], "basis": basis,
                                   "loc": loc, "solver": solver, "partition": part, "variants": [v],
                                   "perms": perms_of(n, pmode)})
    if tier == "thorough":   # vqe fragments: H2 (everything) and single-atom fragments of the H4 chain
        for mname, parts, pmode in (("H2", [[[0, 1]], [[0], [1]]], "all"), ("H4c", [[[0], [1], [2], [3]]], "gen")):
            for loc in ("meta_lowdin", "nao"):
                for part in parts:
                    for v in variants_of(part, "two"):
                        sh.append({"kind": "dmet", "mname": mname, "geometry": geos[mname], "q": 0, "basis": "sto-3g",
                                   "loc": loc, "solver": "vqe", "partition": part, "variants": [v],
                                   "perms": perms_of(len(geos[mname]), pmode)})
    # heavy shards first (pool is imap_unordered with chunksize 1)
    weight = {"dmet": 0, "oniom": 1, "mi": 2, "relink": 3}
    sh.sort(key=lambda s: (weight[s["kind"]], 0 if s.get("solver") in ("ccsd", "vqe") else 1))
    return sh


def run_shard(sh):
    acc = Acc()
    t0 = time.process_time()
    kind = sh["kind"]
    if kind == "relink":
        geometry = sh["geometry"]
        n = len(geometry)
        first = True
        for st, lv in itertools.permutations(range(n), 2):
            for f in sh["factors"]:
                case = {"kind": "relink", "gname": sh["gname"], "geometry": geometry, "staying": st, "leaving": lv,
                        "factor": f, "species": sh["species"]}
                run_relink_case(case, acc)
                if first and st == 1:
                    acc.sample(case, cap=1)
                    first = False
        if groups() != _fresh_groups():
            acc.violation("Link.relink/capping-group-table-mutated/" + species_name(sh["species"]), {"kind": "relink-table"}, None,
                          group="Link.relink/capping-group-table-mutated")
    elif kind == "mi":
        i = 0
        for case in mi_cases_of_shard(sh):
            run_mi_case(case, acc)
            if i == 7:
                acc.sample(case, cap=1)
            i += 1
    elif kind == "oniom":
        ref = RefEnergies()
        for case in oniom_cases_of_shard(sh):
            run_oniom_case(case, acc, ref)
            if case["link"] and case["link"]["factor"] == 0.709 and sh["high"] == "CCSD" and case["link"]["species"] == "CH3":
                acc.sample(case, cap=1)
    elif kind == "dmet":
        run_dmet_shard(sh, acc)
    acc.count(f"cpu_s_{kind}", round(time.process_time() - t0, 3))
    acc.count(f"shards_{kind}")
    return acc


def _fresh_groups():
    from tangelo.problem_decomposition.oniom._helpers.capping_groups import chemical_groups
    return chemical_groups


def replay_case(case):
    acc = Acc()
    k = case.get("kind")
    if k == "relink":
        run_relink_case(case, acc)
    elif k == "oniom":
        run_oniom_case(case, acc)
    elif k == "mi":
        run_mi_case(case, acc)
    elif k == "dmet":
        cache = {}
        c = {kk: v for kk, v in case.items() if kk != "reference"}
        e = judge_dmet(c, dmet_run(c), acc, cache)
        if "reference" in case and e is not None:
            e0 = judge_dmet(case["reference"], dmet_run(case["reference"]), acc, cache)
            tol = TOL_DMET_VQE if case["solver"] == "vqe" else TOL_DMET
            if e0 is not None and not abs(e - e0) <= tol:
                acc.violation(f"DMET.simulate/relabelling-changes-energy/{case['form']}:{case['solver']}:{case['loc']}", case,
                              {"E": e, "E_reference": e0, "diff": e - e0}, group="DMET.simulate/relabelling-changes-energy")
    return acc


def bounds(tier, seed):
    sh = shards(tier, seed)
    by = {}
    for s in sh:
        by[s["kind"]] = by.get(s["kind"], 0) + 1
    cat = dmet_catalogue(tier)
    return {"tier": tier, "shards_per_family": by, "seed_delta": runner.seed_delta(seed),
            "oniom": {"geometries": ["H4c", "H2O", "HFHF"] + (["C2H6"] if tier == "thorough" else []),
                      "solver_pairs": SOLVER_PAIRS, "links": LINK_SPECIES, "factors": FACTORS,
                      "selections": {g: oniom_selections(g, tier) for g in ["H4c", "H2O", "HFHF"] + (["C2H6"] if tier == "thorough" else [])},
                      "basis": "sto-3g" + (" (+ 3-21g high level on H4c)" if tier == "thorough" else "")},
            "relink": {"geometries": ["H4c", "H2O", "HFHF", "C2H6"], "species": [species_name(s) for s in RELINK_SPECIES],
                       "factors": relink_factors(seed), "pairs": "every ordered pair of distinct atoms"},
            "dmet": {m: {"classes": v["classes"], "relabellings": v["perms"], "charge": v["q"]} for m, v in cat.items()},
            "dmet_tier_rule": ("quick: 2 orderings of each fragment list; every atom permutation with fci fragments, the 4 generators "
                               "(identity, reversal, transposition, n-cycle) with ccsd"
                               if tier == "quick" else
                               "thorough: every ordering of each fragment list x every permutation (fci on H2 and the H4 chain), 2 orderings x "
                               "every permutation (fci on the H4 rings, ccsd on H2 and the H4 chain), 2 orderings x the 4 generators (ccsd on "
                               "the H4 rings; 3-21g with iao/meta_lowdin), cyclic shifts + reflection for rings of 6/10, vqe on H2 and on "
                               "single-atom fragments of the H4 chain"),
            "mi": {"centres": list(range(1, (5 if tier == "thorough" else 4) + 1)),
                   "assignments": "every one-hot, every two-hot, 3 dense", "corrections": [False, True],
                   "overrides": "none, all, each single fragment"},
            "geometries": geometries(seed)}


def selftest():
    # inclusion-exclusion reference: full-order sum telescopes to the complete fragment
    c = {"n": 4, "d": 0.123, "assign": {"type": "dense", "k": 1}, "corr": True, "override": "all"}
    emf, stored, corr, over, final = mi_energies(c)
    tot, eps = mobius_total(emf, final, 4)
    assert abs(tot - final[(0, 1, 2, 3)]) < 1e-12
    assert abs(eps[(0, 1)] - (final[(0, 1)] - final[(0,)] - final[(1,)] + emf)) < 1e-12
    # relink reference: a correctly placed CH3 passes, a tilted or stretched one is flagged
    ghost, atoms = species_atoms("CH3")
    R0 = np.array([a[1] for a in atoms])
    geom = [("C", (0., 0., 0.)), ("C", (0.3, -1.1, 0.9))]
    u_ref = (R0[0] - ghost) / np.linalg.norm(R0[0] - ghost)
    u = np.array(geom[1][1]) / np.linalg.norm(geom[1][1])
    v = np.cross(u_ref, u)
    sn, cs = np.linalg.norm(v), float(u_ref @ u)
    K = np.array([[0, -v[2], v[1]], [v[2], 0, -v[0]], [-v[1], v[0], 0]]) / sn
    Rm = np.eye(3) + sn * K + (1 - cs) * (K @ K)
    good = (R0 - R0[0]) @ Rm.T + 0.709 * np.array(geom[1][1])
    out = [(a[0], tuple(p)) for a, p in zip(atoms, good)]
    assert relink_problems(out, geom, 0, 1, 0.709, "CH3") == []
    bad = [(a[0], tuple(p)) for a, p in zip(atoms, (R0 - R0[0]) + 0.709 * np.array(geom[1][1]))]
    assert [k for k, _ in relink_problems(bad, geom, 0, 1, 0.709, "CH3")] == ["axis-not-parallel-to-bond"]
    bad2 = [(a[0], tuple(p)) for a, p in zip(atoms, good + np.array([0, 0, 1e-6]))]
    assert "first-atom-position" in [k for k, _ in relink_problems(bad2, geom, 0, 1, 0.709, "CH3")]
    bad3 = [(a[0], tuple(p * (1.0 if i else 1.0) + (np.array([1e-4, 0, 0]) if i == 2 else 0))) for i, (a, p) in enumerate(zip(atoms, good))]
    assert "group-not-rigid" in [k for k, _ in relink_problems(bad3, geom, 0, 1, 0.709, "CH3")]
    assert variants_of([[0, 1], [2, 3]], "all").__len__() == 8 and len(perms_of(4, "all")) == 24


if __name__ == "__main__":
    import sys
    runner.main(sys.modules[__name__])
