"""C10 - Mid-circuit measurement and classical control follow the Born rule.

E1: programs of length <= L over a gate/measurement alphabet (MEASURE, CMEASURE with dictionary / function / class
control, nested), every outcome string in exact mode; E2-style unfolding of classical control in the reference (work-list,
branching on outcomes); E3: every answer of np.random.random() (grid), cirq's prng.choice and the state samplers for
n_shots in {1,2}.
"""
import copy
import itertools
import math

import numpy as np

from mc import runner, choicetree, seams
from mc.runner import Acc
from mc.ref import statevec as SV

PID = "C10"
ENGINE = "seqspace (programs) + choicetree (scripted random(), prng.choice, state samplers) + reference branch tree"
RULE = ("cases = (program, control kind, initial vector, mode); programs = words of length <= L over {H,X,RY,CNOT,CRY, "
        "MEASURE, CMEASURE(dict|function|class, nested)} with 1..3 measurement gates; exact mode: every outcome string; "
        "sampled modes: every execution of the choice tree; non-trivial = distinct (program, mode) with at least two "
        "outcome branches of non-zero probability")
ASSUMPTIONS = [
    "programs beyond the length bound / 3 qubits / 3 measurement gates, nesting deeper than the catalogue are not explored",
    "np.random.random() answers range over the grid {(i+0.4)/K}: for every grid point the outcome taken must be the one the "
    "Born probability dictates (u < p0), which decides the thresholding exactly without statistics",
    "n_shots in {1,2}; cirq.Simulator draws only through the scripted RandomState (un-owned draws raise)",
    "tolerance 1e-9 on probabilities and amplitudes (up to a global phase)",
]
PI = math.pi
TOL = 1e-9


def G(name, t, c=None, p=""):
    return [name, list(t), (None if c is None else list(c)), p, False]


def M(q):
    return G("MEASURE", [q])


def CM(q, ctl):
    return G("CMEASURE", [q], None, ctl)


# ---- classical controls (harness-supplied inputs; the reference uses its own fresh instance) -----------------------------------

def fn_flip(m):
    """function control: flip qubit 1 back when the outcome is 1, put it in superposition otherwise."""
    return [G("X", [1])] if m == "1" else [G("H", [1])]


def fn_meas(m):
    """function control returning a plain MEASURE (nested measurement without further control)."""
    return [G("H", [0]), G("MEASURE", [0])] if m == "0" else []


class RusModel:
    """two-round repeat-until-success on qubit 1 with a counter reset in finalize()."""

    def __init__(self):
        self.count = 0
        self.finalized = 0

    def return_gates(self, m):
        self.count += 1
        if m == "1" or self.count >= 2:
            return []
        return [G("H", [1]), G("CMEASURE", [1], None, "rus")]

    def finalize(self):
        self.finalized += 1
        self.count = 0


CONTROLS = {"fn_flip": fn_flip, "fn_meas": fn_meas, "rus": RusModel}


def real_control(kind):
    """Build the object handed to Circuit(cmeasure_control=...)."""
    from tangelo.linq import Gate, ClassicalControl
    if kind is None:
        return None

    def mk(ds):
        return [mk_gate(d) for d in ds]
    if kind in ("fn_flip", "fn_meas"):
        f = CONTROLS[kind]
        return lambda m: mk(f(m))

    class Rus(ClassicalControl):
        def __init__(self):
            self.model = RusModel()

        def return_gates(self, measurement):
            return mk(self.model.return_gates(measurement))

        def finalize(self):
            self.model.finalize()
    return Rus()


def mk_gate(d):
    from tangelo.linq import Gate
    par = d[3]
    if isinstance(par, dict):
        par = {k: [mk_gate(x) for x in v] for k, v in par.items()}
    return Gate(d[0], list(d[1]), (None if d[2] is None else list(d[2])), par, d[4])


def mk_circ(prog, n, ctl):
    from tangelo.linq import Circuit
    return Circuit([mk_gate(d) for d in prog], n_qubits=n, cmeasure_control=real_control(ctl))


# ---- reference branch tree --------------------------------------------------------------------------------------------

def branches(prog, n, ctl_kind, init=None, ctl_obj=None):
    """Depth-first unfolding. Returns list of dicts {outs, p, psi, applied} for every outcome string of non-zero
    probability and list of impossible prefixes (positive-probability prefix + outcome of probability zero)."""
    if init is None:
        psi0 = np.zeros(2 ** n, dtype=complex)
        psi0[0] = 1
    else:
        psi0 = np.asarray(init, dtype=complex)
    if ctl_obj is None:
        ctl_obj = CONTROLS[ctl_kind]() if ctl_kind == "rus" else (CONTROLS[ctl_kind] if ctl_kind else None)
    res, dead = [], []

    def rec(work, psi, p, outs, applied, ctl, condp):
        work = list(work)
        while work:
            g = work.pop(0)
            if g[0] not in ("MEASURE", "CMEASURE"):
                psi = SV.apply_gate(psi.reshape((2,) * n), n, g).reshape(-1)
                applied = applied + [g[:3] + [g[3], False]]
                continue
            q = g[1][0]
            for m in ("0", "1"):
                v, pm = SV.project(psi, n, q, int(m))
                if pm < 1e-13:
                    dead.append(outs + m)
                    continue
                c2 = copy.deepcopy(ctl)
                if g[0] == "MEASURE":
                    extra = []
                elif isinstance(g[3], dict):
                    extra = g[3][m]
                else:
                    extra = (c2.return_gates(m) if hasattr(c2, "return_gates") else c2(m))
                rec(list(extra) + work, v / np.sqrt(pm), p * pm, outs + m, applied + [[g[0], [q], None, m, False]], c2,
                    condp + [(pm, m)])
            return
        res.append({"outs": outs, "p": p, "psi": psi, "applied": applied, "condp": condp})

    rec(prog, psi0, 1.0, "", [], ctl_obj, [])
    return res, dead


def gates_equal(real_gates, ref_descs):
    if len(real_gates) != len(ref_descs):
        return False
    for g, d in zip(real_gates, ref_descs):
        par = g.parameter
        if (g.name, list(g.target), g.control) != (d[0], d[1], d[2]):
            return False
        if isinstance(d[3], float):
            if not isinstance(par, (int, float)) or abs(par - d[3]) > 1e-12:
                return False
        elif par != d[3]:
            return False
    return True


def dense_state(n):
    k = np.arange(2 ** n)
    v = (1.0 + 0.23 * k) * np.exp(1j * (0.5 * k * k + 0.3 * k))
    return v / np.linalg.norm(v)


def fdiff(a, b):
    return max([abs(float(a.get(k, 0)) - float(b.get(k, 0))) for k in set(a) | set(b)] + [0.0])


def psig(prog, ctl):
    kinds = set()
    for g in prog:
        if g[0] == "MEASURE":
            kinds.add("MEASURE")
        elif g[0] == "CMEASURE":
            kinds.add("CMEASURE-" + ("dict" if isinstance(g[3], dict) else (ctl or "str")))
            if isinstance(g[3], dict) and any(x[0] in ("MEASURE", "CMEASURE") for v in g[3].values() for x in v):
                kinds.add("nested")
    return "+".join(sorted(kinds))


# ---- (a) exact mode, every outcome string -----------------------------------------------------------------------------------

def check_exact(case, acc, shared=None):
    """shared: optional dict holding ONE Circuit object (and backend) reused across calls of this function for the same program with
    different initial statevectors - history: whatever the object recorded in an earlier simulation must not leak into the next."""
    from tangelo.linq import get_backend, generate_applied_gates
    prog, n, ctl = case["prog"], case["n"], case.get("ctl")
    init = dense_state(n) if case.get("init") == "dense" else None
    sg = psig(prog, ctl)
    res, dead = branches(prog, n, ctl, init)
    has_c = any(g[0] == "CMEASURE" for g in prog)

    def bad(site, kind, detail):
        acc.violation(f"exact/{site}/{kind}/{sg}", case, detail, group=f"exact/{site}/{kind}")

    if shared is not None:
        if "circ" not in shared:
            shared["circ"], shared["be"] = mk_circ(prog, n, ctl), get_backend("cirq")
        circ, be = shared["circ"], shared["be"]
    else:
        circ = mk_circ(prog, n, ctl)
        be = get_backend("cirq")
    tot, mix = 0.0, {}
    for br in res:
        b = br["outs"]
        acc.ev()
        try:
            freqs, sv = be.simulate(circ, desired_meas_result=b, return_statevector=True, initial_statevector=init)
        except Exception as e:
            bad("simulate", "exception", {"b": b, "err": repr(e)[:300]})
            continue
        d = SV.dist_up_to_phase(np.asarray(sv), br["psi"])
        if d > TOL:
            bad("simulate", "post-measurement-state", {"b": b, "distance": d})
        fref = {k: v for k, v in SV.freqs(br["psi"], n).items() if v >= 1e-10}
        if fdiff(freqs, fref) > TOL:
            bad("simulate", "branch-distribution", {"b": b, "got": {k: float(v) for k, v in freqs.items()}, "ref": fref})
        pr = circ.success_probabilities.get(b)
        if pr is None or abs(pr - br["p"]) > TOL:
            bad("simulate", "success-probability", {"b": b, "recorded": pr, "ref": br["p"]})
        else:
            tot += pr
            for k, v in freqs.items():
                mix[k] = mix.get(k, 0) + pr * float(v)
        # (mid_circuit_meas_freqs in exact mode is not part of the statement: for CMEASURE circuits the code stores
        #  {"": 1.0} there - noted in DESIGN.md as an observation, not checked)
        if has_c:
            if not gates_equal(circ.applied_gates, br["applied"]):
                bad("simulate", "applied-gates", {"b": b, "got": [SV.desc(g) if not isinstance(g.parameter, dict) else g.name for g in circ.applied_gates],
                                                    "ref": br["applied"]})
            # (c) generate_applied_gates without simulating
            acc.ev()
            try:
                ag = generate_applied_gates(mk_circ(prog, n, ctl), desired_meas_result=b)
                if not gates_equal(ag, br["applied"]):
                    bad("generate_applied_gates", "gate-list", {"b": b, "got": [repr(g)[:60] for g in ag], "ref": br["applied"]})
            except Exception as e:
                bad("generate_applied_gates", "exception", {"b": b, "err": repr(e)[:300]})
    # probabilities over all outcome strings sum to one; weighted branch distributions = unconditioned distribution
    acc.ev()
    if abs(sum(br["p"] for br in res) - 1) > 1e-9:
        raise RuntimeError("reference branch tree does not sum to 1 (harness)")
    if res and abs(tot - 1) > 1e-8 and not acc.viol:
        bad("simulate", "probabilities-do-not-sum-to-one", {"sum": tot})
    uncond = {}
    for br in res:
        for k, v in SV.freqs(br["psi"], n).items():
            uncond[k] = uncond.get(k, 0) + br["p"] * v
    if abs(tot - 1) < 1e-8 and fdiff(mix, {k: v for k, v in uncond.items() if v > 1e-10}) > 1e-8:
        bad("simulate", "weighted-branches-differ-from-unconditioned", {"mix": mix, "ref": uncond})
    # impossible outcome strings must be refused
    nm_static = sum(1 for g in prog if g[0] in ("MEASURE", "CMEASURE"))
    for pre in sorted(set(dead)):
        b = pre if has_c else pre + "0" * (nm_static - len(pre))
        if has_c and len(pre) < 1:
            continue
        acc.ev()
        try:
            out = be.simulate(mk_circ(prog, n, ctl), desired_meas_result=b, return_statevector=True, initial_statevector=init)
            bad("simulate", "zero-probability-outcome-not-refused", {"b": b, "returned": repr(out)[:200]})
        except Exception:
            acc.nt(("refused", prog, b))
    if len(res) > 1:
        acc.nt(("exact", prog, ctl, case.get("init")))
    acc.out(tuple(sorted(br["outs"] for br in res)))


# ---- (b) sampled modes -------------------------------------------------------------------------------------------------------

def check_cmeasure_shots(case, acc):
    """CMEASURE path: np.random.random() per measurement (grid), sample_state_vector per shot."""
    from tangelo.linq import get_backend
    import tangelo.linq.target.backend as BK
    prog, n, ctl, shots, K = case["prog"], case["n"], case.get("ctl"), case["n_shots"], case["K"]
    sg = psig(prog, ctl)
    res, dead = branches(prog, n, ctl)
    by_outs = {br["outs"]: br for br in res}

    def bad(kind, detail):
        acc.violation(f"cmeasure-shots/{kind}/{sg}", case, detail, group=f"cmeasure-shots/{kind}")

    holder = {}

    def run(ch):
        circ = mk_circ(prog, n, ctl)
        be = get_backend("cirq", n_shots=shots)
        be.cirq = seams.CirqProxy(ch)
        with seams.patched(BK, "np", seams.NumpyProxy(ch, K)):
            fr, _ = be.simulate(circ)
        holder["circ"], holder["be"] = circ, be
        return ({k: float(v) for k, v in fr.items()}, dict(be.all_frequencies), dict(be.mid_circuit_meas_freqs))

    n_exec = 0
    for choices, trace, infos, (fr, allf, midf) in choicetree.explore(run, max_exec=case.get("max_exec")):
        n_exec += 1
        acc.ev()
        acc.transitions += len(trace)
        # parse the trace shot by shot: random() draws until sample_state_vector
        shots_seen, cur = [], []
        okp = True
        for (nopt, c, lab), info in zip(trace, infos):
            if lab == "np.random.random":
                cur.append((c + seams.GRID_OFFSET) / K)
            elif lab == "sample_state_vector":
                shots_seen.append((cur, info, c))
                cur = []
            else:
                bad("unexpected-draw", {"label": lab})
                okp = False
        if not okp or len(shots_seen) != shots or cur:
            bad("draw-structure", {"shots_seen": len(shots_seen), "trace": [t[2] for t in trace]})
            continue
        joint = {}
        last_applied = None
        for us, info, c in shots_seen:
            # follow the reference tree with the same uniform variates
            outs = ""
            cands = res
            ok = True
            for u in us:
                # conditional probability of outcome 0 given outs so far (from any branch with that prefix)
                brs = [br for br in res if br["outs"].startswith(outs) and len(br["outs"]) > len(outs)]
                if not brs:
                    bad("more-measurement-draws-than-reference", {"outs": outs})
                    ok = False
                    break
                p0 = sum(br["p"] for br in brs if br["outs"][len(outs)] == "0") / sum(br["p"] for br in brs)
                if abs(u - p0) < 1e-9:
                    raise RuntimeError("grid point on a branch probability (choose another K)")
                outs += "0" if u < p0 else "1"
            if not ok:
                break
            br = by_outs.get(outs)
            if br is None:
                bad("measurement-sequence-not-a-complete-branch", {"outs": outs, "uniforms": us})
                ok = False
                break
            # state handed to the final sampler = reference branch state
            d = SV.dist_up_to_phase(np.asarray(info["state"]), br["psi"])
            if d > TOL:
                bad("state-handed-to-final-sampler", {"outs": outs, "distance": d})
            support = sorted(info["probs"])
            final = support[choicetree.sequences(len(support), 1)[c][0]]
            joint[outs + final] = joint.get(outs + final, 0) + 1.0 / shots
            last_applied = br["applied"]
        else:
            mid_ref, fin_ref = {}, {}
            for k, v in joint.items():
                mid_ref[k[:-n]] = mid_ref.get(k[:-n], 0) + v
                fin_ref[k[-n:]] = fin_ref.get(k[-n:], 0) + v
            if fdiff(allf, joint) > 1e-12 or set(allf) != set(joint):
                bad("all_frequencies", {"got": allf, "ref": joint})
            if fdiff(midf, mid_ref) > 1e-12 or fdiff(fr, fin_ref) > 1e-12:
                bad("marginals", {"mid": midf, "mid_ref": mid_ref, "final": fr, "final_ref": fin_ref})
            if not gates_equal(holder["circ"].applied_gates, last_applied):
                bad("applied-gates-of-last-shot", {"ref": last_applied, "got": [repr(g)[:50] for g in holder["circ"].applied_gates]})
        acc.out(tuple(sorted(joint.items())))
    if choicetree.explore.capped:
        acc.caps.append("cmeasure-shots execution cap")
    acc.states += n_exec
    if len(res) > 1:
        acc.nt(("cmeasure-shots", prog, ctl, shots))


def check_cmeasure_shots_dmr(case, acc):
    """CMEASURE programs with a desired outcome string AND finite shots: every shot (not only the first) must be conditioned on
    the requested outcomes - no unconditioned measurement draw, the state handed to each final sampler is the reference branch
    state, every key of all_frequencies starts with the requested string, the recorded probability is the branch probability."""
    from tangelo.linq import get_backend
    import tangelo.linq.target.backend as BK
    prog, n, ctl, shots, b = case["prog"], case["n"], case.get("ctl"), case["n_shots"], case["dmr"]
    sg = psig(prog, ctl)
    res, dead = branches(prog, n, ctl)
    br = {x["outs"]: x for x in res}.get(b)
    if br is None:
        return

    def bad(kind, detail):
        acc.violation(f"cmeasure-shots-dmr/{kind}/{sg}", case, detail, group=f"cmeasure-shots-dmr/{kind}")

    holder = {}

    def run(ch):
        circ = mk_circ(prog, n, ctl)
        be = get_backend("cirq", n_shots=shots)
        be.cirq = seams.CirqProxy(ch)
        with seams.patched(BK, "np", seams.NumpyProxy(ch, 2)):
            fr, _ = be.simulate(circ, desired_meas_result=b)
        holder["circ"] = circ
        return ({k: float(v) for k, v in fr.items()}, dict(be.all_frequencies))

    n_exec = 0
    try:
        for choices, trace, infos, (fr, allf) in choicetree.explore(run, max_exec=2000):
            n_exec += 1
            acc.ev()
            acc.transitions += len(trace)
            labs = [t[2] for t in trace]
            if "np.random.random" in labs:
                bad("unconditioned-measurement-draw-in-a-conditioned-run", {"draws": labs, "shots": shots})
                break
            finals = [i for t, i in zip(trace, infos) if t[2] == "sample_state_vector"]
            if len(finals) != shots:
                bad("draw-structure", {"draws": labs})
                break
            if any(SV.dist_up_to_phase(np.asarray(i["state"]), br["psi"]) > TOL for i in finals):
                bad("state-handed-to-final-sampler-is-not-the-requested-branch", {"b": b})
                break
            if any(not k.startswith(b) for k in allf) or abs(sum(allf.values()) - 1) > 1e-12:
                bad("all_frequencies-not-conditioned", {"b": b, "all_frequencies": allf})
                break
            pr = holder["circ"].success_probabilities.get(b)
            if pr is None or abs(pr - br["p"]) > TOL:
                bad("success-probability", {"b": b, "recorded": pr, "ref": br["p"]})
                break
            acc.out(("cdmr", tuple(sorted(allf))))
    except Exception as e:
        if isinstance(e, (seams.UnownedRandomness, choicetree.ReplayDivergence)):
            raise
        bad("exception", {"b": b, "err": repr(e)[:300]})
    acc.states += max(1, n_exec)
    if br["p"] < 1 - 1e-9:
        acc.nt(("cmeasure-shots-dmr", prog, ctl, shots, b))


def weight_of(trace, infos):
    w = 1.0
    for (nopt, c, lab), info in zip(trace, infos):
        if lab == "prng.choice":
            p = info["p"]
            support = [i for i in range(len(p))] if p is None else [i for i in range(len(p)) if p[i] > 1e-12]
            m = info["size"] or 1
            seq = choicetree.sequences(len(support), m)[c]
            for j in seq:
                w *= (1.0 / len(support)) if p is None else p[support[j]]
        elif lab in ("sample_density_matrix", "sample_state_vector"):
            support = sorted(info["probs"])
            seq = choicetree.sequences(len(support), info["repetitions"])[c]
            for j in seq:
                w *= info["probs"][support[j]]
        else:
            raise RuntimeError(f"weight of draw {lab}")
    return w


def check_measure_shots(case, acc):
    """MEASURE-only programs with shots: dephased density-matrix route (save_mid False) and run-all-shots route (save_mid
    True). Implementation-agnostic oracle: executions weighted by the probabilities recorded at their draws induce a
    distribution over returned tables which must equal the reference joint / marginal distribution."""
    from tangelo.linq import get_backend
    prog, n, shots, save = case["prog"], case["n"], case["n_shots"], case["save"]
    sg = psig(prog, None)
    res, dead = branches(prog, n, None)
    nm = len(res[0]["outs"])
    joint_ref = {}
    for br in res:
        for k, v in SV.freqs(br["psi"], n).items():
            if v > 1e-12:
                joint_ref[br["outs"] + k] = joint_ref.get(br["outs"] + k, 0) + br["p"] * v
    fin_ref, mid_ref = {}, {}
    for k, v in joint_ref.items():
        fin_ref[k[nm:]] = fin_ref.get(k[nm:], 0) + v
        mid_ref[k[:nm]] = mid_ref.get(k[:nm], 0) + v

    def bad(kind, detail):
        acc.violation(f"measure-shots/{'save' if save else 'nosave'}/{kind}/{sg}", case, detail,
                      group=f"measure-shots/{'save' if save else 'nosave'}/{kind}")

    def run(ch):
        circ = mk_circ(prog, n, None)
        be = get_backend("cirq", n_shots=shots)
        be.cirq = seams.CirqProxy(ch)
        fr, _ = be.simulate(circ, save_mid_circuit_meas=save)
        out = {"fr": {k: float(v) for k, v in fr.items()}}
        if save:
            out["all"] = dict(be.all_frequencies)
            out["mid"] = dict(be.mid_circuit_meas_freqs)
        return out

    induced = {}
    n_exec = 0
    wsum = 0.0
    for choices, trace, infos, out in choicetree.explore(run, max_exec=case.get("max_exec")):
        n_exec += 1
        acc.ev()
        acc.transitions += len(trace)
        w = weight_of(trace, infos)
        wsum += w
        key = tuple(sorted((out["all"] if save else out["fr"]).items()))
        induced[key] = induced.get(key, 0) + w
        if save:
            # marginals of the same joint table
            m2, f2 = {}, {}
            for k, v in out["all"].items():
                m2[k[:nm]] = m2.get(k[:nm], 0) + v
                f2[k[nm:]] = f2.get(k[nm:], 0) + v
            if fdiff(m2, out["mid"]) > 1e-12 or fdiff(f2, out["fr"]) > 1e-12 or any(len(k) != nm + n for k in out["all"]):
                bad("marginals", out)
        else:
            for info, t in zip(infos, trace):
                if t[2] == "sample_density_matrix" and fdiff(info["probs"], {k: v for k, v in fin_ref.items() if v > 1e-12}) > TOL:
                    bad("density-matrix-diagonal-differs-from-unconditioned-distribution", {"handed": info["probs"], "ref": fin_ref})
        if abs(sum(v for _, v in key) - 1) > 1e-12:
            bad("frequencies-not-normalised", out)
    if choicetree.explore.capped:
        acc.caps.append("measure-shots execution cap")
        acc.states += n_exec
        return
    # induced distribution over tables == distribution of `shots` i.i.d. draws from the reference joint distribution
    acc.ev()
    if abs(wsum - 1) > 1e-9:
        bad("recorded-draw-probabilities-do-not-sum-to-one", {"sum": wsum, "executions": n_exec})
    else:
        refd = joint_ref if save else fin_ref
        keys = sorted(refd)
        want = {}
        for seq in itertools.product(keys, repeat=shots):
            tab = {}
            w = 1.0
            for k in seq:
                tab[k] = tab.get(k, 0) + 1.0 / shots
                w *= refd[k]
            kk = tuple(sorted(tab.items()))
            want[kk] = want.get(kk, 0) + w
        d = max([abs(induced.get(k, 0) - want.get(k, 0)) for k in set(induced) | set(want)])
        if d > 1e-9:
            bad("sampled-frequencies-not-distributed-as-branch-probabilities", {"max_diff": d, "induced": {repr(k): v for k, v in list(induced.items())[:6]},
                                                                                 "ref": {repr(k): v for k, v in list(want.items())[:6]}})
    acc.states += n_exec
    if len(joint_ref) > 1:
        acc.nt(("measure-shots", prog, shots, save))
    for k in induced:
        acc.out(k)


def check_measure_shots_dmr(case, acc):
    """MEASURE-only programs, finite shots AND a desired outcome string: the returned frequencies must be the post-selected,
    renormalised marginal of the very table of shots the backend recorded (all_frequencies), and for one shot the executions
    weighted by their recorded draw probabilities must return {final: 1} with the reference joint probability P(b, final)."""
    from tangelo.linq import get_backend
    prog, n, shots, b = case["prog"], case["n"], case["n_shots"], case["dmr"]
    sg = psig(prog, None)
    res, dead = branches(prog, n, None)
    nm = len(b)
    joint_ref = {}
    for br in res:
        for k, v in SV.freqs(br["psi"], n).items():
            if v > 1e-12:
                joint_ref[br["outs"] + k] = joint_ref.get(br["outs"] + k, 0) + br["p"] * v

    def bad(kind, detail):
        acc.violation(f"measure-shots-dmr/{kind}/{sg}", case, detail, group=f"measure-shots-dmr/{kind}")

    def run(ch):
        circ = mk_circ(prog, n, None)
        be = get_backend("cirq", n_shots=shots)
        be.cirq = seams.CirqProxy(ch)
        try:
            fr, _ = be.simulate(circ, desired_meas_result=b)
        except choicetree.HorizonExceeded:
            raise
        except Exception as e:
            return {"raised": type(e).__name__, "all": dict(getattr(be, "all_frequencies", {}) or {})}
        return {"fr": {k: float(v) for k, v in fr.items()}, "all": dict(be.all_frequencies)}

    induced = {}
    wsum = 0.0
    n_exec = 0
    for choices, trace, infos, out in choicetree.explore(run, max_exec=case.get("max_exec"), horizon=40):
        n_exec += 1
        acc.ev()
        acc.transitions += len(trace)
        if out == "HORIZON":
            bad("retry-loop-exceeds-horizon", {"draws": len(trace)})
            break
        w = weight_of(trace, infos)
        wsum += w
        allf = out["all"]
        sel = {k[nm:]: v for k, v in allf.items() if k[:nm] == b}
        tot = sum(sel.values())
        if "fr" in out:
            want = {k: v / tot for k, v in sel.items()} if tot > 0 else {}
            if fdiff(out["fr"], want) > 1e-12 or set(out["fr"]) != set(want):
                bad("frequencies-are-not-the-post-selected-shots", {"returned": out["fr"], "recorded_shots": allf, "desired": b, "expected": want})
            key = tuple(sorted(out["fr"].items()))
        else:
            if tot > 0:
                bad("raises-although-shots-match", {"raised": out["raised"], "recorded_shots": allf})
            key = ("no-matching-shot",)
        induced[key] = induced.get(key, 0) + w
    if choicetree.explore.capped:
        acc.caps.append("measure-shots-dmr execution cap")
    elif shots == 1 and abs(wsum - 1) < 1e-9:
        acc.ev()
        for key, w in induced.items():
            if key and key[0] != "no-matching-shot" and len(key) == 1:
                final = key[0][0]
                if abs(w - joint_ref.get(b + final, 0.0)) > 1e-9:
                    bad("post-selected-sample-not-distributed-as-branch-probability", {"final": final, "induced": w, "ref": joint_ref.get(b + final, 0.0)})
    acc.states += n_exec
    if len(joint_ref) > 1:
        acc.nt(("measure-shots-dmr", prog, shots, b))
    for k in induced:
        acc.out(k)


# ---------------------------------------------------------------------------------------------------------------------

def alphabet(seed):
    base = [G("H", [0]), G("H", [1]), G("X", [0]), G("X", [1]), G("RY", [0], None, 2 * PI / 3), G("RY", [1], None, PI / 3),
            G("CNOT", [1], [0]), G("CRY", [1], [0], 2 * PI / 3)]
    meas = [M(0), M(1)]
    bodies = {"e": [], "x1": [G("X", [1])], "hm": [G("H", [1]), M(1)], "x0": [G("X", [0])],
              "nest": [G("H", [1]), CM(1, {"0": [G("X", [0])], "1": []})],
              # a gate AFTER a nested controlled measurement: the inner body must be applied before it
              "nest_then": [G("H", [1]), CM(1, {"0": [G("X", [1])], "1": []}), G("RY", [1], None, 2 * PI / 3)]}
    cmeas = [CM(0, {"0": bodies["e"], "1": bodies["x1"]}), CM(0, {"0": bodies["hm"], "1": bodies["e"]}),
             CM(1, {"0": bodies["x0"], "1": bodies["nest"]}), CM(0, {"0": bodies["x1"], "1": bodies["x1"]}),
             CM(0, {"0": bodies["nest_then"], "1": bodies["e"]})]
    return base, meas, cmeas


def programs(tier, seed, kind):
    base, meas, cmeas = alphabet(seed)
    L = 4 if tier == "quick" else 5
    out = []
    if kind == "measure":
        al = base + meas
        ismeas = lambda g: g[0] == "MEASURE"
    elif kind == "cmeasure":
        al = base[:1] + base[2:3] + base[4:5] + base[6:7] + cmeas + meas[1:]
        ismeas = lambda g: g[0] in ("MEASURE", "CMEASURE")
    else:
        raise KeyError(kind)
    for l in range(1, L + 1):
        for w in itertools.product(range(len(al)), repeat=l):
            gs = [al[i] for i in w]
            nm = sum(1 for g in gs if ismeas(g))
            if nm == 0 or nm > (2 if kind == "cmeasure" else 3):
                continue
            if kind == "cmeasure" and not any(g[0] == "CMEASURE" for g in gs):
                continue
            # skip words with a leading measurement of |0..0> only when nothing else happens before (still keep some)
            out.append(gs)
    return out


def ctl_programs(seed):
    """function / class controlled programs (the CMEASURE parameter is a string, the control lives on the circuit)."""
    P = []
    for pre in ([G("H", [0])], [G("RY", [0], None, 2 * PI / 3)], [G("H", [0]), G("CNOT", [1], [0])], [G("X", [0])]):
        P.append(("fn_flip", pre + [CM(0, "f")]))
        P.append(("fn_flip", pre + [CM(0, "f"), G("H", [0]), CM(0, "f")]))
        P.append(("fn_meas", pre + [G("H", [1]), CM(1, "f"), G("CNOT", [1], [0])]))
    for pre in ([G("H", [1])], [G("RY", [1], None, PI / 3)], [G("H", [0]), G("CNOT", [1], [0])], [G("H", [1]), G("H", [0]), M(0)]):
        P.append(("rus", pre + [CM(1, "rus")]))
        P.append(("rus", pre + [CM(1, "rus"), G("CNOT", [0], [1])]))
    return P


def bounds(tier, seed):
    return {"L": 4 if tier == "quick" else 5, "n_measure_programs": len(programs(tier, seed, "measure")),
            "n_cmeasure_programs": len(programs(tier, seed, "cmeasure")), "n_control_programs": len(ctl_programs(seed)),
            "grid_K": {"1 shot": "8 (4 / 2 for branches with 4 / 5 measurements)", "2 shots": 2},
            "sampled_stride": {"measure": 5 if tier == "quick" else 1, "cmeasure": 14 if tier == "quick" else 1}}


NSH = 48


def check_wide(case, acc):
    """Wide registers (number of measurement keys = mid-circuit measurements + qubits on both sides of 10): deterministic programs
    X(0) X(2) X(n-1) MEASURE(2) X(1) [MEASURE(n-1)], finite shots; every table and the post-selected expectation value are known."""
    from tangelo.linq import get_backend
    from tangelo.toolboxes.operators import QubitOperator
    n, nm, shots = case["n"], case["n_meas"], case["n_shots"]
    prog = [G("X", [0]), G("X", [2]), G("X", [n - 1]), M(2), G("X", [1])] + ([M(n - 1)] if nm == 2 else [])
    mid = "1" * nm
    final = "".join("1" if q in (0, 1, 2, n - 1) else "0" for q in range(n))
    op = QubitOperator(f"Z{n - 1}", 1.0) + QubitOperator("Z1 Z5", 0.5) + QubitOperator(f"Z3 Z{n - 2}", 0.25)
    ref_val = -1.0 + 0.5 * (-1.0) + 0.25

    def bad(kind, detail):
        acc.violation(f"wide/{kind}/n{n}+m{nm}", case, detail, group=f"wide/{kind}")

    def run(ch):
        circ = mk_circ(prog, n, None)
        be = get_backend("cirq", n_shots=shots)
        be.cirq = seams.CirqProxy(ch)
        fr, _ = be.simulate(circ, save_mid_circuit_meas=True)
        out = {"fr": {k: float(v) for k, v in fr.items()}, "all": dict(be.all_frequencies), "mid": dict(be.mid_circuit_meas_freqs)}
        be2 = get_backend("cirq", n_shots=shots)
        be2.cirq = seams.CirqProxy(ch)
        out["exp"] = complex(be2.get_expectation_value(op, mk_circ(prog, n, None), desired_meas_result=mid))
        return out

    n_exec = 0
    try:
        for choices, trace, infos, out in choicetree.explore(run, max_exec=64):
            n_exec += 1
            acc.ev()
            acc.transitions += len(trace)
            if out["fr"] != {final: 1.0} or out["all"] != {mid + final: 1.0} or out["mid"] != {mid: 1.0}:
                bad("tables", {"frequencies": out["fr"], "all_frequencies": out["all"], "mid": out["mid"],
                               "expected": {"frequencies": {final: 1.0}, "all_frequencies": {mid + final: 1.0}}})
                break
            if abs(out["exp"] - ref_val) > 1e-9:
                bad("post-selected-expectation-value", {"got": out["exp"], "ref": ref_val})
                break
            acc.out(("wide", n, nm))
    except Exception as e:
        if isinstance(e, (seams.UnownedRandomness, choicetree.ReplayDivergence)):
            raise
        bad("exception", {"err": repr(e)[:300]})
    acc.states += max(1, n_exec)
    acc.nt(("wide", n, nm, shots))


def shards(tier, seed):
    sh = []
    for n in (9, 10, 11, 12):
        sh.append({"kind": "wide", "n": n, "seed": seed, "tier": tier})
    for kind in ("measure", "cmeasure"):
        for i in range(NSH):
            sh.append({"kind": "exact", "pk": kind, "part": i, "seed": seed, "tier": tier})
    sh.append({"kind": "exact_ctl", "seed": seed, "tier": tier})
    for i in range(NSH):
        sh.append({"kind": "mshots", "part": i, "seed": seed, "tier": tier})
        sh.append({"kind": "cshots", "part": i, "seed": seed, "tier": tier})
    sh.append({"kind": "cshots_ctl", "seed": seed, "tier": tier})
    return sh


def run_shard(sh):
    acc = Acc()
    seed, tier, k = sh["seed"], sh["tier"], sh["kind"]
    if k == "wide":
        for nm in (1, 2):
            for shots in (1, 2):
                check_wide({"kind": "wide", "n": sh["n"], "n_meas": nm, "n_shots": shots}, acc)
        acc.sample({"kind": "wide", "n": sh["n"], "n_meas": 1, "n_shots": 2}, cap=1)
    elif k == "exact":
        progs = programs(tier, seed, sh["pk"])
        for i, prog in enumerate(progs):
            if i % NSH != sh["part"]:
                continue
            shared = {}          # the same Circuit / backend objects serve both initial states of this program
            for init in (None, "dense"):
                if init == "dense" and (i // NSH) % 3:
                    continue
                acc.states += 1
                acc.transitions += len(prog)
                check_exact({"kind": "exact", "prog": prog, "n": 2, "init": init, "shared_object_history": init == "dense"}, acc,
                            shared=shared)
        if sh["part"] == 0:
            acc.sample({"kind": "exact", "prog": progs[len(progs) // 2], "n": 2}, cap=1)
    elif k == "exact_ctl":
        for ctl, prog in ctl_programs(seed):
            for init in (None, "dense"):
                acc.states += 1
                check_exact({"kind": "exact", "prog": prog, "n": 2, "ctl": ctl, "init": init}, acc)
        # three-qubit programs with gaps / idle qubit
        for prog in ([G("H", [2]), M(2), G("CNOT", [0], [2])], [G("RY", [2], None, PI / 3), CM(2, {"0": [G("X", [0])], "1": [G("H", [0]), M(0)]})]):
            acc.states += 1
            check_exact({"kind": "exact", "prog": prog, "n": 3, "init": None}, acc)
            check_exact({"kind": "exact", "prog": prog, "n": 3, "init": "dense"}, acc)
    elif k == "mshots":
        progs = programs("quick" if tier == "quick" else "quick", seed, "measure")
        stride = 5 if tier == "quick" else 1
        for i, prog in enumerate(progs):
            if i % NSH != sh["part"] or (i // NSH) % stride:
                continue
            for save in (False, True):
                for shots in (1, 2):
                    if shots == 2 and (len(prog) > 3 or save):
                        continue
                    acc.states += 1
                    check_measure_shots({"kind": "mshots", "prog": prog, "n": 2, "n_shots": shots, "save": save, "max_exec": 5000}, acc)
            # desired outcome string together with finite shots (every string, 1 and 2 shots)
            nm_ = sum(1 for g in prog if g[0] == "MEASURE")
            if len(prog) <= 3 or tier == "thorough":
                for bits in itertools.product("01", repeat=nm_):
                    for shots in (1, 2):
                        if shots == 2 and nm_ > 2:
                            continue
                        acc.states += 1
                        check_measure_shots_dmr({"kind": "mshots_dmr", "prog": prog, "n": 2, "n_shots": shots, "dmr": "".join(bits),
                                                 "max_exec": 5000}, acc)
        if sh["part"] == 0:
            acc.sample({"kind": "mshots", "prog": progs[37], "n": 2, "n_shots": 1, "save": True}, cap=1)
    elif k == "cshots":
        progs = programs("quick", seed, "cmeasure")
        stride = 14 if tier == "quick" else 1
        for i, prog in enumerate(progs):
            if i % NSH != sh["part"] or (i // NSH) % stride:
                continue
            acc.states += 1
            m = max(len(br["outs"]) for br in branches(prog, 2, None)[0])
            K1 = 8 if m <= 3 else (4 if m == 4 else 2)   # keeps every tree below ~2k executions: no cap is ever hit
            check_cmeasure_shots({"kind": "cshots", "prog": prog, "n": 2, "n_shots": 1, "K": K1, "max_exec": 20000}, acc)
            if len(prog) <= 3 and m <= 3:
                check_cmeasure_shots({"kind": "cshots", "prog": prog, "n": 2, "n_shots": 2, "K": 2, "max_exec": 20000}, acc)
            # a requested outcome string together with finite shots: every branch of the program, 1 and 2 shots
            for brx in branches(prog, 2, None)[0]:
                for shots in (1, 2):
                    check_cmeasure_shots_dmr({"kind": "cshots_dmr", "prog": prog, "n": 2, "n_shots": shots, "dmr": brx["outs"]}, acc)
        if sh["part"] == 0:
            acc.sample({"kind": "cshots", "prog": progs[11], "n": 2, "n_shots": 1, "K": 8}, cap=1)
    if k in ("mshots", "cshots") and tier == "quick" and sh["part"] == 0:
        acc.caps.append("quick tier: sampled modes explore every 5th (MEASURE) / 14th (CMEASURE) program of the length<=4 list; "
                        "exact mode covers all of them; the thorough tier explores every program in sampled mode too")
    if k == "cshots_ctl":
        for ctl, prog in ctl_programs(seed):
            acc.states += 1
            check_cmeasure_shots({"kind": "cshots", "prog": prog, "n": 2, "ctl": ctl, "n_shots": 1, "K": 8, "max_exec": 6000}, acc)
            check_cmeasure_shots({"kind": "cshots", "prog": prog, "n": 2, "ctl": ctl, "n_shots": 2, "K": 2, "max_exec": 6000}, acc)
    return acc


def replay_case(case):
    acc = Acc()
    k = case.get("kind")
    if k == "exact":
        if case.get("shared_object_history"):
            # replay the history: the same objects were first used from |0..0>
            shared = {}
            check_exact(dict(case, init=None, shared_object_history=False), Acc(), shared=shared)
            check_exact(case, acc, shared=shared)
        else:
            check_exact(case, acc)
    elif k == "mshots":
        check_measure_shots(case, acc)
    elif k == "cshots":
        check_cmeasure_shots(case, acc)
    elif k == "mshots_dmr":
        check_measure_shots_dmr(case, acc)
    elif k == "cshots_dmr":
        check_cmeasure_shots_dmr(case, acc)
    elif k == "wide":
        check_wide(case, acc)
    return acc


def selftest():
    SV.selftest()
    res, dead = branches([G("H", [0]), M(0), G("CNOT", [1], [0])], 2, None)
    assert sorted(b["outs"] for b in res) == ["0", "1"] and abs(res[0]["p"] - 0.5) < 1e-12
    res, dead = branches([G("X", [0]), M(0)], 2, None)
    assert [b["outs"] for b in res] == ["1"] and dead == ["0"]


if __name__ == "__main__":
    import sys
    runner.main(sys.modules[__name__])
