"""C03 - Fermion-to-qubit encodings are faithful representations.

E1 (bounded-exhaustive inputs): for every (encoding, register size, ordering, electron sector) inside the bounds
  * CAR      : all ordered pairs of the 2n ladder operators, anticommutators computed with mc.ref.pauli on the returned
               terms (full-space encodings JW, BK, JKMN);
  * HOM      : all ordered pairs (A,B) of a monomial set: map(cA*A * cB*B) = cA*cB*map(A)*map(B),
               map(cA*A + cB*B) = cA*map(A) + cB*map(B), and map((c*A)^) = (c*map(A))^ per monomial
               (full-space: any monomials; scBK: parity-conserving monomials);
  * SPEC     : every Hermitianised one-/two-body monomial and every Hamiltonian on <= 3 generators with coefficients in
               {-1, g}: eigenvalues of the returned qubit operator == eigenvalues of the reference Fock matrix
               (mc.ref.fermion) restricted to the represented space (full space / scBK parity sector / seniority-zero
               space (projected operator) / combinatorial (n_alpha, n_beta) sector);
  * LIN      : HCB and combinatorial are linear on their (Hermitian, conserving) domain.
The real code is always entered through fermion_to_qubit_mapping(...) / combinatorial(...).
"""
import itertools
import math
import re
import warnings

import numpy as np

from mc import runner
from mc.runner import Acc
from mc.ref import fermion as F
from mc.ref import pauli as P

PID = "C03"
DESIGN_REF = "DESIGN.md section 2 / C03"
ENGINE = "seqspace (bounded-exhaustive operator inputs x encoding x register size x ordering x electron sector)"
RULE = ("cases = every (check, encoding, n, up_then_down[, n_alpha, n_beta], input operator(s)) inside the bounds: CAR over "
        "all ordered pairs of ladder operators; product/sum over all ordered pairs of the monomial set and adjoint per "
        "monomial; spectrum for every Hermitianised monomial and every <=3-generator Hamiltonian with coefficients in "
        "{-1,g}; linearity for HCB/combinatorial. Non-trivial: CAR pair whose two images share a qubit; product whose "
        "image is a non-zero operator; sum/adjoint of non-constant monomials; spectrum case with >= 2 distinct reference "
        "eigenvalues on the represented space; distinct = distinct (check, configuration, operators)")
ASSUMPTIONS = [
    "register sizes, monomial sets and generator sets are those listed in coverage.bounds; larger registers, operators "
    "of body rank > 2 (other than products of two monomials) and coefficients other than {-1, g, g*(1+0.5i)} are not explored",
    "g = 0.5 + (VERIF_SEED mod 997)*1e-3 is the only seed-dependent value",
    "Pauli coefficients compared at 1e-9, eigenvalues at 1e-9 (combinatorial: 1e-5*max(1,|H|_1), the matrix is complex64)",
    "HCB domain = spin-free molecular Hamiltonians written in the canonical a^a / a^a^aa spin-orbital form produced from "
    "one- and two-body integral tensors (the form hard_core_boson_operator reads); other term orders of the same "
    "operator are outside the documented input format and are not checked",
    "combinatorial: represented space = basis states whose integer (qubit 0 = least significant bit, the convention of "
    "int_to_tuple/recursive_mapping) is below the number of configurations; nothing is demanded of the padding block "
    "other than not coupling to the represented space",
    "scBK: represented space = kets with N mod 2 and n_alpha mod 2 equal to those of the requested (n_electrons, spin); "
    "input alphabet = number-conserving operators changing n_alpha by an even amount (operators changing N by 2 are "
    "left out: the property's 'parity-conserving' and check_operator's documented 'spin expectation value parity' "
    "disagree on them)",
]
TOL = 1e-9
TOL_COMB = 1e-5
FULL = ("JW", "BK", "JKMN")


# ---------------------------------------------------------------------------------------------------------------------
# JSON <-> symbolic operators

def op_to_json(op):
    return [[[list(f) for f in t], complex(c).real, complex(c).imag] for t, c in op.items()]


def op_from_json(j):
    out = {}
    for t, re_, im in j:
        out[tuple((int(p), int(a)) for p, a in t)] = complex(re_, im)
    return out


def slug(s, n=48):
    return re.sub(r"[^A-Za-z0-9]+", "-", str(s)).strip("-")[:n]


# ---------------------------------------------------------------------------------------------------------------------
# real code

def mk_fop(op):
    from tangelo.toolboxes.operators import FermionOperator
    out = FermionOperator()
    for t, c in op.items():
        c = complex(c)
        out += FermionOperator(tuple(t), c.real if c.imag == 0 else c)
    return out


def width(cfg):
    m = cfg["mapping"].upper()
    if m == "SCBK":
        return cfg["n"] - 2
    if m == "HCB":
        return cfg["n"] // 2
    if m == "COMB":
        dim = math.comb(cfg["n"] // 2, cfg["na"]) * math.comb(cfg["n"] // 2, cfg["nb"])
        return max(0, math.ceil(math.log2(dim)))
    return cfg["n"]


def cfg_sig(cfg):
    s = f"{cfg['mapping']},n={cfg['n']},utd={cfg.get('utd', False)}"
    if "na" in cfg:
        s += f",na={cfg['na']},nb={cfg['nb']}"
    if cfg.get("int_ne"):
        s += ",int_ne"
    return s


def cfg_grp(cfg):
    return f"{cfg['mapping']},utd={cfg.get('utd', False)}"


def site(cfg):
    return "combinatorial" if cfg["mapping"] == "COMB" else "fermion_to_qubit_mapping"


def encode(cfg, op, fop=None, spelling=None):
    """Call the real code; returns a mc.ref.pauli operator. Exceptions propagate. spelling: 'lower' / 'upper' / 'capitalize' writes
    the (case-insensitive) mapping name differently."""
    fop = mk_fop(op) if fop is None else fop
    with warnings.catch_warnings():
        warnings.simplefilter("ignore")
        if cfg["mapping"] == "COMB":
            from tangelo.toolboxes.qubit_mappings import combinatorial
            ne = (cfg["na"], cfg["nb"])
            if cfg.get("int_ne"):
                ne = cfg["na"] + cfg["nb"]
            q = combinatorial(fop, cfg["n"] // 2, ne)
        else:
            from tangelo.toolboxes.qubit_mappings.mapping_transform import fermion_to_qubit_mapping
            kw = dict(mapping=(getattr(cfg["mapping"], spelling)() if spelling else cfg["mapping"]), n_spinorbitals=cfg["n"],
                      up_then_down=cfg["utd"])
            if cfg["mapping"].upper() == "SCBK":
                kw.update(n_electrons=cfg["na"] + cfg["nb"], spin=cfg["na"] - cfg["nb"])
            q = fermion_to_qubit_mapping(fop, **kw)
    return P.from_terms(q.terms)


class Ctx:
    def __init__(self, acc, cfg):
        self.acc, self.cfg = acc, cfg
        self.cache = {}
        self.W = width(cfg)

    def bad(self, kind, case, detail, sub=""):
        s = site(self.cfg)
        # exceptions are grouped by type+message only (one shared code path, e.g. the re-ordering, serves all encodings)
        group = f"{s}/{kind}" if kind.startswith("exception/") else f"{s}/{kind}/{cfg_grp(self.cfg)}"
        self.acc.violation(f"{s}/{kind}/{cfg_sig(self.cfg)}{sub}", dict(case, cfg=self.cfg), detail, group=group)

    def enc(self, op, case, cache_key=None):
        """Encoded operator or None (after recording a violation) when the real code raises on an in-domain input."""
        if cache_key is not None and cache_key in self.cache:
            return self.cache[cache_key]
        try:
            fop = mk_fop(op)
            before = dict(fop.terms)
            E = encode(self.cfg, op, fop)
            # history: the operand must be left unchanged and mapping the SAME object again must give the same image
            # (caches / in-place scaling inside the mapping would show here)
            self.acc.ev()
            if dict(fop.terms) != before:
                self.bad("operand-mutated", dict(case, failing_input=op_to_json(op)), {"input": F.op_to_str(op)})
            else:
                E2 = encode(self.cfg, op, fop)
                # third mapping of the same object, with the mapping name written in another case (the name is case-insensitive)
                sp = ("lower", "upper", "capitalize")[len(self.cache) % 3]
                E3 = encode(self.cfg, op, fop, spelling=sp)
                if P.max_abs_diff(E, E2) <= 1e-12 and P.max_abs_diff(E, E3) > 1e-12 and self.cfg["mapping"] != "COMB":
                    self.bad("mapping-name-spelling-changes-the-image", dict(case, failing_input=op_to_json(op)),
                             {"input": F.op_to_str(op), "spelling": getattr(self.cfg["mapping"], sp)(), "canonical": P.to_str(E)[:200],
                              "other_spelling": P.to_str(E3)[:200]})
                elif P.max_abs_diff(E, E2) > 1e-12 or P.max_abs_diff(E, E3) > 1e-12:
                    self.bad("second-mapping-of-same-object-differs", dict(case, failing_input=op_to_json(op)),
                             {"input": F.op_to_str(op), "first": P.to_str(E)[:200], "second": P.to_str(E2)[:200], "third": P.to_str(E3)[:200]})
        except Exception as e:  # in-domain input: must not raise
            kind = f"exception/{type(e).__name__}:{slug(e)}"
            self.bad(kind, dict(case, failing_input=op_to_json(op)), {"err": repr(e)[:300], "input": F.op_to_str(op)})
            self.acc.count("exceptions")
            E = None
        else:
            outside = sorted(q for q in P.support(E) if q >= self.W)
            if outside:
                self.bad("acts-outside-register", dict(case, failing_input=op_to_json(op)),
                         {"qubits": outside, "width": self.W, "image": P.to_str(E)[:300]})
                E = None
        if cache_key is not None:
            self.cache[cache_key] = E
        return E


_TM = {}


def fock_matrix(n, op):
    M = np.zeros((2 ** n, 2 ** n), dtype=complex)
    for t, c in op.items():
        k = (n, t)
        m = _TM.get(k)
        if m is None:
            if len(_TM) > 20000:
                _TM.clear()
            m = _TM[k] = F.term_matrix(n, t)
        M += c * m
    return M


# ---------------------------------------------------------------------------------------------------------------------
# input alphabets (symbolic operators in the interleaved input convention: mode 2i = alpha_i, 2i+1 = beta_i)

def gval(seed):
    return round(0.5 + runner.seed_delta(seed), 6)


def lad(p, a):
    return ((p, a),)


def monomials_full(n, tier):
    """Monomial set of the homomorphism check for full-space encodings."""
    ms = [()]
    ms += [lad(p, 0) for p in range(n)] + [lad(p, 1) for p in range(n)]
    ms += [((p, 1), (q, 0)) for p in range(n) for q in range(n)]
    if tier == "thorough":
        ms += [((p, 0), (q, 0)) for p in range(n) for q in range(p + 1, n)]
        ms += [((p, 1), (q, 1)) for p in range(n) for q in range(p + 1, n)]
        if n <= 4:
            prs = [(p, q) for p in range(n) for q in range(p + 1, n)]
            ms += [((p, 1), (q, 1), (r, 0), (s, 0)) for (p, q) in prs for (r, s) in prs]
    return ms


def spin_of(p):
    return p % 2


def monomials_scbk(n, tier):
    """Number-conserving monomials that change n_alpha by an even amount (the operators both readings of "parity
    conserving" agree on: see ASSUMPTIONS)."""
    ms = [()]
    ms += [((p, 1), (q, 0)) for p in range(n) for q in range(n) if spin_of(p) == spin_of(q)]
    al, be = list(range(0, n, 2)), list(range(1, n, 2))
    # alpha-alpha <-> beta-beta double spin flip (changes n_alpha by 2: parity conserved) and an opposite-spin exchange
    ms += [((al[0], 1), (al[1], 1), (be[1], 0), (be[0], 0)), ((be[0], 1), (be[1], 1), (al[1], 0), (al[0], 0)),
           ((al[0], 1), (be[1], 1), (be[0], 0), (al[1], 0))]
    if tier == "thorough":
        ms += [((p, 0), (q, 1)) for p in range(n) for q in range(n) if spin_of(p) == spin_of(q) and p != q]
        ms += [((p, 1), (q, 1), (q, 0), (p, 0)) for p in al for q in be]
    return ms


def herm(t, phase=1.0):
    """phase*t + h.c. as a symbolic operator (a self-adjoint term just gets coefficient 2*Re(phase))."""
    A = {tuple(t): complex(phase)}
    return F.op_add(A, F.op_adjoint(A))


def hermitian_generators(n, tier, domain):
    """List of (label, op). domain: 'full' (anything), 'scbk' (parity conserving), 'sz' (n_alpha and n_beta conserving)."""
    gens = [("const", {(): 1.0})]
    prs = [(p, q) for p in range(n) for q in range(p + 1, n)]
    if domain == "full":
        for p in range(n):
            gens.append((f"maj{p}", herm(lad(p, 0))))
            gens.append((f"majI{p}", herm(lad(p, 0), 1j)))
    for p in range(n):
        gens.append((f"n{p}", {((p, 1), (p, 0)): 1.0}))
    for p, q in prs:
        if domain == "full" or spin_of(p) == spin_of(q):
            gens.append((f"hop{p}_{q}", herm(((p, 1), (q, 0)))))
            gens.append((f"hopI{p}_{q}", herm(((p, 1), (q, 0)), 1j)))
    for p, q in prs:
        if domain == "full":
            gens.append((f"pair{p}_{q}", herm(((p, 1), (q, 1)))))
    for i, (p, q) in enumerate(prs):
        for (r, s) in prs[i:]:
            dna = (1 - spin_of(p)) + (1 - spin_of(q)) - (1 - spin_of(r)) - (1 - spin_of(s))
            if domain == "scbk" and dna % 2:
                continue
            if domain == "sz" and (dna != 0):
                continue
            t = ((p, 1), (q, 1), (s, 0), (r, 0))
            if (p, q) == (r, s):
                gens.append((f"nn{p}_{q}", {t: 1.0}))
            else:
                gens.append((f"tb{p}_{q}_{r}_{s}", herm(t)))
                if tier == "thorough":
                    gens.append((f"tbI{p}_{q}_{r}_{s}", herm(t, 1j)))
    return gens


def small_generators(n, domain):
    """<= 8 generators used for the exhaustive <=3-generator Hamiltonians; includes the constant, operators that do not
    touch the highest index and operators that do."""
    h = n - 1
    if domain == "full":
        g = [("const", {(): 1.0}), ("n0", {((0, 1), (0, 0)): 1.0}), ("hop0_1", herm(((0, 1), (1, 0)))),
             (f"hopI0_{h}", herm(((0, 1), (h, 0)), 1j)), ("pair0_1", herm(((0, 1), (1, 1)))),
             ("maj1", herm(lad(1, 0))), ("nn0_1", {((0, 1), (1, 1), (1, 0), (0, 0)): 1.0})]
        if n >= 4:
            g.append((f"tb0_1_{h - 1}_{h}", herm(((0, 1), (1, 1), (h, 0), (h - 1, 0)))))
        elif n == 3:
            g.append(("tb0_1_1_2", herm(((0, 1), (1, 1), (2, 0), (1, 0)))))
        return g
    # spin-resolved domains: n even, interleaved labels; last alpha = n-2, last beta = n-1
    la, lb = n - 2, n - 1
    g = [("const", {(): 1.0}), ("n0", {((0, 1), (0, 0)): 1.0}), ("hop0_2", herm(((0, 1), (2, 0)))),
         (f"hopI1_{lb}", herm(((1, 1), (lb, 0)), 1j)), ("nn0_1", {((0, 1), (1, 1), (1, 0), (0, 0)): 1.0}),
         ("xch", herm(((0, 1), (3, 1), (1, 0), (2, 0)))),           # a0a^ a1b^ a0b a1a : spin exchange between orbitals 0,1
         ("phop", herm(((0, 1), (1, 1), (lb, 0), (la, 0))))]         # pair hopping 0 <- last
    g.append((f"hop1_{lb}", herm(((1, 1), (lb, 0)))))
    if domain == "scbk":
        g.append(("aabb", herm(((0, 1), (2, 1), (3, 0), (1, 0)))))    # alpha-alpha <- beta-beta
    return g


def hamiltonians(gens, coeffs, kmax=3):
    """All Hamiltonians sum_i c_i G_i on 1..kmax distinct generators, c_i in coeffs. Yields (label, op)."""
    for k in range(1, kmax + 1):
        for sub in itertools.combinations(range(len(gens)), k):
            for cs in itertools.product(coeffs, repeat=k):
                H = {}
                for i, c in zip(sub, cs):
                    H = F.op_add(H, gens[i][1], 1.0, c)
                yield "+".join(f"{c:g}*{gens[i][0]}" for i, c in zip(sub, cs)), H


# ---- HCB: spin-free molecular Hamiltonians from integral tensors ------------------------------------------------------

def molecular_op(nsp, const, h, g):
    """c + sum_pq h[p,q] sum_s a_ps^ a_qs + 1/2 sum_pqrs g[p,q,r,s] sum_st a_ps^ a_qt^ a_rt a_ss  (openfermion index
    order), written as canonical a^a / a^a^aa terms in the interleaved layout. Identically-zero terms (p==q with s==t,
    r==s with s==t) are omitted."""
    op = {}
    if const:
        op[()] = complex(const)
    for p in range(nsp):
        for q in range(nsp):
            if h[p, q] != 0:
                for s in (0, 1):
                    op[((2 * p + s, 1), (2 * q + s, 0))] = complex(h[p, q])
    for p, q, r, s_ in itertools.product(range(nsp), repeat=4):
        if g[p, q, r, s_] != 0:
            for s in (0, 1):
                for t in (0, 1):
                    P_, Q_, R_, S_ = 2 * p + s, 2 * q + t, 2 * r + t, 2 * s_ + s
                    if P_ == Q_ or R_ == S_:
                        continue
                    op[((P_, 1), (Q_, 1), (R_, 0), (S_, 0))] = complex(0.5 * g[p, q, r, s_])
    return op


def hcb_generators(nsp):
    """(label, const, h, g): constant, one-body classes h_pq=h_qp, two-body classes with the 8-fold symmetry of real
    integrals (pq|rs) [openfermion index order g[p,q,r,s] = (ps|qr)], plus complex-Hermitian members."""
    z1 = lambda: np.zeros((nsp, nsp), dtype=complex)
    z2 = lambda: np.zeros((nsp,) * 4, dtype=complex)
    gens = [("const", 1.0, z1(), z2())]
    for p in range(nsp):
        for q in range(p, nsp):
            h = z1()
            h[p, q] = h[q, p] = 1
            gens.append((f"h{p}{q}", 0.0, h, z2()))
    h = z1()
    h[0, 1], h[1, 0] = 1j, -1j
    gens.append(("hI01", 0.0, h, z2()))
    pairs = [(i, j) for i in range(nsp) for j in range(i, nsp)]
    for a, (i, j) in enumerate(pairs):
        for (k, l) in pairs[a:]:
            g = z2()
            for (e1, e2) in (((i, j), (k, l)), ((k, l), (i, j))):
                for (x, y) in (e1, e1[::-1]):
                    for (u, v) in (e2, e2[::-1]):
                        g[x, u, v, y] = 1       # (xy|uv) -> g[p=x, q=u, r=v, s=y]
            gens.append((f"g({i}{j}|{k}{l})", 0.0, z1(), g))
    # real two-body classes with only the 4-fold symmetry of a Hermitian spin-free operator (complex orbitals / general
    # effective Hamiltonians): g[pqrs] = g[qpsr] = g[srqp] = g[rspq], NOT symmetric under p<->s or q<->r alone.
    seen = set()
    for t in itertools.product(range(nsp), repeat=4):
        p_, q_, r_, s_ = t
        orbit = frozenset([(p_, q_, r_, s_), (q_, p_, s_, r_), (s_, r_, q_, p_), (r_, s_, p_, q_)])
        if orbit in seen:
            continue
        seen.add(orbit)
        eight = orbit | frozenset([(s_, q_, r_, p_), (p_, r_, q_, s_), (q_, s_, p_, r_), (r_, p_, s_, q_)])
        if eight == orbit:
            continue      # already 8-fold symmetric: covered above
        g = z2()
        for idx in orbit:
            g[idx] = 1
        gens.append((f"g4[{p_}{q_}{r_}{s_}]", 0.0, z1(), g))
    # complex-Hermitian pair hopping: (01|01) = i, (10|10) = -i
    g = z2()
    g[0, 0, 1, 1], g[1, 1, 0, 0] = 1j, -1j
    gens.append(("gI(01|01)", 0.0, z1(), g))
    return [(lab, molecular_op(nsp, c, h, g)) for lab, c, h, g in gens]


# ---------------------------------------------------------------------------------------------------------------------
# checks

def run_car(cx, la, lb):
    acc, cfg = cx.acc, cx.cfg
    case = {"kind": "car", "a": list(la), "b": list(lb)}
    Ea = cx.enc({(tuple(la),): 1.0}, case, ("lad", tuple(la)))
    Eb = cx.enc({(tuple(lb),): 1.0}, case, ("lad", tuple(lb)))
    if Ea is None or Eb is None:
        return
    acc.ev()
    acc.transitions += 1
    ac = P.anticommutator(Ea, Eb)
    exp = P.identity() if (la[0] == lb[0] and la[1] != lb[1]) else {}
    d = P.max_abs_diff(ac, exp)
    if P.support(Ea) & P.support(Eb) and tuple(la) != tuple(lb):
        acc.nt(("car", cfg_sig(cfg), tuple(la), tuple(lb)))
    acc.out(("car", len(P.clean(ac))))
    if d > TOL:
        cx.bad("CAR-violated", case, {"anticommutator": P.to_str(ac)[:300], "expected": P.to_str(exp), "diff": d,
                                      "image_a": P.to_str(Ea)[:200], "image_b": P.to_str(Eb)[:200]})
    if la[0] == lb[0] and la[1] != lb[1] and la[1] == 0:
        # adjoint pair: map(a_p^) = map(a_p)^
        acc.ev()
        if not P.equal(P.adjoint(Ea), Eb, TOL):
            cx.bad("adjoint-not-preserved", case, {"image_a": P.to_str(Ea)[:200], "image_a_dag": P.to_str(Eb)[:200]})


def run_hom(cx, tA, tB, g):
    """Product and sum for the ordered pair of unit monomials (tA, tB)."""
    acc, cfg = cx.acc, cx.cfg
    tA, tB = tuple(map(tuple, tA)), tuple(map(tuple, tB))
    case = {"kind": "hom", "A": [list(f) for f in tA], "B": [list(f) for f in tB], "g": g}
    cA, cB = g, -1.0
    EA = cx.enc({tA: 1.0}, case, ("mono", tA))
    EB = cx.enc({tB: 1.0}, case, ("mono", tB))
    if EA is None or EB is None:
        return
    # product
    prod_in = F.op_mul({tA: cA}, {tB: cB})
    EP = cx.enc(prod_in, case)
    acc.transitions += 1
    if EP is not None:
        acc.ev()
        ref = P.scale(P.mul(EA, EB), cA * cB)
        d = P.max_abs_diff(EP, ref)
        if P.clean(ref, TOL):
            acc.nt(("prod", cfg_sig(cfg), tA, tB))
        acc.out(("prod", len(P.clean(ref, TOL))))
        if d > TOL:
            cx.bad("product-not-preserved", case, {"input": F.op_to_str(prod_in), "image": P.to_str(EP)[:300],
                                                   "product_of_images": P.to_str(ref)[:300], "diff": d})
    # sum
    if tA != tB:
        sum_in = F.op_add({tA: cA}, {tB: cB})
        ES = cx.enc(sum_in, case)
        acc.transitions += 1
        if ES is not None:
            acc.ev()
            ref = P.add(EA, EB, cA, cB)
            d = P.max_abs_diff(ES, ref)
            if tA and tB:
                acc.nt(("sum", cfg_sig(cfg), tA, tB))
            if d > TOL:
                cx.bad("sum-not-preserved", case, {"input": F.op_to_str(sum_in), "image": P.to_str(ES)[:300],
                                                   "sum_of_images": P.to_str(ref)[:300], "diff": d})


def run_adj(cx, tA, g):
    acc, cfg = cx.acc, cx.cfg
    tA = tuple(map(tuple, tA))
    case = {"kind": "adj", "A": [list(f) for f in tA], "g": g}
    c = g * (1 + 0.5j)
    EA = cx.enc({tA: 1.0}, case, ("mono", tA))
    if EA is None:
        return
    adj_in = F.op_adjoint({tA: c})
    EAd = cx.enc(adj_in, case)
    acc.transitions += 1
    if EAd is None:
        return
    acc.ev()
    ref = P.adjoint(P.scale(EA, c))
    d = P.max_abs_diff(EAd, ref)
    if tA:
        acc.nt(("adj", cfg_sig(cfg), tA))
    if d > TOL:
        cx.bad("adjoint-not-preserved", case, {"input": F.op_to_str(adj_in), "image": P.to_str(EAd)[:300],
                                               "adjoint_of_image": P.to_str(ref)[:300], "diff": d})


def represented_indices(cfg):
    n = cfg["n"]
    m = cfg["mapping"].upper()
    if m == "SCBK":
        return F.sector_indices(n, False, parity_elec=(cfg["na"] + cfg["nb"]) % 2, parity_alpha=cfg["na"] % 2)
    if m == "HCB":
        return F.sector_indices(n, False, seniority=0)
    if m == "COMB":
        return F.sector_indices(n, False, n_alpha=cfg["na"], n_beta=cfg["nb"])
    return list(range(2 ** n))


def run_spec(cx, label, H, sample=False):
    """Spectrum of the image of the Hermitian operator H on the represented space."""
    acc, cfg = cx.acc, cx.cfg
    case = {"kind": "spec", "label": label, "H": op_to_json(H)}
    m = cfg["mapping"].upper()
    n = cfg["n"]
    E = cx.enc(H, case)
    acc.transitions += 1
    if E is None:
        return
    acc.ev()
    idx = represented_indices(cfg)
    Mf = fock_matrix(n, H)
    if m != "HCB" and F.leaks(Mf, idx) > 1e-12:
        raise AssertionError(f"harness alphabet error: {label} leaves the represented space of {cfg}")
    ev_ref = F.eigvals_hermitian(F.restrict(Mf, idx))
    scale = max(1.0, sum(abs(c) for c in H.values()))
    tol = TOL_COMB * scale if m == "COMB" else TOL
    herm_dev = max([abs(complex(c).imag) for c in E.values()] + [0.0])
    if herm_dev > tol:
        cx.bad("non-hermitian-image", case, {"input": F.op_to_str(H), "image": P.to_str(E)[:300], "max_imag": herm_dev})
        return
    E = {w: complex(c).real for w, c in E.items()}
    if m == "COMB":
        Mq = P.matrix(E, cx.W, order="q0_lsb")
        rep = list(range(len(idx)))
        lk = F.leaks(Mq, rep)
        if lk > tol:
            cx.bad("represented-space-not-invariant", case, {"input": F.op_to_str(H), "image": P.to_str(E)[:300],
                                                             "coupling": lk, "dim": len(idx)})
            return
        ev_q = F.eigvals_hermitian(F.restrict(Mq, rep), tol=1e-6)
    else:
        ev_q = F.eigvals_hermitian(P.matrix(E, cx.W))
    d = F.spectrum_distance(ev_q, ev_ref)
    distinct = len(set(np.round(ev_ref, 7)))
    if distinct >= 2:
        acc.nt(("spec", cfg_sig(cfg), label))
    acc.out(("spec", tuple(np.round(ev_ref, 6))))
    if sample:
        def mult(ev):
            vals = [round(float(x), 7) + 0.0 for x in ev]
            return ", ".join(f"{v:g} (x{vals.count(v)})" for v in sorted(set(vals)))
        acc.sample({"check": "spectrum on the represented space", "cfg": cfg_sig(cfg), "operator": F.op_to_str(H),
                    "image": P.to_str(E)[:500], "dim_represented": len(idx), "eigenvalues_reference": mult(ev_ref),
                    "eigenvalues_image": mult(ev_q)}, cap=1)
    if not d <= tol:
        sub = "/constant-only" if set(H) <= {()} else ""
        cx.bad("spectrum-mismatch", case, {"input": F.op_to_str(H)[:300], "image": P.to_str(E)[:300], "distance": d,
                                           "eigenvalues_reference": [round(float(x), 7) for x in ev_ref][:16],
                                           "eigenvalues_image": [round(float(x), 7) for x in ev_q][:16]}, sub=sub)


def run_lin(cx, labA, A, labB, B, g):
    """map(g*A - B) = g*map(A) - map(B) (HCB, combinatorial: Hermitian generators, real coefficients)."""
    acc, cfg = cx.acc, cx.cfg
    case = {"kind": "lin", "labels": [labA, labB], "A": op_to_json(A), "B": op_to_json(B), "g": g}
    EA = cx.enc(A, case, ("gen", labA))
    EB = cx.enc(B, case, ("gen", labB))
    if EA is None or EB is None:
        return
    S = F.op_add(A, B, g, -1.0)
    ES = cx.enc(S, case)
    acc.transitions += 1
    if ES is None:
        return
    acc.ev()
    ref = P.add(EA, EB, g, -1.0)
    tol = TOL_COMB * max(1.0, sum(abs(c) for c in S.values())) if cfg["mapping"] == "COMB" else TOL
    d = P.max_abs_diff(ES, ref)
    acc.nt(("lin", cfg_sig(cfg), labA, labB))
    if d > tol:
        cx.bad("sum-not-preserved", case, {"input": F.op_to_str(S)[:300], "image": P.to_str(ES)[:300],
                                           "sum_of_images": P.to_str(ref)[:300], "diff": d})


# ---------------------------------------------------------------------------------------------------------------------
# enumeration

def configs(tier):
    cf = []
    sizes = (2, 3, 4, 5, 6) if tier == "quick" else (2, 3, 4, 5, 6, 7)
    for m in FULL:
        for n in sizes:
            cf.append({"mapping": m, "n": n, "utd": False})
            if n % 2 == 0:
                cf.append({"mapping": m, "n": n, "utd": True})
    # large registers, symbolic checks only (canonical anticommutation relations and adjoints of all ladder operators): sizes on
    # both sides of the structural boundaries of the tree-based encodings (BK: powers of 2; JKMN ternary tree: 4, 13, 40 modes)
    for m in FULL:
        for n in ((8, 9, 13, 14, 16, 17) if tier == "quick" else (8, 9, 12, 13, 14, 15, 16, 17, 27, 32, 33, 40, 41)):
            cf.append({"mapping": m, "n": n, "utd": False, "big": True})
            if n % 2 == 0:
                cf.append({"mapping": m, "n": n, "utd": True, "big": True})
    for n in (4, 6):
        for utd in (False, True):
            for na in range(n // 2 + 1):
                for nb in range(n // 2 + 1):
                    cf.append({"mapping": "scBK", "n": n, "utd": utd, "na": na, "nb": nb})
    for nsp in (2, 3):
        for utd in (False, True):
            cf.append({"mapping": "HCB", "n": 2 * nsp, "utd": utd})
    for nsp in (2, 3):
        for na in range(nsp + 1):
            for nb in range(nsp + 1):
                cf.append({"mapping": "COMB", "n": 2 * nsp, "utd": False, "na": na, "nb": nb})
                if na == nb:
                    cf.append({"mapping": "COMB", "n": 2 * nsp, "utd": False, "na": na, "nb": nb, "int_ne": True})
    return cf


def domain_of(cfg):
    m = cfg["mapping"].upper()
    return {"SCBK": "scbk", "COMB": "sz", "HCB": "hcb"}.get(m, "full")


def work_items(cfg, part, tier, seed):
    """Deterministic list of the items of one part of one configuration."""
    n, dom, g = cfg["n"], domain_of(cfg), gval(seed)
    if part == "car":
        ls = [(p, a) for p in range(n) for a in (0, 1)]
        return [("car", la, lb) for la in ls for lb in ls]
    if part == "hom":
        ms = monomials_full(n, tier) if dom == "full" else monomials_scbk(n, tier)
        return [("adj", A) for A in ms] + [("hom", A, B) for A in ms for B in ms]
    if part == "spec":
        if dom == "hcb":
            gens = hcb_generators(n // 2)
        else:
            gens = hermitian_generators(n, tier, dom)
        return [("spec", lab, H) for lab, H in gens]
    if part == "ham":
        if dom == "hcb":
            gens = hcb_generators(n // 2)
            if tier == "quick" and n // 2 >= 3:
                keep = ("const", "h00", "h01", "hI01", "g(00|00)", "g(00|11)", "g(01|01)", "g(01|12)", "g(00|12)", "gI(01|01)")
                gens = [x for x in gens if x[0] in keep]
        else:
            gens = small_generators(n, dom)
        kmax = 2 if (tier == "quick" and n >= 6 and dom in ("scbk", "sz")) else 3
        return [("spec", lab, H) for lab, H in hamiltonians(gens, (-1.0, g), kmax)]
    if part == "lin":
        gens = hcb_generators(n // 2) if dom == "hcb" else hermitian_generators(n, "quick", dom)
        if dom == "sz" and n >= 6:
            gens = gens[:40]
        return [("lin", la, A, lb, B) for (la, A), (lb, B) in itertools.permutations(gens, 2)]
    raise ValueError(part)


def parts_of(cfg):
    dom = domain_of(cfg)
    if cfg.get("big"):
        return ["car"]
    if dom == "full":
        return ["car", "hom", "spec", "ham"]
    if dom == "scbk":
        return ["hom", "spec", "ham"]
    return ["spec", "ham", "lin"]


SAMPLE_CFGS = {("JW", True, None, None, None), ("JKMN", False, None, None, None), ("scBK", False, 1, 2, None),
               ("scBK", True, 0, 1, None), ("HCB", False, None, None, None), ("COMB", False, 1, 1, None),
               ("COMB", False, 2, 1, None)}
TARGET = {"car": 600, "hom": 500, "spec": 250, "ham": 300, "lin": 500}


def _preimport():
    """Import the code under test in the parent so that forked workers do not each pay for it."""
    from tangelo.toolboxes.operators import FermionOperator  # noqa: F401
    from tangelo.toolboxes.qubit_mappings import combinatorial  # noqa: F401
    from tangelo.toolboxes.qubit_mappings.mapping_transform import fermion_to_qubit_mapping  # noqa: F401


def shards(tier, seed):
    _preimport()
    sh = []
    for cfg in configs(tier):
        for part in parts_of(cfg):
            nitems = len(work_items(cfg, part, tier, seed))
            k = max(1, math.ceil(nitems / TARGET[part]))
            for i in range(k):
                sh.append({"kind": f"{cfg['mapping']}:{part}", "cfg": cfg, "part": part, "chunk": i, "nchunks": k,
                           "tier": tier, "seed": seed})
    # largest first, for a better makespan
    sh.sort(key=lambda s: (-s["cfg"]["n"], s["kind"], s["chunk"]))
    return sh


def run_item(cx, item, g, sample=False):
    k = item[0]
    if k == "car":
        run_car(cx, item[1], item[2])
    elif k == "hom":
        run_hom(cx, item[1], item[2], g)
    elif k == "adj":
        run_adj(cx, item[1], g)
    elif k == "spec":
        run_spec(cx, item[1], item[2], sample=sample)
    elif k == "lin":
        run_lin(cx, item[1], item[2], item[3], item[4], g)


def run_shard(sh):
    acc = Acc()
    cfg = sh["cfg"]
    cx = Ctx(acc, cfg)
    g = gval(sh["seed"])
    items = work_items(cfg, sh["part"], sh["tier"], sh["seed"])
    mine = items[sh["chunk"]::sh["nchunks"]]
    for j, item in enumerate(mine):
        acc.states += 1
        want_sample = (sh["chunk"] == 0 and j == len(mine) - 3 and sh["part"] == "ham" and cfg["n"] == 4
                       and (cfg["mapping"], cfg["utd"], cfg.get("na"), cfg.get("nb"), cfg.get("int_ne")) in SAMPLE_CFGS)
        run_item(cx, item, g, sample=want_sample)
    acc.count(f"cases[{sh['part']}]", len(mine))
    acc.count(f"cases[{cfg['mapping']}]", len(mine))
    if sh["part"] == "hom" and sh["chunk"] == 0 and cfg["n"] == 4 and cfg["mapping"] == "BK" and cfg["utd"] and mine:
        it = [x for x in mine if x[0] == "hom" and len(x[1]) == 2 and len(x[2]) == 1][:1]
        for x in it:
            EA, EB = cx.cache.get(("mono", tuple(x[1]))), cx.cache.get(("mono", tuple(x[2])))
            if EA is not None and EB is not None:
                acc.sample({"check": "product", "cfg": cfg_sig(cfg), "A": F.op_to_str({tuple(x[1]): 1.0}),
                            "B": F.op_to_str({tuple(x[2]): 1.0}), "image_A": P.to_str(EA), "image_B": P.to_str(EB),
                            "product_of_images": P.to_str(P.mul(EA, EB))[:300]}, cap=1)
    return acc


def replay_case(case):
    acc = Acc()
    cfg = case["cfg"]
    cx = Ctx(acc, cfg)
    k = case["kind"]
    if k == "car":
        run_car(cx, tuple(case["a"]), tuple(case["b"]))
    elif k == "hom":
        run_hom(cx, case["A"], case["B"], case["g"])
    elif k == "adj":
        run_adj(cx, case["A"], case["g"])
    elif k == "spec":
        run_spec(cx, case["label"], op_from_json(case["H"]))
    elif k == "lin":
        run_lin(cx, case["labels"][0], op_from_json(case["A"]), case["labels"][1], op_from_json(case["B"]), case["g"])
    return acc


def bounds(tier, seed):
    cf = configs(tier)
    return {
        "tier": tier, "g": gval(seed), "coefficients": [-1.0, gval(seed), "g*(1+0.5i) (adjoint)"],
        "full_space": {"encodings": list(FULL), "n": sorted({c["n"] for c in cf if c["mapping"] in FULL}),
                       "up_then_down": "False for all n, True for even n",
                       "monomials(n=6)": len(monomials_full(6, tier)),
                       "hermitian_generators(n=6)": len(hermitian_generators(6, tier, "full"))},
        "scBK": {"n": [4, 6], "sectors": "every (n_alpha, n_beta) in [0..n/2]^2 (n_electrons = sum, spin = difference)",
                 "monomials(n=6)": len(monomials_scbk(6, tier)),
                 "hermitian_generators(n=6)": len(hermitian_generators(6, tier, "scbk"))},
        "HCB": {"n_spatial": [2, 3], "generators(3)": len(hcb_generators(3))},
        "combinatorial": {"n_modes": [2, 3], "sectors": "every (n_alpha, n_beta), tuple form; int form when equal",
                          "hermitian_generators(3)": len(hermitian_generators(6, tier, "sz"))},
        "hamiltonians": "all sums of <=3 distinct generators of the small generator set with coefficients in {-1,g} "
                        "(quick tier: <=2 generators for scBK and combinatorial on 6 spin-orbitals)",
        "configurations": len(cf), "shards": len(shards(tier, seed)),
        "tolerances": {"pauli": TOL, "eigenvalues": TOL, "combinatorial_rel": TOL_COMB},
    }


def selftest():
    P.selftest()
    F.selftest()
    # alphabets stay inside their domains (reference side only)
    for n in (4, 6):
        for lab, H in hermitian_generators(n, "thorough", "scbk") + small_generators(n, "scbk"):
            M = F.op_matrix(n, H)
            assert np.allclose(M, M.conj().T), lab
            for pe in (0, 1):
                for pa in (0, 1):
                    assert F.leaks(M, F.sector_indices(n, False, parity_elec=pe, parity_alpha=pa)) == 0.0, lab
        for lab, H in hermitian_generators(n, "thorough", "sz") + small_generators(n, "sz"):
            M = F.op_matrix(n, H)
            assert np.allclose(M, M.conj().T), lab
            assert F.leaks(M, F.sector_indices(n, False, n_alpha=1, n_beta=1)) == 0.0, lab
    for nsp in (2, 3):
        S2 = F.op_matrix(2 * nsp, F.s2_operator(2 * nsp, False))
        for lab, H in hcb_generators(nsp):
            M = F.op_matrix(2 * nsp, H)
            assert np.allclose(M, M.conj().T), lab
            assert np.allclose(M @ S2, S2 @ M), ("spin-free", lab)
    for lab, H in small_generators(5, "full") + hermitian_generators(3, "thorough", "full"):
        n = 5 if max(F.op_modes(H) | {0}) > 2 else 3
        M = F.op_matrix(n, H)
        assert np.allclose(M, M.conj().T), lab


if __name__ == "__main__":
    import sys
    runner.main(sys.modules[__name__])
