"""C07 - Ansatz parameter updates are equivalent to rebuilding the circuit.

E2: one state graph per instance (ansatz class, molecule, encoding, ordering, options). The live ansatz object is driven
through update_var_params(v) / build_circuit(v) (/ add_operator for ADAPT) for v in a per-ansatz vector alphabet; in every
state the statevector of `ansatz.circuit` (numpy reference simulator) must equal, up to a global phase, that of a FRESH
object of the same class/options built directly with the last vector. Wrong-length vectors must be rejected by
set_var_params, build_circuit and update_var_params; all-zero vectors on the excitation-based ansaetze must prepare the
reference state. The pool runs over instances (one graph per shard, BFS inside the shard via mc/stategraph.py).
"""
import contextlib
import copy
import io
import itertools
import math
import sys

import numpy as np

from mc import runner, stategraph
from mc.runner import Acc
from mc.ref import statevec as SV

PID = "C07"
ENGINE = "stategraph (BFS over live ansatz objects; one graph per instance, process pool over instances)"
RULE = ("one state graph per (ansatz class, molecule, encoding, ordering, options); start = fresh object after "
        "build_circuit(dense vector); transitions = update_var_params(v) and build_circuit(v) for every v of the vector "
        "alphabet (+ add_operator(p) for ADAPT), all histories up to the depth bound, deduplicated on the canonical state "
        "(gates with parameters rounded to 1e-12, variational-gate positions, cache tables, var_params, n_var_params); "
        "in every state: statevector(ansatz.circuit) == statevector(fresh object built with the last vector) up to phase, "
        "n_var_params == accepted length, wrong-length vectors rejected by the three entry points (once per distinct "
        "state), zero vector == reference state; non-trivial = distinct (instance, state, vector) transitions in which "
        "update_var_params took the incremental path (circuit object kept, gate parameters changed)")
TOL = 1e-8
ASSUMPTIONS = [
    "vector alphabet per ansatz (K=6 quick / K=9 thorough) built from n_var_params: zero, alternating sign, one-hot "
    "(exact zeros elsewhere), repeated value + one entry beyond 2*pi, dense generic, dense with one exact zero (+ all-equal, "
    "one-hot first/last in thorough); nothing is claimed for other vectors; histories up to depth 2 (quick) / 3 (thorough), "
    "ADAPT depth 3 in both tiers with three start objects (0, 1, 2 pre-loaded operators, at most 3 operators)",
    "molecules: H2, H4 (square-ish), H4 triplet, H3 doublet (ROHF), H2 stretched / H3 / H4 UHF, all sto-3g, H2 3-21g for "
    "pUCCD; <= 8 qubits",
    f"states compared up to one global phase with 2-norm tolerance {TOL} using the numpy reference simulator mc/ref/statevec "
    "on the gate lists produced by Tangelo (both sides of the comparison are circuits produced by Tangelo: the history "
    "object and a fresh object; the simulator is the harness one)",
    "update_var_params is called with numpy arrays, build_circuit with python lists; wrong-length probes use lists",
    "'rejected' = any exception; silent acceptance is the violation. Whether a rejected call leaves the object unchanged "
    "is not checked (QCC/ILC.set_var_params store the vector before raising)",
    "the zero-vector oracle uses the object's own prepare_reference_state() circuit (independently checked by C05) and "
    "requires it to be a computational basis state",
    "ADAPT: state right after add_operator has no vector of the new length yet; only n_var_params and the length checks "
    "are evaluated there, the statevector oracle resumes after the next update/build",
    "QCC/ILC ignore the leading QMF part of the vector (the QMF circuit is fixed at construction); this is the same on "
    "both sides of the comparison and is not judged here",
]
PI = math.pi

# ---------------------------------------------------------------------------------------------------------------------
# molecules (geometries of tangelo.molecule_library; importing that module costs 30 s because it builds everything)

XYZ = {
    "H2": [("H", (0., 0., 0.)), ("H", (0., 0., 0.7414))],
    "H2s": [("H", (0., 0., 0.)), ("H", (0., 0., 1.6))],
    "H4": [("H", (0.7071067811865476, 0.0, 0.0)), ("H", (0.0, 0.7071067811865476, 0.0)),
           ("H", (-1.0071067811865475, 0.0, 0.0)), ("H", (0.0, -1.0071067811865475, 0.0))],
    "H3": [("H", (0., 0., 0.)), ("H", (0., 0., 0.9)), ("H", (0., 0.8, 1.9))],
}
# name -> (xyz key, q, spin, basis, uhf)
MOLS = {
    "H2": ("H2", 0, 0, "sto-3g", False),
    "H2_321g": ("H2", 0, 0, "3-21g", False),
    "H4": ("H4", 0, 0, "sto-3g", False),
    "H4t": ("H4", 0, 2, "sto-3g", False),
    "H3": ("H3", 0, 1, "sto-3g", False),
    "H2u": ("H2s", 0, 0, "sto-3g", True),
    "H3u": ("H3", 0, 1, "sto-3g", True),
    "H4u": ("H4", 0, 0, "sto-3g", True),
}
_MOLCACHE = {}


def get_mol(name):
    if name not in _MOLCACHE:
        from tangelo import SecondQuantizedMolecule
        x, q, spin, basis, uhf = MOLS[name]
        _MOLCACHE[name] = SecondQuantizedMolecule(XYZ[x], q=q, spin=spin, basis=basis, uhf=uhf)
    return _MOLCACHE[name]


# ---------------------------------------------------------------------------------------------------------------------
# instances

EXCITATION_BASED = {"UCCSD", "RUCC", "UpCCGSD", "UCCGD", "pUCCD", "ADAPT"}
ADAPT_POOL_F = ["2^ 0|0^ 2", "2^ 0;3^ 1|0^ 2;1^ 3", "2^ 3^ 0 1|0^ 1^ 2 3"]   # "excitation terms | de-excitation terms"


_POOLCACHE = {}


def adapt_pool(inst):
    key = (inst["map"], inst["utd"], inst["opt"]["n_so"], inst["opt"]["n_el"])
    if key not in _POOLCACHE:
        _POOLCACHE[key] = _adapt_pool(inst)
    return _POOLCACHE[key]


def _adapt_pool(inst):
    """Three anti-Hermitian generators mapped exactly as ADAPTSolver.build does (coefficients -> sign of the imaginary part)."""
    from tangelo.toolboxes.operators import FermionOperator
    from tangelo.toolboxes.qubit_mappings.mapping_transform import fermion_to_qubit_mapping
    n_so, n_el, spin = inst["opt"]["n_so"], inst["opt"]["n_el"], 0
    pool = []
    for spec in ADAPT_POOL_F:
        exc, dexc = spec.split("|")
        f = FermionOperator()
        for t in exc.split(";"):
            f += FermionOperator(t)
        for t in dexc.split(";"):
            f -= FermionOperator(t)
        q = fermion_to_qubit_mapping(f, inst["map"], n_spinorbitals=n_so, n_electrons=n_el, up_then_down=inst["utd"], spin=spin)
        q.terms = {t: math.copysign(1., c.imag) for t, c in q.terms.items() if abs(c.imag) > 1e-12}
        pool.append(q)
    return pool


def user_circuit():
    from tangelo.linq import Circuit, Gate
    return Circuit([Gate("H", 0), Gate("X", 2), Gate("RX", 0, parameter=0.4, is_variational=True), Gate("CNOT", 1, 0),
                    Gate("RY", 1, parameter=-0.2, is_variational=True), Gate("CRZ", 2, 1, parameter=1.1, is_variational=True),
                    Gate("RZ", 2, parameter=0.9), Gate("CNOT", 0, 2)])


def vsqs_nav():
    from tangelo.toolboxes.operators import QubitOperator
    return QubitOperator("X0 Y1", 0.3) + QubitOperator("Z0", -0.2) + QubitOperator("Z1", 0.45)


def make_ansatz(inst, ops=()):
    """Fresh ansatz object of the instance (ADAPT: with the pool operators `ops` pre-loaded through ansatz_options)."""
    from tangelo.toolboxes import ansatz_generator as AG
    cls, mp, utd, o = inst["cls"], inst.get("map"), inst.get("utd"), inst.get("opt", {})
    if cls == "UCCSD":
        return AG.UCCSD(get_mol(inst["mol"]), mapping=mp, up_then_down=utd)
    if cls == "RUCC":
        return AG.RUCC(o["n"])
    if cls == "UpCCGSD":
        return AG.UpCCGSD(get_mol(inst["mol"]), mapping=mp, up_then_down=utd, k=o["k"])
    if cls == "UCCGD":
        return AG.UCCGD(get_mol(inst["mol"]), mapping=mp, up_then_down=utd)
    if cls == "HEA":
        if inst.get("mol"):
            return AG.HEA(get_mol(inst["mol"]), mapping=mp, up_then_down=utd, n_layers=2, rot_type=o.get("rot", "euler"))
        return AG.HEA(n_qubits=4, n_electrons=2, n_layers=2, rot_type=o.get("rot", "euler"), reference_state=o.get("ref", "HF"))
    if cls == "QMF":
        return AG.QMF(get_mol(inst["mol"]), mapping=mp, up_then_down=utd)
    if cls == "QCC":
        return AG.QCC(get_mol(inst["mol"]), mapping=mp, up_then_down=utd)
    if cls == "ILC":
        return AG.ILC(get_mol(inst["mol"]), mapping=mp, up_then_down=utd)
    if cls == "VSQS":
        return AG.VSQS(get_mol(inst["mol"]), mapping=mp, up_then_down=utd, intervals=3, trotter_order=o["order"],
                       h_nav=(vsqs_nav() if o["nav"] else None))
    if cls == "pUCCD":
        return AG.pUCCD(get_mol(inst["mol"]))
    if cls == "ADAPT":
        from tangelo.toolboxes.ansatz_generator.adapt_ansatz import ADAPTAnsatz
        pool = adapt_pool(inst)
        return ADAPTAnsatz(o["n_so"], o["n_el"], 0, {"operators": [copy.deepcopy(pool[j]) for j in ops], "mapping": mp,
                                                      "up_then_down": utd})
    if cls == "VarCirc":
        return AG.VariationalCircuitAnsatz(user_circuit())
    raise KeyError(cls)


def variant(inst):
    cls, o = inst["cls"], inst.get("opt", {})
    if cls == "UCCSD":
        m = MOLS[inst["mol"]]
        return "uhf" if m[4] else ("rohf" if m[2] else "closed")
    if cls == "RUCC":
        return f"n={o['n']}"
    if cls == "UpCCGSD":
        return f"k={o['k']}"
    if cls == "VSQS":
        return f"order={o['order']},nav={int(o['nav'])}"
    if cls == "HEA":
        return o.get("rot", "euler")
    return "-"


def label(inst):
    return ":".join(str(x) for x in (inst["cls"], inst.get("mol", "-"), inst.get("map", "-"), int(bool(inst.get("utd"))), variant(inst),
                                     "s" + str(len(inst.get("start_ops", [])))))


def instances(tier):
    Q = tier == "quick"
    encs = [("JW", False), ("JW", True), ("scBK", False), ("scBK", True)] if Q else \
        [(m, u) for m in ("JW", "BK", "scBK", "JKMN") for u in (False, True)]
    out = []

    def add(cls, mol=None, mp=None, utd=None, cost=1, **opt):
        d = {"cls": cls}
        if mol:
            d["mol"] = mol
        if mp:
            d["map"], d["utd"] = mp, utd
        so = opt.pop("start_ops", None)
        if so is not None:
            d["start_ops"] = so
        if opt:
            d["opt"] = opt
        d["cost"] = cost
        out.append(d)

    for mp, utd in encs:
        for mol, c in (("H2", 1), ("H4", 8), ("H3", 3), ("H4t", 6), ("H2u", 1), ("H3u", 3)) + (() if Q else (("H4u", 10),)):
            add("UCCSD", mol, mp, utd, cost=c)
        for k in (1, 2, 3, 4):
            add("UpCCGSD", "H2", mp, utd, cost=k, k=k)
        for k in (1, 2):
            add("UpCCGSD", "H4", mp, utd, cost=5 * k, k=k)
        add("UCCGD", "H2", mp, utd)
        if not Q:
            add("UCCGD", "H4", mp, utd, cost=30)
        add("HEA", "H2", mp, utd)
        for cls in ("QMF", "QCC", "ILC"):
            add(cls, "H2", mp, utd)
            add(cls, "H4", mp, utd, cost=3)
        for order in (1, 2):
            for nav in (False, True):
                add("VSQS", "H2", mp, utd, cost=4 * order * order, order=order, nav=nav)
        for so, c in (([], 40), ([2], 20), ([0, 1], 10)):
            add("ADAPT", None, mp, utd, cost=c, n_so=4, n_el=2, start_ops=so)
        if not Q:
            add("ADAPT", None, mp, utd, cost=25, n_so=8, n_el=4, start_ops=[1])
    for rot in ("euler", "real"):
        for ref in ("HF", "zero"):
            add("HEA", cost=1, rot=rot, ref=ref)
    add("RUCC", n=1)
    add("RUCC", n=3)
    for mol in ("H2", "H4", "H2_321g"):
        add("pUCCD", mol)
    add("VarCirc")
    return out


# ---------------------------------------------------------------------------------------------------------------------
# vector alphabet

def alphabet(n, K, seed, tau_from=0):
    """Vectors of length n. tau_from: first index of the section in which the one-hot / beyond-2pi positions are placed
    (QCC/ILC: the generator amplitudes follow 2*n_qubits QMF angles which those classes ignore)."""
    if n == 0:
        return [("empty", [])]
    d = runner.seed_delta(seed)
    g1, g2, g3, r = 0.37 + d, 1.23 + d, 0.52 + 0.5 * d, 0.25 + 0.1 * d
    m = n - tau_from
    if m <= 0:
        tau_from, m = 0, n

    def hot(p, val):
        v = [0.0] * n
        v[tau_from + p] = val
        return v

    dense = []
    for i in range(n):
        x = 1.5 * (((i + 1) * 0.6180339887498949 + 0.137 + d) % 1.0) - 0.75
        if abs(x) < 0.02:
            x += 0.05
        dense.append(x)
    rep = [r] * n
    rep[tau_from + m // 3] = 2 * PI + 0.61
    # every position beyond one period, both signs (controlled rotations are 4*pi-periodic: a 2*pi wrap is visible there)
    all2pi = [r] * tau_from + [(2 * PI + 0.3 + 0.05 * (i % 5)) * (1 if i % 2 == 0 else -1) for i in range(m)]
    alt = [g3 if i % 2 == 0 else -g3 for i in range(n)]
    hole = list(dense)
    hole[tau_from + m // 2] = 0.0   # full support minus one term: the cached positions of the later terms shift by one
    # sign patterns decorrelated from `dense`/`alt` (every entry changes sign between dense and neg-dense; rev-dense permutes the
    # magnitudes): coefficient sums and differences of the encoded generators change sign / cancel differently
    neg = [-x for x in dense]
    rev = list(dense[:tau_from]) + list(dense[tau_from:][::-1])
    full = [("zero", [0.0] * n), ("alt", alt), ("hot-mid", hot(m // 2, -g2)), ("rep-2pi", rep), ("all-2pi", all2pi), ("dense", dense),
            ("neg-dense", neg), ("dense-one-zero", hole), ("rev-dense", rev), ("equal", [g1] * n), ("hot-first", hot(0, g1)),
            ("hot-last", hot(m - 1, g3))]
    out, seen = [], set()
    for name, v in full[:K]:
        t = tuple(v)
        if t not in seen:
            seen.add(t)
            out.append((name, [float(x) for x in v]))
    return out


# ---------------------------------------------------------------------------------------------------------------------
# canonical state

def _r(x):
    if isinstance(x, str):
        return x
    x = complex(x)
    if abs(x.imag) < 1e-15:
        return round(x.real, 12) + 0.0
    return (round(x.real, 12) + 0.0, round(x.imag, 12) + 0.0)


def canon_gates(c):
    return tuple((g.name, tuple(int(q) for q in g.target), None if g.control is None else tuple(int(q) for q in g.control), _r(g.parameter),
                  bool(g.is_variational)) for g in c._gates)


def canon_var_positions(c):
    ids = {id(g): i for i, g in enumerate(c._gates)}
    return tuple(ids.get(id(g), -1) for g in c._variational_gates)


def canon_obj(o):
    if isinstance(o, dict):
        return tuple(sorted(((repr(k), canon_obj(v)) for k, v in o.items())))
    if isinstance(o, (list, tuple)):
        return tuple(canon_obj(v) for v in o)
    if isinstance(o, np.ndarray):
        return tuple(canon_obj(v) for v in o.tolist())
    if isinstance(o, (bool, str)) or o is None:
        return o
    if isinstance(o, (int, np.integer)):
        return int(o)
    if isinstance(o, (float, complex, np.floating, np.complexfloating)):
        return _r(o)
    return repr(o)


TABLES = ("pauli_to_angles_mapping", "exc_to_param_mapping", "_n_terms_operators", "_var_params_prefactor")
SUBCIRCUITS = ("qcc_circuit", "ilc_circuit", "qmf_circuit")


class St:
    """A live ansatz object plus what the harness knows about its history."""

    def __init__(self, a, last, ops, dead=None):
        self.a = a
        self.last = last      # last vector handed to build_circuit / update_var_params (None: none of the current length yet)
        self.ops = ops        # ADAPT: pool indices of the operators in the ansatz
        self.dead = dead      # set when a call with a valid vector raised: the object is not explored further

    def __deepcopy__(self, memo):
        mol = getattr(self.a, "molecule", None)
        if mol is not None:
            memo[id(mol)] = mol   # PySCF-backed molecule: never mutated by the ansatz, shared between copies
        return St(copy.deepcopy(self.a, memo), None if self.last is None else list(self.last), list(self.ops), self.dead)


def sg_canon_of(st):
    if st.dead:
        return ("dead", st.dead)
    a = st.a
    c = a.circuit
    tabs = []
    for name in TABLES:
        if hasattr(a, name):
            tabs.append((name, canon_obj(getattr(a, name))))
    if hasattr(a, "pauli_order"):
        tabs.append(("pauli_order", tuple(t for t, _ in a.pauli_order)))
    if hasattr(a, "qu_op_dict"):
        tabs.append(("qu_op_dict.keys", tuple(sorted(repr(k) for k in a.qu_op_dict))))
    subs = []
    for name in SUBCIRCUITS:
        sc = getattr(a, name, None)
        if sc is not None:
            subs.append((name, canon_gates(sc), canon_var_positions(sc)))
    vp = None if a.var_params is None else tuple(_r(x) for x in np.ravel(np.array(a.var_params, dtype=float)))
    return (canon_gates(c), canon_var_positions(c), tuple(tabs), tuple(subs), vp, int(a.n_var_params), tuple(st.ops))


# ---------------------------------------------------------------------------------------------------------------------
# one instance = one state graph (object with the sg_* interface of mc/stategraph.py)

class Graph:
    def __init__(self, inst, K, depth, seed):
        self.inst, self.K, self.depth, self.seed = inst, K, depth, seed
        self.cls = inst["cls"]
        self.call = {"ADAPT": "ADAPTAnsatz", "VarCirc": "VariationalCircuitAnsatz"}.get(self.cls, self.cls)
        self.var = variant(inst)
        self.lab = label(inst)
        self.sv_cache = {}
        self.fresh_cache = {}
        self.probed = set()
        self.tau_from = 0
        self.nq = 0

    # -- helpers -------------------------------------------------------------------------------------------------
    def vectors(self, n):
        return alphabet(n, self.K, self.seed, self.tau_from)

    def case(self, hist):
        word = [(h.get("op", "start"), h.get("name", h.get("p"))) for h in hist]
        return {"kind": "hist", "inst": self.inst, "K": self.K, "seed": self.seed, "hist": hist, "word": word}

    def viol(self, acc, hist, site, kind, sig, detail, probe=None):
        if hist is None:
            return
        d = dict(detail or {})
        d["instance"] = self.lab
        d["repro"] = repro_script(self.inst, hist, probe)
        acc.violation(f"{self.call}.{site}/{kind}/{sig}", self.case(hist), d, group=f"{self.call}.{site}/{kind}")

    def statevec(self, circuit, n):
        gates = canon_gates(circuit)
        key = (runner.h64(repr(gates)), n)
        if key not in self.sv_cache:
            self.sv_cache[key] = SV.run([list(g) for g in gates], n)
        return self.sv_cache[key]

    def fresh(self, ops, vec):
        """(circuit, reference circuit) of a fresh object built directly with vec; exception object if that fails."""
        key = (tuple(ops), tuple(vec))
        if key not in self.fresh_cache:
            try:
                if self.cls == "VarCirc":
                    # user circuit: the reference is the user's own gate list with the values written in literally (a second
                    # VariationalCircuitAnsatz would share any error of the parameter assignment)
                    from tangelo.linq import Circuit, Gate
                    it = iter(vec)
                    gl = [Gate(g.name, g.target, g.control, (next(it) if g.is_variational else g.parameter), g.is_variational)
                          for g in user_circuit()._gates]
                    if len(vec) != sum(1 for g in gl if g.is_variational):
                        raise ValueError("wrong number of values for the user circuit")
                    self.fresh_cache[key] = (Circuit(gl), None)
                    return self.fresh_cache[key]
                b = make_ansatz(self.inst, ops)
                b.build_circuit(list(vec))
                ref = None
                if self.cls in EXCITATION_BASED:
                    ref = b.prepare_reference_state()
                self.fresh_cache[key] = (b.circuit, ref)
            except Exception as e:
                self.fresh_cache[key] = e
        return self.fresh_cache[key]

    # -- stategraph interface ------------------------------------------------------------------------------------
    def sg_build(self, s):
        return make_start(self, s)

    def sg_ops(self, st, hist):
        if st.dead:
            return []
        n = int(st.a.n_var_params)
        ops = []
        for name, v in self.vectors(n):
            ops.append({"op": "update", "name": name, "vec": v})
        for name, v in self.vectors(n):
            ops.append({"op": "build", "name": name, "vec": v})
        if self.cls == "ADAPT" and len(st.ops) < 3:
            ops += [{"op": "add", "p": j} for j in range(3)]
        return ops

    def sg_step(self, st, op, acc, hist):
        a = st.a
        k = op["op"]
        if k == "add":
            a.add_operator(copy.deepcopy(adapt_pool(self.inst)[op["p"]]))
            st.ops = st.ops + [op["p"]]
            st.last = None
            return st
        vec = [float(x) for x in op["vec"]]
        before_ids = (id(a.circuit), id(getattr(a, "qcc_circuit", None)))
        before_gates = canon_gates(a.circuit)
        pre = runner.h64(repr(sg_canon_of(st))) if hist is not None else None
        site = "update_var_params" if k == "update" else "build_circuit"
        try:
            if k == "update":
                a.update_var_params(np.array(vec))
            else:
                a.build_circuit(list(vec))
        except Exception as e:
            acc.ev()
            self.viol(acc, hist, site, "exception-on-valid-vector", f"{self.var}:{type(e).__name__}",
                      {"error": repr(e)[:200], "n_var_params": int(a.n_var_params), "vector_length": len(vec)})
            st.dead = f"{site}:{type(e).__name__}"
            return st
        st.last = vec
        if k == "update" and hist is not None:
            kept = (id(a.circuit) == before_ids[0]) or (self.cls == "QCC" and id(a.qcc_circuit) == before_ids[1])
            if kept and canon_gates(a.circuit) != before_gates:
                acc.nt((self.lab, pre, op["name"]))
                acc.count("update_incremental_path")
            elif not kept:
                acc.count("update_rebuild_path")
        return st

    def sg_canon(self, st):
        return sg_canon_of(st)

    def sg_check(self, st, hist, acc):
        if st.dead:
            return
        a = st.a
        site = {"update": "update_var_params", "build": "build_circuit", "add": "add_operator"}.get(hist[-1].get("op"), "build_circuit")
        n = int(a.n_var_params)
        # advertised number of parameters == accepted length
        acc.ev()
        want_n = len(st.ops) if self.cls == "ADAPT" else (len(st.last) if st.last is not None else n)
        if n != want_n or (st.last is not None and len(st.last) != n):
            self.viol(acc, hist, site, "n_var_params-differs-from-accepted-length", self.var,
                      {"n_var_params": n, "accepted_length": None if st.last is None else len(st.last)})
        # statevector vs fresh build
        if st.last is not None:
            fr = self.fresh(st.ops, st.last)
            acc.ev()
            if isinstance(fr, Exception):
                self.viol(acc, hist, "build_circuit", "exception-on-valid-vector", f"{self.var}:{type(fr).__name__}:fresh",
                          {"error": repr(fr)[:200], "vector": st.last})
            else:
                fc, ref = fr
                nq = max(self.nq, a.circuit.width, fc.width)
                got = self.statevec(a.circuit, nq)
                want = self.statevec(fc, nq)
                dist = SV.dist_up_to_phase(got, want)
                acc.out((self.lab, [round(float(x), 6) for x in np.abs(want)]))
                if not dist <= TOL:
                    self.viol(acc, hist, site, "state-differs-from-fresh-build", self.var,
                              {"distance_up_to_phase": dist, "fidelity": float(abs(np.vdot(got, want)) ** 2),
                               "n_gates": a.circuit.size, "n_gates_fresh": fc.size,
                               "n_variational_gates": len(a.circuit._variational_gates),
                               "n_variational_gates_fresh": len(fc._variational_gates), "last_vector": st.last})
                if ref is not None and all(x == 0.0 for x in st.last):
                    acc.ev()
                    rv = self.statevec(ref, nq)
                    is_basis = abs(np.max(np.abs(rv)) - 1.0) < 1e-12
                    dz = SV.dist_up_to_phase(got, rv)
                    acc.count("zero_vector_checks")
                    if not is_basis or not dz <= TOL:
                        self.viol(acc, hist, site, "zero-vector-not-reference-state", self.var,
                                  {"distance_up_to_phase": dz, "reference_is_basis_state": bool(is_basis)})
        # wrong lengths must be rejected (once per distinct state)
        hk = runner.h64(repr(sg_canon_of(st)))
        if hk in self.probed:
            return
        self.probed.add(hk)
        good = dict(self.vectors(n))["dense" if n else "empty"]
        cand, seenL = [], set()
        for lab, L in (("0", 0), ("n-1", n - 1), ("n+1", n + 1)):
            if L < 0 or L == n or L in seenL:
                continue
            seenL.add(L)
            cand.append((lab, (good + [0.77])[:L]))
        for meth in ("set_var_params", "build_circuit", "update_var_params"):
            for lab, bad in cand:
                obj = copy.deepcopy(st)
                acc.ev()
                acc.count("wrong_length_probes")
                try:
                    getattr(obj.a, meth)(list(bad))
                except Exception:
                    acc.count("wrong_length_rejected")
                    continue
                self.viol(acc, hist, meth, "wrong-length-accepted", f"{self.var}:{lab}",
                          {"n_var_params": n, "given_length": len(bad), "method": meth,
                           "var_params_after": canon_obj(obj.a.var_params)}, probe=(meth, bad))


# ---------------------------------------------------------------------------------------------------------------------
# standalone reproduction text (goes into the violation detail)

def repro_script(inst, hist, probe=None):
    cls, mp, utd, o = inst["cls"], inst.get("map"), inst.get("utd"), inst.get("opt", {})
    L = ["import numpy as np, math, copy", "from tangelo import SecondQuantizedMolecule", "from tangelo.linq import get_backend, Circuit, Gate",
         "from tangelo.toolboxes.ansatz_generator import *", "from tangelo.toolboxes.operators import QubitOperator, FermionOperator"]
    if inst.get("mol"):
        x, q, spin, basis, uhf = MOLS[inst["mol"]]
        L.append(f"mol = SecondQuantizedMolecule({XYZ[x]!r}, q={q}, spin={spin}, basis={basis!r}, uhf={uhf})")
    enc = f"mapping={mp!r}, up_then_down={utd}"
    ctor = {
        "UCCSD": f"UCCSD(mol, {enc})", "RUCC": f"RUCC({o.get('n')})", "UpCCGSD": f"UpCCGSD(mol, {enc}, k={o.get('k')})",
        "UCCGD": f"UCCGD(mol, {enc})", "QMF": f"QMF(mol, {enc})", "QCC": f"QCC(mol, {enc})", "ILC": f"ILC(mol, {enc})",
        "pUCCD": "pUCCD(mol)",
        "HEA": (f"HEA(mol, {enc}, n_layers=2)" if inst.get("mol") else
                f"HEA(n_qubits=4, n_electrons=2, n_layers=2, rot_type={o.get('rot')!r}, reference_state={o.get('ref')!r})"),
        "VSQS": f"VSQS(mol, {enc}, intervals=3, trotter_order={o.get('order')}"
                + (", h_nav=QubitOperator('X0 Y1', 0.3) + QubitOperator('Z0', -0.2) + QubitOperator('Z1', 0.45))" if o.get("nav") else ")"),
        "VarCirc": "VariationalCircuitAnsatz(Circuit([Gate('H', 0), Gate('X', 2), Gate('RX', 0, parameter=0.4, is_variational=True), "
                   "Gate('CNOT', 1, 0), Gate('RY', 1, parameter=-0.2, is_variational=True), "
                   "Gate('CRZ', 2, 1, parameter=1.1, is_variational=True), Gate('RZ', 2, parameter=0.9), Gate('CNOT', 0, 2)]))",
    }.get(cls)
    if cls == "ADAPT":
        L += ["from tangelo.toolboxes.ansatz_generator.adapt_ansatz import ADAPTAnsatz",
              "from tangelo.toolboxes.qubit_mappings.mapping_transform import fermion_to_qubit_mapping as f2q",
              f"fs = [FermionOperator('2^ 0') - FermionOperator('0^ 2'), FermionOperator('2^ 0') + FermionOperator('3^ 1') - FermionOperator('0^ 2') "
              f"- FermionOperator('1^ 3'), FermionOperator('2^ 3^ 0 1') - FermionOperator('0^ 1^ 2 3')]",
              f"pool = [f2q(f, {mp!r}, n_spinorbitals={o['n_so']}, n_electrons={o['n_el']}, up_then_down={utd}, spin=0) for f in fs]",
              "for q in pool: q.terms = {t: math.copysign(1., c.imag) for t, c in q.terms.items()}",
              f"mk = lambda ops: ADAPTAnsatz({o['n_so']}, {o['n_el']}, 0, {{'operators': [copy.deepcopy(pool[j]) for j in ops], "
              f"'mapping': {mp!r}, 'up_then_down': {utd}}})"]
    else:
        L.append(f"mk = lambda ops=(): {ctor}")
    ops = list(hist[0]["ops"])
    L.append(f"a = mk({ops}); a.build_circuit({_short(hist[0]['vec'])})")
    last = hist[0]["vec"]
    for h in hist[1:]:
        if h["op"] == "add":
            L.append(f"a.add_operator(copy.deepcopy(pool[{h['p']}]))")
            ops.append(h["p"])
            last = None
        elif h["op"] == "update":
            L.append(f"a.update_var_params(np.array({_short(h['vec'])}))")
            last = h["vec"]
        else:
            L.append(f"a.build_circuit({_short(h['vec'])})")
            last = h["vec"]
    if probe is not None:
        L += [f"print('n_var_params =', a.n_var_params)",
              f"a.{probe[0]}({_short(probe[1])})   # {len(probe[1])} values: must raise, returns silently"]
    elif last is not None:
        L += [f"b = mk({ops}); b.build_circuit({_short(last)})", "sim = get_backend('cirq')",
              "sa = sim.simulate(a.circuit, return_statevector=True)[1]; sb = sim.simulate(b.circuit, return_statevector=True)[1]",
              "print('fidelity history-object vs fresh build:', abs(np.vdot(sa, sb))**2)"]
    return "\n".join(L)


def _short(v):
    return "[" + ", ".join(repr(round(float(x), 12)) for x in v) + "]"


# ---------------------------------------------------------------------------------------------------------------------
# runner interface

MAX_STATES = 6000


def lattice_vectors(n, tier, seed, tau_from=0):
    """Vectors whose entries satisfy exact small-integer linear relations (x_j = +-x_i, x_j = +-2 x_i): sums and differences of
    amplitudes then cancel exactly inside the encoded generator although no final coefficient need vanish. n <= 3: all vectors over
    {+-a, +-2a}; larger n: the generic dense vector with one pair of positions set to a related pair of values."""
    a = 0.37 + runner.seed_delta(seed)
    m = n - tau_from
    if m <= 0:
        tau_from, m = 0, n
    if n == 0:
        return []
    base = dict(alphabet(n, 12, seed, tau_from))["dense"]
    out = []
    if m <= 3:
        for vals in itertools.product((a, -a, 2 * a, -2 * a), repeat=m):
            out.append((":".join(f"{x / a:+.0f}" for x in vals), list(base[:tau_from]) + list(vals)))
        return out
    rel = [(a, 2 * a), (a, -2 * a), (2 * a, a), (-2 * a, a), (a, a), (a, -a)]
    pairs = [(i, j) for i in range(m) for j in range(i + 1, m)]
    if tier == "quick":
        pairs = [(i, j) for i, j in pairs if j - i <= 2][:10]
    else:
        pairs = pairs[:30]
    for i, j in pairs:
        for x, y in rel:
            v = list(base)
            v[tau_from + i], v[tau_from + j] = x, y
            out.append((f"{i}={x / a:+.0f},{j}={y / a:+.0f}", v))
    return out


def tier_params(tier):
    return (9, 2) if tier == "quick" else (12, 3)


def shards(tier, seed):
    K, depth = tier_params(tier)
    insts = instances(tier)
    out = []
    for i in sorted(insts, key=lambda d: -d.get("cost", 1)):
        inst = {k: v for k, v in i.items() if k != "cost"}
        dep = 3 if inst["cls"] == "ADAPT" else depth
        out.append({"kind": label(inst), "inst": inst, "K": K, "depth": dep, "seed": seed, "tier": tier})
    return out


@contextlib.contextmanager
def quiet():
    """UCCGD._get_qubit_operator prints two lines per call; PySCF prints warnings."""
    buf = io.StringIO()
    try:
        with contextlib.redirect_stdout(buf):
            yield buf
    except SystemExit:
        raise RuntimeError("stategraph aborted: " + buf.getvalue()[-2000:])


def run_shard(shard):
    inst = shard["inst"]
    g = Graph(inst, shard["K"], shard["depth"], shard["seed"])
    start = {"start": "build", "ops": list(inst.get("start_ops", []))}
    try:
        with quiet():
            a_probe = make_ansatz(inst, start["ops"])
            n_probe = int(a_probe.n_var_params)
            a_probe.build_circuit(list(dict(g.vectors(n_probe))["dense" if n_probe else "empty"]))
    except Exception as e:
        # the very first build of the instance fails on a valid vector: a finding, not a harness error
        acc = Acc()
        acc.states += 1
        acc.transitions += 1
        acc.ev()
        acc.nt(("start-build", g.lab))
        acc.nt(("start-build-raises", g.lab))
        acc.violation(f"{g.call}.build_circuit/exception-on-valid-vector/first-build:{type(e).__name__}",
                      {"inst": inst, "K": shard["K"], "seed": shard["seed"], "hist": [dict(start, vec=[], name="dense")]},
                      {"error": repr(e)[:300], "start_ops": start["ops"]}, group=f"{g.call}.build_circuit/exception-on-valid-vector")
        return acc
    with quiet():
        # the start descriptor carries its vector so that histories are self-contained
        a0 = make_ansatz(inst, start["ops"])
        if inst["cls"] in ("QCC", "ILC"):
            g.tau_from = 2 * a0.n_qubits
        n0 = int(a0.n_var_params)
        start["vec"] = dict(g.vectors(n0))["dense" if n0 else "empty"]
        start["name"] = "dense"
        acc = stategraph.explore(g, [start], shard["depth"], jobs=1, max_states=MAX_STATES, check_deepcopy=True)
    # ---- exact linear relations between parameters: one update from the generic start state per lattice vector ----------------
    if inst["cls"] != "ADAPT":
        with quiet():
            for nm, v in lattice_vectors(n0, shard.get("tier", "quick"), shard["seed"], getattr(g, "tau_from", 0) or 0):
                st = make_start(g, start)
                op = {"op": "update", "name": "lattice:" + nm, "vec": [float(x) for x in v]}
                hist = [start, op]
                acc.transitions += 1
                st = g.sg_step(st, op, acc, hist)
                g.sg_check(st, hist, acc)
                acc.count("lattice_updates")
    cls = inst["cls"]
    acc.count(f"graphs.{cls}")
    acc.count(f"states.{cls}", acc.states)
    Kp = len(g.vectors(n0)) + 1
    if cls != "ADAPT":
        acc.count("graphs_with_at_most_K+1_states" if acc.states <= Kp else "graphs_with_more_than_K+1_states")
        if acc.states > Kp:
            acc.count(f"graphs_with_more_than_K+1_states.{cls}")
    for k in list(acc.extra):
        if k.startswith("states_after_depth_"):
            acc.extra.pop(k)
    if acc.extra.get("frontier_unexpanded", 0) == 0:
        acc.count("graphs_closed_below_depth_bound")
    acc.sample({"instance": g.lab, "n_var_params": n0, "states": acc.states, "transitions": acc.transitions,
                "alphabet": [nm for nm, _ in g.vectors(n0)]}, cap=1)
    return acc


def replay_case(case):
    acc = Acc()
    g = Graph(case["inst"], case["K"], len(case["hist"]), case["seed"])
    hist = case["hist"]
    with quiet():
        a0 = make_ansatz(case["inst"], hist[0]["ops"])
        if case["inst"]["cls"] in ("QCC", "ILC"):
            g.tau_from = 2 * a0.n_qubits
        st = make_start(g, hist[0])
        g.sg_check(st, hist[:1], acc)
        for i, op in enumerate(hist[1:]):
            st = g.sg_step(st, op, acc, hist[:i + 2])
            g.sg_check(st, hist[:i + 2], acc)
    return acc


def make_start(g, s):
    a = make_ansatz(g.inst, s["ops"])
    a.build_circuit(list(s["vec"]))
    g.nq = max(g.nq, a.circuit.width)
    return St(a, list(s["vec"]), list(s["ops"]))


def bounds(tier, seed):
    K, depth = tier_params(tier)
    insts = instances(tier)
    by = {}
    for i in insts:
        by[i["cls"]] = by.get(i["cls"], 0) + 1
    return {"K": K, "depth": depth, "depth_ADAPT": 3, "instances": len(insts), "instances_by_class": by,
            "alphabet_example_n4": alphabet(4, K, seed), "seed_delta": runner.seed_delta(seed), "tolerance": TOL,
            "wrong_lengths": ["0", "n-1", "n+1"], "entry_points": ["set_var_params", "build_circuit", "update_var_params"],
            "max_states_per_graph": MAX_STATES}


def selftest():
    SV.selftest()
    for n in (1, 2, 3, 9, 34):
        for K in (9, 12):
            vs = alphabet(n, K, 0, tau_from=(16 if n == 34 else 0))
            assert all(len(v) == n for _, v in vs) and len({tuple(v) for _, v in vs}) == len(vs)
            d = dict(vs)
            assert all(x == 0.0 for x in d["zero"]) and all(abs(x) > 1e-3 for x in d["dense"])
            assert sum(1 for x in d["hot-mid"] if x != 0.0) == 1 and max(d["rep-2pi"]) > 2 * PI
            if n > 1:
                assert sum(1 for x in d["dense-one-zero"] if x == 0.0) == 1
            if n == 34:
                assert all(x == 0.0 for x in d["hot-mid"][:16]) and d["dense-one-zero"].index(0.0) >= 16
    assert alphabet(0, 5, 0) == [("empty", [])]
    # the canonical projection ignores the sign of zero and sub-1e-12 noise, and sees a 1e-9 change
    assert _r(-0.0) == 0.0 and repr(_r(-0.0)) == "0.0" and _r(0.1 + 1e-14) == _r(0.1) and _r(0.1 + 1e-9) != _r(0.1)


if __name__ == "__main__":
    runner.main(sys.modules[__name__])
