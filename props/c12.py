"""C12 - Symmetry operators and penalties are exact; default ansaetze conserve them.

E1 (bounded-exhaustive inputs).  Five parts, every one on the real Tangelo code against numpy references:

 (a) sym   number_operator / spinz_operator / spin2_operator as Fock-space matrices (built from the returned
           FermionOperator with the ladder matrices of mc/ref/fermion.py in the matching spin layout) == reference
           N, S_z, S^2 = S_-S_+ + S_z(S_z+1); every one of the 4^n_orbs determinants is an eigenvector of N, S_z with the
           physical eigenvalue; every spin eigenfunction (eigenvector of the reference S^2) is one of Tangelo's S^2.
 (b) sym   every encoding {JW, BK, JKMN, scBK (every parity sector)} x ordering x {ordering done by the mapping, ordering
           done by the operator}: spectrum with multiplicities == reference, and on every encoded determinant
           (get_mapped_vector + vector_to_circuit, simulated by mc/ref/statevec.py) expectation and variance equal the
           reference ones (variance 0 and expectation = eigenvalue for N, S_z).
 (c) comm  molecular Hamiltonians (<= 8 spin-orbitals): [H,N] = [H,S_z] = [H,S^2] = 0 as fermionic operators
           (normal-ordered commutator and dense reference matrices) and as encoded qubit operators (dense).
 (d) pen   the three penalties for every target in the spectrum + two off-spectrum targets x weights {0.5, 3}:
           matrix == mu (O - t)^2, PSD, zero on the target eigenspace, also after every encoding; combined_penalty for every
           subset of keys x weights {0, 0.5, 3} x three target profiles, unknown keys raise.
 (e) cons  Jordan-Wigner, both orderings: UCCSD (closed / open shell), UpCCGSD k=1,2, UCCGD, UCC1/UCC3, pUCCD (pair number),
           ADAPT with the UCCGSD fermionic pool; parameter alphabet one-hot at every position x {a, b}, two-hot at every pair,
           dense (thorough: + swapped two-hot, three-hot for small counts): ||(N-n) psi||, ||(S_z-m) psi|| <= 1e-8 where psi
           comes from the numpy simulator and N, S_z from a Jordan-Wigner transform written here (Z strings).
"""
import contextlib
import io
import itertools
import math
import warnings

import numpy as np
import scipy.sparse as sps

from mc import runner
from mc.runner import Acc
from mc.ref import fermion as F
from mc.ref import pauli as P
from mc.ref import statevec as SV

PID = "C12"
DESIGN_REF = "DESIGN.md section 2 / C12"
ENGINE = "seqspace (exhaustive determinants x orderings x encodings x sectors; penalty targets x weights; catalogue of " \
         "Hamiltonians; ansatz x molecule x ordering x parameter alphabet)"
RULE = ("cases = (a) every (operator, n_orbs, ordering, determinant); (b) every (operator, n_orbs, ordering, encoding, "
        "ordering route, scBK parity sector, determinant); (c) every (Hamiltonian, ordering, operator, level in "
        "{normal-ordered, dense Fock, JW, BK, JKMN, scBK}); (d) every (penalty, n_orbs, ordering, target, weight[, encoding]) "
        "and every (subset of combined_penalty keys, weight assignment in {0,0.5,3}, target profile); (e) every (ansatz, "
        "molecule, ordering, parameter vector of the alphabet). Non-trivial: (a) determinant with a non-zero eigenvalue / "
        "not an S^2 eigenvector; (b) encoding other than JW-interleaved; (c) Hamiltonian with two-body terms; (d) non-zero "
        "penalty matrix (combined: at least two active keys); (e) the prepared state is a genuine superposition "
        "(largest |amplitude|^2 < 1 - 1e-6), i.e. the ansatz moved the reference determinant. distinct = distinct case tuple")
ASSUMPTIONS = [
    "n_orbs <= 3 (quick) / <= 4 (thorough) for operators and penalties; Hamiltonians with <= 8 spin-orbitals from the C04 "
    "catalogue (RHF/ROHF: all three commutators; UHF: only [H,N], [H,S_z] - S^2 built from common spatial orbitals does not "
    "commute with a spin-polarised-orbital Hamiltonian and the statement does not claim it)",
    "scBK: every (n_electrons, spin >= 0) sector admissible for the register; determinants of the matching parity sector",
    "penalty targets: the whole spectrum + two off-spectrum values (seed-perturbed); weights {0.5, 3}; combined_penalty "
    "weights {0, 0.5, 3} (negative weights are outside the documented domain)",
    "penalty targets closer than 1e-8 (but not equal) to a value at which a normal-ordered coefficient vanishes are not in the "
    "alphabet: openfermion deletes coefficients below its EQ_TOLERANCE = 1e-8 (number_operator_penalty(2, 0.5+2e-9) is off by "
    "1.6e-8); physical targets (integers, half-integers, s(s+1)) are never in that window",
    "conservation: only N and S_z are claimed for the ansaetze (not S^2); UCCSD on RHF, ROHF and UHF ('UCCSD-UHF') references; pUCCD: number of pairs in its own HCB encoding; "
    "UCC1/UCC3: the up_then_down=True layout that VQESolver enforces for them (N in both layouts); ADAPT: the default "
    "UCCGSD fermionic pool through ADAPTSolver.build() (the Majorana pools are single Majorana monomials and are not "
    "particle conserving by construction - not claimed), sequences = one operator, two operators (thorough: three for "
    "pools <= 18), whole pool forwards/backwards; every sequence through ADAPTAnsatz(operators=...).build_circuit(params), and "
    "the one-operator, two-operator ((i,i),(i,i+1),(i+1,i),(i,n-1-i) for pools <= 20, else (i,i+1)) and whole-pool (pools <= 20; "
    "thorough: every pool, forwards) "
    "sequences also through add_operator + update_var_params (the path of ADAPTSolver.simulate, quadratic cost: ~60 s for "
    "the 51-operator pool of H4) followed by the final build_circuit",
    "parameter alphabet: one-hot / two-hot / dense (thorough: three-hot for <= 18 parameters, two-hot with swapped values); "
    "generic values a = 0.3+d, b = -1.1-d, d seed-derived; values outside the alphabet are not explored. Two-hot covers "
    "EVERY pair except: ADAPT sequences on pools > 20 operators in the quick tier, restricted to (i,i), (i,i+1), (i+1,i), "
    "(i,n-1-i) (thorough: every ordered pair)",
    "molecule geometry does not enter the ansatz circuits (only orbital/electron counts and spin do); one geometry per "
    "molecule for (e), seed-scaled geometries for (c)",
    "tolerances: 1e-9 on matrices / spectra / expectation values, 1e-10 on normal-ordered commutator coefficients, 1e-8 on "
    "||(N-n) psi|| and ||(S_z-m) psi||",
]
TOL = 1e-9
TOL_NO = 1e-10
TOL_CONS = 1e-8
ENCODINGS = ("JW", "BK", "JKMN", "scBK")
OPS = ("N", "Sz", "S2")
WEIGHTS = (0.5, 3)
PI = math.pi


@contextlib.contextmanager
def quiet():
    """UCCGD._get_qubit_operator prints two lines per call; scBK warns about orderings."""
    with warnings.catch_warnings():
        warnings.simplefilter("ignore")
        with contextlib.redirect_stdout(io.StringIO()):
            yield


def slug(s, n=60):
    return "".join(c if (c.isalnum() or c in "-_.=,+") else "_" for c in str(s))[:n]


def gab(seed):
    d = runner.seed_delta(seed)
    return round(0.3 + d, 6), round(-1.1 - d, 6)


# ---------------------------------------------------------------------------------------------------------------------
# reference side

_LAD = {}
_REF = {}


def lad_sparse(n):
    """Reference ladder matrices (mc/ref/fermion.py) as sparse matrices, cached."""
    t = _LAD.get(n)
    if t is None:
        t = _LAD[n] = {(p, a): sps.csr_matrix(F.ladder_matrix(n, p, a)) for p in range(n) for a in (0, 1)}
    return t


def fop_matrix(n, terms):
    """Dense Fock-space matrix of a FermionOperator-like {term: coeff}: products of the reference ladder matrices."""
    lad = lad_sparse(n)
    dim = 2 ** n
    eye = sps.identity(dim, dtype=complex, format="csr")
    M = sps.csr_matrix((dim, dim), dtype=complex)
    for term, c in terms.items():
        if c == 0:
            continue
        T = eye
        for p, a in term:
            if not 0 <= int(p) < n:
                raise ValueError(f"mode {p} outside a register of {n} modes")
            T = T @ lad[(int(p), int(a))]
        M = M + complex(c) * T
    return np.asarray(M.todense())


def ref_mats(n_orbs, utd):
    k = (n_orbs, utd)
    r = _REF.get(k)
    if r is None:
        n = 2 * n_orbs
        r = _REF[k] = {"N": F.op_matrix(n, F.number_operator(n)), "Sz": F.op_matrix(n, F.sz_operator(n, utd)),
                       "S2": F.op_matrix(n, F.s2_operator(n, utd))}
    return r


def eig_value(opname, occ, utd):
    """Physical eigenvalue of N / S_z on a determinant."""
    na, nb, _ = F.spin_counts(occ, utd)
    return float(na + nb) if opname == "N" else (na - nb) / 2.0


def spectrum_values(R):
    ev = np.round(F.eigvals_hermitian(R), 9)
    return sorted(set(float(x) + 0.0 for x in ev))


def jw_ladder(p, action):
    """a_p = Z_0..Z_{p-1} (X_p + iY_p)/2, a_p^ = Z_0..Z_{p-1} (X_p - iY_p)/2 - written here, not Tangelo's."""
    zs = tuple((q, "Z") for q in range(p))
    s = -1 if action == 1 else 1
    return {zs + ((p, "X"),): 0.5, zs + ((p, "Y"),): s * 0.5j}


def jw_op(op):
    """Jordan-Wigner image of a reference symbolic operator {term: coeff} as a Pauli dict."""
    out = {}
    for term, c in op.items():
        w = P.identity(c)
        for p, a in term:
            w = P.mul(w, jw_ladder(p, a))
        out = P.add(out, w)
    return P.clean(out)


_DIAG = {}


def jw_diagonals(n, utd):
    """Eigenvalue vectors of N and S_z on the computational basis of n JW qubits (qubit 0 = MSB)."""
    k = (n, utd)
    r = _DIAG.get(k)
    if r is None:
        out = []
        for op in (F.number_operator(n), F.sz_operator(n, utd)):
            M = P.matrix(jw_op(op), n)
            d = np.real(np.diag(M)).copy()
            assert np.abs(M - np.diag(np.diag(M))).max() < 1e-12 and np.abs(np.imag(np.diag(M))).max() < 1e-12
            out.append(d)
        r = _DIAG[k] = tuple(out)
    return r


def pair_number_diagonal(nq):
    """N_pairs = sum_q (1 - Z_q)/2 on the hard-core-boson register."""
    op = {}
    for q in range(nq):
        op = P.add(op, {(): 0.5, ((q, "Z"),): -0.5})
    return np.real(np.diag(P.matrix(op, nq))).copy()


# ---------------------------------------------------------------------------------------------------------------------
# Tangelo side

def t_ops():
    from tangelo.toolboxes.ansatz_generator import fermionic_operators as FO
    return {"N": FO.number_operator, "Sz": FO.spinz_operator, "S2": FO.spin2_operator}


def t_pens():
    from tangelo.toolboxes.ansatz_generator import penalty_terms as PT
    return {"N": PT.number_operator_penalty, "Sz": PT.spin_operator_penalty, "S2": PT.spin2_operator_penalty}


PEN_NAME = {"N": "number_operator_penalty", "Sz": "spin_operator_penalty", "S2": "spin2_operator_penalty"}
OP_NAME = {"N": "number_operator", "Sz": "spinz_operator", "S2": "spin2_operator"}
COMB_KEY = {"N": "N", "Sz": "Sz", "S2": "S^2"}


def width(enc, n):
    return n - 2 if enc == "scBK" else n


def encode(fop, enc, n, utd, ne=2, spin=0, route="map"):
    """Encoded operator as a reference Pauli dict.
    route 'map': `fop` is in the default interleaved layout and the mapping does the re-ordering (up_then_down=utd);
    route 'op' : `fop` was already built in the layout `utd` (the up_then_down argument of the operator builders)."""
    from tangelo.toolboxes.qubit_mappings.mapping_transform import fermion_to_qubit_mapping
    from tangelo.toolboxes.qubit_mappings.symmetry_conserving_bravyi_kitaev import symmetry_conserving_bravyi_kitaev
    with quiet():
        if route == "map":
            q = fermion_to_qubit_mapping(fop, enc, n_spinorbitals=n, n_electrons=ne, up_then_down=utd, spin=spin)
        elif enc == "scBK":
            q = symmetry_conserving_bravyi_kitaev(fop, n_spinorbitals=n, n_electrons=ne, up_then_down=utd, spin=spin)
        else:
            q = fermion_to_qubit_mapping(fop, enc, n_spinorbitals=n, n_electrons=ne, up_then_down=False, spin=spin)
    return P.from_terms(q.terms)


_ENCDET = {}


def encoded_determinants(enc, n, utd):
    """For every ket index i of the reference basis (layout utd): index of the computational basis state prepared by
    vector_to_circuit(get_mapped_vector(occupations in Tangelo's interleaved convention, enc, utd)); -1 if the circuit does
    not prepare a basis state."""
    k = (enc, n, utd)
    r = _ENCDET.get(k)
    if r is not None:
        return r
    from tangelo.toolboxes.qubit_mappings.statevector_mapping import get_mapped_vector, vector_to_circuit
    nq = width(enc, n)
    J = np.zeros(2 ** n, dtype=int)
    for i in range(2 ** n):
        occ = F.occ_of(i, n)
        vec = np.zeros(n, dtype=int)
        for p in range(n):
            so, sp = F.spatial_spin_of(p, n, utd)
            vec[2 * so + sp] = occ[p]
        with quiet():
            mv = get_mapped_vector(vec, enc, utd)
            if nq == 0:
                J[i] = 0 if len(mv) == 0 else -1
                continue
            circ = vector_to_circuit(mv)
        if circ.width != nq:
            J[i] = -1
            continue
        psi = SV.run([SV.desc(g) for g in circ._gates], nq)
        j = int(np.argmax(np.abs(psi)))
        J[i] = j if abs(abs(psi[j]) - 1) < 1e-12 else -1
    _ENCDET[k] = J
    return J


def scbk_sectors(n_orbs):
    out = []
    for ne in range(0, 2 * n_orbs + 1):
        for sp in range(0, n_orbs + 1):
            if (ne + sp) % 2:
                continue
            na, nb = (ne + sp) // 2, (ne - sp) // 2
            if 0 <= nb <= na <= n_orbs:
                out.append((ne, sp))
    return out


def represented(enc, n, utd, ne, spin):
    if enc != "scBK":
        return list(range(2 ** n))
    na = (ne + spin) // 2
    return F.sector_indices(n, utd, parity_elec=ne % 2, parity_alpha=na % 2)


# ---------------------------------------------------------------------------------------------------------------------
# checks shared by (b) and (d): an encoded operator against a reference Fock matrix

class Cx:
    def __init__(self, acc, unit):
        self.acc, self.unit = acc, unit

    def bad(self, site, kind, sig, detail=None, **extra):
        key = f"{site}/{kind}/{slug(sig)}"
        case = dict(self.unit, focus=f"{site}/{kind}", want=key, **extra)
        self.acc.violation(key, case, detail, group=f"{site}/{kind}")


def check_encoded(cx, site, sig, qop, R, enc, n, utd, ne, spin, nt_key):
    """spectrum with multiplicities; expectation and variance on every encoded determinant of the represented sector."""
    acc = cx.acc
    nq = width(enc, n)
    idx = represented(enc, n, utd, ne, spin)
    acc.ev()
    try:
        M = P.matrix(qop, nq) if nq > 0 else np.array([[sum(qop.values())]], dtype=complex)
        if nq == 0 and any(w != () for w in qop):
            raise ValueError("Pauli word on an empty register")
    except ValueError as e:
        cx.bad(site, "acts-outside-register", sig, {"err": repr(e)[:200]})
        return
    if np.abs(M - M.conj().T).max() > TOL:
        cx.bad(site, "not-hermitian", sig, {"max": float(np.abs(M - M.conj().T).max())})
        return
    Rs = F.restrict(R, idx)
    if Rs.shape != M.shape:
        cx.bad(site, "dimension", sig, {"encoded": M.shape[0], "sector": Rs.shape[0]})
        return
    sd = F.spectrum_distance(np.linalg.eigvalsh(M), np.linalg.eigvalsh(Rs))
    if not sd <= TOL:
        cx.bad(site, "spectrum", sig, {"distance": sd, "encoded": np.round(np.linalg.eigvalsh(M), 6)[:16],
                                       "reference": np.round(np.linalg.eigvalsh(Rs), 6)[:16]})
    J = encoded_determinants(enc, n, utd)[idx]
    acc.ev()
    if (J < 0).any() or len(set(J.tolist())) != len(idx) or (len(idx) and J.max() >= M.shape[0]):
        cx.bad(site, "encoded-determinants-not-distinct-basis-states", sig, {"J": J[:16]})
        return
    e_enc = np.real(np.diag(M))[J]
    v_enc = (np.abs(M) ** 2).sum(axis=0)[J] - e_enc ** 2
    e_ref = np.real(np.diag(R))[idx]
    v_ref = (np.abs(R) ** 2).sum(axis=0)[idx] - e_ref ** 2
    acc.ev(len(idx))
    acc.states += len(idx)
    de = np.abs(e_enc - e_ref)
    dv = np.abs(v_enc - v_ref)
    if de.max() > TOL:
        w = int(np.argmax(de))
        cx.bad(site, "determinant-expectation", sig, {"determinant": F.occ_of(idx[w], n), "encoded": float(e_enc[w]),
                                                      "reference": float(e_ref[w])})
    if dv.max() > 1e-8:
        w = int(np.argmax(dv))
        cx.bad(site, "determinant-variance", sig, {"determinant": F.occ_of(idx[w], n), "encoded": float(v_enc[w]),
                                                   "reference": float(v_ref[w])})
    if nt_key is not None:
        acc.nt(nt_key)
    acc.out((site.split("@")[0], tuple(np.round(np.linalg.eigvalsh(M), 6)[:8])))


# ---------------------------------------------------------------------------------------------------------------------
# (a) + (b)

def run_sym(acc, unit):
    n_orbs, utd = unit["n_orbs"], unit["utd"]
    n = 2 * n_orbs
    cx = Cx(acc, unit)
    ops = t_ops()
    refs = ref_mats(n_orbs, utd)
    for name in OPS:
        site = OP_NAME[name]
        sig = f"n_orbs={n_orbs},utd={utd}"
        R = refs[name]
        # ---- (a) fermionic level
        acc.ev()
        acc.transitions += 1
        try:
            with quiet():
                fop = ops[name](n_orbs, utd)
            M = fop_matrix(n, fop.terms)
        except Exception as e:
            cx.bad(site, "exception", sig, {"err": repr(e)[:300]})
            continue
        d = float(np.abs(M - R).max())
        if d > TOL:
            cx.bad(site, "matrix-differs-from-reference", sig, {"max_abs_diff": d, "n_terms": len(fop.terms)})
        for i, occ in enumerate(F.occupations(n)):
            acc.states += 1
            acc.ev()
            col = M[:, i]
            if name in ("N", "Sz"):
                lam = eig_value(name, occ, utd)
                exp = np.zeros(2 ** n, dtype=complex)
                exp[i] = lam
                if np.abs(col - exp).max() > TOL:
                    cx.bad(site, "determinant-not-eigenvector-with-physical-eigenvalue", sig,
                           {"determinant": occ, "expected": lam, "diagonal": complex(col[i]),
                            "off_diagonal": float(np.abs(np.delete(col, i)).max()) if n else 0.0})
                if lam != 0:
                    acc.nt(("a", name, n_orbs, utd, i))
                acc.out((name, lam))
            else:
                if np.abs(col - R[:, i]).max() > TOL:
                    cx.bad(site, "action-on-determinant", sig, {"determinant": occ, "diff": float(np.abs(col - R[:, i]).max())})
                if np.abs(np.delete(R[:, i], i)).max() > 0.1:     # the determinant is not a spin eigenfunction
                    acc.nt(("a", name, n_orbs, utd, i))
                acc.out((name, round(float(np.real(R[i, i])), 6)))
        if name == "S2":
            # every spin eigenfunction (eigenvector of the reference S^2) is an eigenvector with s(s+1)
            w, V = np.linalg.eigh(R)
            acc.ev(len(w))
            res = np.abs(M @ V - V * w[None, :]).max()
            if res > TOL:
                cx.bad(site, "spin-eigenfunction-not-eigenvector", sig, {"residual": float(res)})
            for x in w:
                s = (-1 + math.sqrt(1 + 4 * max(x, 0))) / 2
                assert abs(2 * s - round(2 * s)) < 1e-7, ("reference S^2 eigenvalue is not s(s+1)", x)
        # ---- (b) encodings
        with quiet():
            fop_il = ops[name](n_orbs, False)
        for enc in ENCODINGS:
            sectors = scbk_sectors(n_orbs) if enc == "scBK" else [(2, 0)]
            routes = ("map", "op") if utd else ("map",)
            for route in routes:
                for ne, sp in sectors:
                    esite = f"{site}@{enc}"
                    esig = f"n_orbs={n_orbs},utd={utd},route={route}" + (f",ne={ne},spin={sp}" if enc == "scBK" else "")
                    acc.transitions += 1
                    try:
                        q = encode(fop_il if route == "map" else fop, enc, n, utd, ne, sp, route)
                    except Exception as e:
                        acc.ev()
                        cx.bad(esite, "exception", esig, {"err": repr(e)[:300]})
                        continue
                    nt = ("b", name, n_orbs, utd, enc, route, ne, sp) if (enc != "JW" or utd) else None
                    check_encoded(cx, esite, esig, q, R, enc, n, utd, ne, sp, nt)
    acc.sample({"part": "a+b", "n_orbs": n_orbs, "up_then_down": utd, "operators": list(OPS), "encodings": list(ENCODINGS),
                "determinants": 4 ** n_orbs}, cap=2)


# ---------------------------------------------------------------------------------------------------------------------
# (d) penalties

def off_targets(spec, seed):
    d = runner.seed_delta(seed)
    out = []
    for x in (0.37 + d, -1.23 - d):
        while any(abs(x - s) < 1e-3 for s in spec):
            x += 0.0137
        out.append(round(x, 6))
    return out


def as_arg(t):
    return int(round(t)) if abs(t - round(t)) < 1e-12 else float(t)


def check_penalty_matrix(cx, site, sig, M, R_list, extra=None):
    """M vs sum_k mu_k (O_k - t_k)^2 with R_list = [(R_k, t_k, mu_k)]: equality, PSD, zero on the (joint) target eigenspace."""
    acc = cx.acc
    dim = M.shape[0]
    E = np.zeros((dim, dim), dtype=complex)
    for R, t, mu in R_list:
        A = R - t * np.eye(dim)
        E = E + mu * (A @ A)
    acc.ev()
    d = float(np.abs(M - E).max())
    if d > TOL:
        cx.bad(site, "matrix-differs-from-mu(O-t)^2", sig, {"max_abs_diff": d}, **(extra or {}))
    acc.ev()
    if np.abs(M - M.conj().T).max() > TOL:
        cx.bad(site, "not-hermitian", sig, None, **(extra or {}))
        return E
    lo = float(np.linalg.eigvalsh((M + M.conj().T) / 2).min())
    if lo < -TOL:
        cx.bad(site, "not-positive-semidefinite", sig, {"min_eigenvalue": lo}, **(extra or {}))
    # joint target eigenspace computed from the REFERENCE operators
    w, V = np.linalg.eigh(E)
    K = V[:, np.abs(w) < 1e-9]
    if K.shape[1]:
        acc.ev()
        r = float(np.abs(M @ K).max())
        if r > TOL:
            cx.bad(site, "nonzero-on-target-sector", sig, {"residual": r, "sector_dim": int(K.shape[1])}, **(extra or {}))
    acc.out((site, round(lo, 6), int(K.shape[1])))
    return E


def run_pen(acc, unit):
    n_orbs, utd, name, seed = unit["n_orbs"], unit["utd"], unit["op"], unit["seed"]
    n = 2 * n_orbs
    cx = Cx(acc, unit)
    R = ref_mats(n_orbs, utd)[name]
    spec = spectrum_values(R)
    targets = [(t, True) for t in spec] + [(t, False) for t in off_targets(spec, seed)]
    fn = t_pens()[name]
    site = PEN_NAME[name]
    for (t, inspec), mu in itertools.product(targets, WEIGHTS):
        sig = f"n_orbs={n_orbs},utd={utd},target={t:g},mu={mu:g}"
        acc.states += 1
        acc.transitions += 1
        try:
            with quiet():
                pen = fn(n_orbs, as_arg(t), mu, utd)
            M = fop_matrix(n, pen.terms)
        except Exception as e:
            acc.ev()
            cx.bad(site, "exception", sig, {"err": repr(e)[:300]})
            continue
        E = check_penalty_matrix(cx, site, sig, M, [(R, t, mu)])
        if inspec and name in ("N", "Sz"):
            # restriction to the target sector (determinants with eigenvalue t) is exactly zero
            idx = [i for i, occ in enumerate(F.occupations(n)) if abs(eig_value(name, occ, utd) - t) < 1e-12]
            acc.ev()
            if idx and np.abs(M[np.ix_(idx, idx)]).max() > TOL:
                cx.bad(site, "nonzero-on-target-sector", sig, {"max": float(np.abs(M[np.ix_(idx, idx)]).max())})
        if np.abs(E).max() > 1e-12:
            acc.nt(("d", name, n_orbs, utd, t, mu))
        # encoded penalties
        with quiet():
            pen_il = fn(n_orbs, as_arg(t), mu, False)
        for enc in ENCODINGS:
            for ne, sp in (scbk_sectors(n_orbs) if enc == "scBK" else [(2, 0)]):
                esite = f"{site}@{enc}"
                esig = sig + (f",ne={ne},spin={sp}" if enc == "scBK" else "")
                acc.transitions += 1
                try:
                    q = encode(pen_il, enc, n, utd, ne, sp, "map")
                except Exception as e:
                    acc.ev()
                    cx.bad(esite, "exception", esig, {"err": repr(e)[:300]})
                    continue
                check_encoded(cx, esite, esig, q, E, enc, n, utd, ne, sp, ("d", name, n_orbs, utd, t, mu, enc, ne, sp))
    acc.sample({"part": "d", "penalty": site, "n_orbs": n_orbs, "up_then_down": utd, "targets": [t for t, _ in targets],
                "weights": list(WEIGHTS)}, cap=1)


def profiles(n_orbs, seed):
    off = off_targets([0, 0.5, 0.75, 1, 2, 3, 3.75, 4, 5, 6], seed)
    return {"closed": {"N": min(2, 2 * n_orbs), "Sz": 0, "S2": 0},
            "doublet": {"N": 1, "Sz": 0.5, "S2": 0.75},
            "off": {"N": off[0], "Sz": off[1], "S2": off[0] + 0.2}}


def run_comb(acc, unit):
    from tangelo.toolboxes.ansatz_generator.penalty_terms import combined_penalty
    n_orbs, utd, seed = unit["n_orbs"], unit["utd"], unit["seed"]
    n = 2 * n_orbs
    cx = Cx(acc, unit)
    refs = ref_mats(n_orbs, utd)
    site = "combined_penalty"
    for pname, prof in profiles(n_orbs, seed).items():
        for r in range(0, 4):
            for keys in itertools.combinations(OPS, r):
                for ws in itertools.product((0, 0.5, 3), repeat=len(keys)):
                    opt = {COMB_KEY[k]: [w, as_arg(prof[k])] for k, w in zip(keys, ws)}
                    sig = f"n_orbs={n_orbs},utd={utd},profile={pname}," + "+".join(f"{COMB_KEY[k]}:{w:g}" for k, w in zip(keys, ws))
                    acc.states += 1
                    acc.transitions += 1
                    try:
                        with quiet():
                            pen = combined_penalty(n_orbs, opt, utd)
                        M = fop_matrix(n, pen.terms)
                    except Exception as e:
                        acc.ev()
                        cx.bad(site, "exception", sig, {"err": repr(e)[:300]})
                        continue
                    lst = [(refs[k], prof[k], w) for k, w in zip(keys, ws) if w > 0]   # zero weights are ignored
                    E = check_penalty_matrix(cx, site, sig, M, lst, extra={"opt": opt})
                    if np.abs(E).max() > 1e-12 and len(lst) >= 2:
                        acc.nt(("comb", n_orbs, utd, pname, keys, ws))
    # no options: empty operator
    for opt in (None, {}):
        acc.ev()
        try:
            with quiet():
                pen = combined_penalty(n_orbs, opt, utd)
            if len(pen.terms) and np.abs(fop_matrix(n, pen.terms)).max() > TOL:
                cx.bad(site, "no-options-gives-nonzero-operator", f"opt={opt}", None)
        except Exception as e:
            cx.bad(site, "exception", f"opt={opt}", {"err": repr(e)[:300]})
    # unknown keys raise KeyError, alone and next to a valid key
    for key in ("S2", "n", "sz", "Sz ", "N2", "", "S^2 ", "s^2"):
        for opt in ({key: [1.0, 0]}, {"N": [1.0, 2], key: [1.0, 0]}, {key: [0, 0]}):
            acc.ev()
            acc.states += 1
            try:
                with quiet():
                    combined_penalty(n_orbs, opt, utd)
            except KeyError:
                continue
            except Exception as e:
                cx.bad(site, "unknown-key-wrong-exception", f"key={key!r}", {"err": repr(e)[:200]}, opt=opt)
                continue
            cx.bad(site, "unknown-key-accepted", f"key={key!r}", None, opt=opt)
    acc.sample({"part": "d/combined", "n_orbs": n_orbs, "up_then_down": utd, "profiles": profiles(n_orbs, seed)}, cap=1)


# ---------------------------------------------------------------------------------------------------------------------
# molecules

def _chain(k, d):
    return [("H", (0.0, 0.0, i * d)) for i in range(k)]


GEOMS = {
    "H2": _chain(2, 0.74),
    "H3": [("H", (0.0, 0.0, 0.0)), ("H", (0.0, 0.0, 0.93)), ("H", (0.0, 0.25, 1.90))],
    "H3+": [("H", (0.0, 0.0, 0.0)), ("H", (0.0, 0.0, 0.88)), ("H", (0.0, 0.79, 0.40))],
    "H4": [("H", (0.0, 0.0, 0.0)), ("H", (0.0, 0.0, 0.85)), ("H", (0.0, 0.0, 1.80)), ("H", (0.0, 0.0, 2.70))],
    "H4rect": [("H", (0.0, 0.0, 0.0)), ("H", (0.0, 0.0, 0.80)), ("H", (0.0, 1.25, 0.0)), ("H", (0.0, 1.25, 0.80))],
    "LiH": [("Li", (0.0, 0.0, 0.0)), ("H", (0.0, 0.0, 1.60))],
}
# name -> (geometry, charge, spin, basis, frozen orbitals, (scale geometry 0, scale geometry 1))
MOLS = {
    "H2": ("H2", 0, 0, "sto-3g", None, (1.0, 1.9)),
    "H2_631g": ("H2", 0, 0, "6-31g", None, (1.0, 1.9)),
    "H3+": ("H3+", 1, 0, "sto-3g", None, (1.0, 1.7)),
    "H3": ("H3", 0, 1, "sto-3g", None, (1.0, 1.6)),
    "H3-": ("H3", -1, 0, "sto-3g", None, (1.0, 1.6)),
    "H4": ("H4", 0, 0, "sto-3g", None, (1.0, 1.8)),
    "H4+": ("H4", 1, 1, "sto-3g", None, (1.0, 1.8)),
    "H4rect": ("H4rect", 0, 0, "sto-3g", None, (1.0, 1.7)),
    "H4triplet": ("H4", 0, 2, "sto-3g", None, (1.0, 1.6)),
    "LiH_f045": ("LiH", 0, 0, "sto-3g", [0, 4, 5], (1.0, 1.8)),
    "LiH_f034": ("LiH", 0, 0, "sto-3g", [0, 3, 4], (1.0, 1.8)),
    "LiH_f03": ("LiH", 0, 0, "sto-3g", [0, 3], (1.0, 1.8)),
    "LiH_f23": ("LiH", 0, 0, "sto-3g", [2, 3], (1.0, 1.8)),
}
_MOLC = {}


def molecule(name, gi, seed, uhf=False):
    k = (name, gi, seed, uhf)
    m = _MOLC.get(k)
    if m is None:
        from tangelo import SecondQuantizedMolecule
        g, q, spin, basis, frozen, scales = MOLS[name]
        s = scales[gi] * (1.0 + 0.05 * runner.seed_delta(seed))
        xyz = [(el, tuple(round(s * x, 10) for x in c)) for el, c in GEOMS[g]]
        if uhf and isinstance(frozen, list):
            frozen = [list(frozen), list(frozen)]          # UHF: one list per spin
        with quiet():
            m = SecondQuantizedMolecule(xyz, q, spin, basis=basis, frozen_orbitals=frozen, uhf=uhf)
        _MOLC[k] = m
    return m


# ---------------------------------------------------------------------------------------------------------------------
# (c) commutation

def run_comm(acc, unit):
    from tangelo.toolboxes.operators import normal_ordered
    from tangelo.toolboxes.qubit_mappings.mapping_transform import make_up_then_down
    name, gi, seed, uhf = unit["mol"], unit["gi"], unit["seed"], unit["uhf"]
    cx = Cx(acc, unit)
    mol = molecule(name, gi, seed, uhf)
    with quiet():
        H = mol.fermionic_hamiltonian
    n = int(mol.n_active_sos)
    ne, spin = int(mol.n_active_electrons), int(mol.active_spin)
    if n > 8 or n % 2:
        raise RuntimeError(f"catalogue entry {name} has {n} spin-orbitals")
    n_orbs = n // 2
    two_body = sum(1 for t in H.terms if len(t) == 4)
    ops = t_ops()
    opnames = ("N", "Sz") if uhf else OPS
    acc.states += 1
    for utd in (False, True):
        with quiet():
            Hf = make_up_then_down(H, n) if utd else H
        MH = fop_matrix(n, Hf.terms)
        refs = ref_mats(n_orbs, utd)
        qH = {}
        for enc in ENCODINGS:
            try:
                qH[enc] = P.matrix(encode(H, enc, n, utd, ne, spin, "map"), width(enc, n))
            except Exception as e:
                acc.ev()
                cx.bad(f"hamiltonian@{enc}", "exception", f"{name},utd={utd}", {"err": repr(e)[:300]})
        for oname in opnames:
            lab = {"N": "N", "Sz": "S_z", "S2": "S^2"}[oname]
            site = f"commutator[H,{lab}]"
            sig = f"{name}{'(UHF)' if uhf else ''},utd={utd}"
            with quiet():
                O = ops[oname](n_orbs, utd)
                O_il = ops[oname](n_orbs, False)
            acc.transitions += 1
            # fermionic, normal-ordered commutator.  [H,O] = sum_h c_h [h,O]: Tangelo's normal_ordered is applied to h*O and O*h
            # for every monomial h of H (unit coefficient) and the results are accumulated here in a plain dict.  (Normal
            # ordering H*O - O*H in one go is NOT exact: openfermion deletes every partial sum that falls below 1e-8 while it
            # accumulates, which leaves residues of that size in a commutator that is zero to 1e-15.)
            acc.ev()
            try:
                from openfermion import FermionOperator as ofFermionOperator
                with quiet():
                    Oo = O.to_openfermion()
                    C = {}
                    for h, ch in Hf.terms.items():
                        mono = ofFermionOperator(h, 1.0)
                        for prod, sgn in ((mono * Oo, 1.0), (Oo * mono, -1.0)):
                            for t, v in normal_ordered(prod).terms.items():
                                C[t] = C.get(t, 0.0) + sgn * ch * v
                big = max([abs(v) for v in C.values()] + [0.0])
                if big > TOL_NO:
                    t = max(C, key=lambda k: abs(C[k]))
                    cx.bad(site, "fermionic-normal-ordered-nonzero", sig, {"largest_term": str(t), "coeff": complex(C[t])})
            except Exception as e:
                cx.bad(site, "exception", sig, {"err": repr(e)[:300]})
            # fermionic, dense reference matrices; the operator matrix equals the reference (part (a) at this size)
            acc.ev(2)
            MO = fop_matrix(n, O.terms)
            if np.abs(MO - refs[oname]).max() > TOL:
                cx.bad(OP_NAME[oname], "matrix-differs-from-reference", f"n_orbs={n_orbs},utd={utd}",
                       {"max_abs_diff": float(np.abs(MO - refs[oname]).max())})
            c = float(np.abs(MH @ refs[oname] - refs[oname] @ MH).max())
            if c > TOL:
                cx.bad(site, "fermionic-dense-nonzero", sig, {"max_abs": c})
            acc.out((name, oname, utd, round(c, 12)))
            # encoded
            for enc in ENCODINGS:
                if enc not in qH:
                    continue
                acc.ev()
                try:
                    qO = P.matrix(encode(O_il, enc, n, utd, ne, spin, "map"), width(enc, n))
                except Exception as e:
                    cx.bad(f"{site}@{enc}", "exception", sig, {"err": repr(e)[:300]})
                    continue
                c = float(np.abs(qH[enc] @ qO - qO @ qH[enc]).max())
                if c > TOL:
                    cx.bad(f"{site}@{enc}", "encoded-nonzero", sig, {"max_abs": c})
                if two_body and oname != "N":
                    acc.nt(("c", name, gi, uhf, utd, oname, enc))
            if two_body:
                acc.nt(("c", name, gi, uhf, utd, oname, "fermionic"))
    acc.sample({"part": "c", "molecule": name, "geometry": gi, "uhf": uhf, "n_spinorbitals": n, "hamiltonian_terms": len(H.terms),
                "operators": list(opnames)}, cap=2)


# ---------------------------------------------------------------------------------------------------------------------
# (e) conservation

ANSATZE = ("UCCSD", "UCCSD-UHF", "UpCCGSD1", "UpCCGSD2", "UCCGD", "pUCCD", "ADAPT")
UHF_MOLS = {"quick": ("H2", "H3"), "thorough": ("H2", "H3", "H4triplet", "H4+")}
RUCC_ANGLES = ("0", "a", "b", "pi/2", "pi", "2pi+0.61")


def make_ansatz(kind, mol, utd):
    from tangelo.toolboxes.ansatz_generator import UCCSD, UpCCGSD, UCCGD, RUCC, pUCCD
    if kind in ("UCCSD", "UCCSD-UHF"):
        return UCCSD(mol, "JW", utd)
    if kind == "UpCCGSD1":
        return UpCCGSD(mol, "JW", utd, k=1)
    if kind == "UpCCGSD2":
        return UpCCGSD(mol, "JW", utd, k=2)
    if kind == "UCCGD":
        return UCCGD(mol, "JW", utd)
    if kind == "pUCCD":
        return pUCCD(mol)
    if kind == "UCC1":
        return RUCC(1)
    if kind == "UCC3":
        return RUCC(3)
    raise KeyError(kind)


def dense_vectors(k, a, b):
    A = [a if i % 2 == 0 else b for i in range(k)]
    B = [round(((-1) ** i) * (0.21 + 0.13 * i) + 0.1 * a, 6) for i in range(k)]
    return A, B


def param_cases(k, tier, seed):
    """The parameter alphabet for an ansatz with k parameters: list of (label, vector)."""
    a, b = gab(seed)
    out = []

    def vec(pairs):
        v = [0.0] * k
        for i, x in pairs:
            v[i] = x
        return v
    for i in range(k):
        for x in (a, b):
            out.append(("one-hot", vec([(i, x)])))
    for i, j in itertools.combinations(range(k), 2):
        out.append(("two-hot", vec([(i, a), (j, b)])))
        if tier == "thorough":
            out.append(("two-hot", vec([(i, b), (j, a)])))
    if tier == "thorough" and k <= 18:
        for i, j, l in itertools.combinations(range(k), 3):
            out.append(("three-hot", vec([(i, a), (j, b), (l, 0.7)])))
    if k:
        A, B = dense_vectors(k, a, b)
        out.append(("dense", A))
        out.append(("dense", B))
    return out


def restricted_pairs(npool):
    s = set()
    for i in range(npool):
        s.add((i, i))
        s.add((i, npool - 1 - i))
        if i + 1 < npool:
            s.add((i, i + 1))
            s.add((i + 1, i))
    return s


def adapt_cases(npool, tier, seed):
    """Operator sequences for ADAPT: list of (label, sequence of pool indices, parameters, incremental path too?).
    Every sequence is run through the restart path ADAPTAnsatz(operators=...).build_circuit(params); the sequences flagged
    True are ALSO grown with add_operator + update_var_params (the path ADAPTSolver.simulate takes; its cost is quadratic in
    the circuit size, hence the restriction)."""
    a, b = gab(seed)
    out = []
    for i in range(npool):
        for x in (a, b):
            out.append(("one-op", [i], [x], True))
    rp = restricted_pairs(npool)
    if tier == "thorough" or npool <= 20:
        pairs = list(itertools.product(range(npool), repeat=2))
    else:
        pairs = sorted(rp)
    for i, j in pairs:
        out.append(("two-ops", [i, j], [a, b], ((i, j) in rp) if npool <= 20 else (j == i + 1)))
    if tier == "thorough" and npool <= 18:
        for i, j, l in itertools.product(range(npool), repeat=3):
            out.append(("three-ops", [i, j, l], [a, b, 0.7], False))
    A, B = dense_vectors(npool, a, b)
    fwd = list(range(npool))
    for seq in (fwd, fwd[::-1]):
        for v in (A, B):
            out.append(("whole-pool", seq, v, (v is A) and (npool <= 20 or (tier == "thorough" and seq is fwd))))
    return out


def snapshot(circ):
    return [SV.desc(g) for g in circ._gates], int(circ.width)


def check_state(cx, site, sig, circ, nq, diags, targets, labels, case, nt_key):
    """||(O - target) psi|| <= TOL_CONS for each diagonal operator; psi from the numpy reference simulator.
    `circ` is a Tangelo circuit or a snapshot (gate descriptors, width) of one."""
    acc = cx.acc
    acc.ev()
    gates, w = circ if isinstance(circ, tuple) else snapshot(circ)
    if w > nq:
        cx.bad(site, "circuit-wider-than-register", sig, {"width": w, "expected": nq}, **case)
        return
    try:
        psi = SV.run(gates, nq)
    except KeyError as e:
        cx.bad(site, "unknown-gate", sig, {"err": repr(e)}, **case)
        return
    if abs(np.linalg.norm(psi) - 1) > 1e-9:
        raise RuntimeError("reference simulator lost the norm")
    for d, t, lab in zip(diags, targets, labels):
        acc.ev()
        r = float(np.linalg.norm((d - t) * psi))
        if not r <= TOL_CONS:
            p = np.abs(psi) ** 2
            vals = sorted({round(float(x), 6) for x, w in zip(d, p) if w > 1e-12})
            cx.bad(site, f"{lab}-not-conserved", sig, {"norm_of_(O-target)psi": r, "target": t, "values_with_weight": vals,
                                                      "expectation": float((d * p).sum())}, **case)
    pmax = float((np.abs(psi) ** 2).max())
    if pmax < 1 - 1e-6:
        acc.nt(nt_key)
    acc.out((site, round(pmax, 5)))


def run_cons(acc, unit):
    kind, mname, utd, tier, seed = unit["ansatz"], unit["mol"], unit["utd"], unit["tier"], unit["seed"]
    part, nparts = unit.get("part", 0), unit.get("nparts", 1)
    cx = Cx(acc, unit)
    only = unit.get("only")       # replay: one case
    a, b = gab(seed)

    if kind in ("UCC1", "UCC3"):
        k = 1 if kind == "UCC1" else 3
        val = {"0": 0.0, "a": a, "b": b, "pi/2": PI / 2, "pi": PI, "2pi+0.61": 2 * PI + 0.61}
        cases = [("grid", [val[x] for x in combo]) for combo in itertools.product(RUCC_ANGLES, repeat=k)]
        Nd, Sd = jw_diagonals(4, True)
        for ci, (lab, p) in enumerate(cases):
            if only is not None and p != only["params"]:
                continue
            if only is None and ci % nparts != part:
                continue
            acc.states += 1
            acc.transitions += 1
            case = {"only": {"params": p}}
            sig = f"{lab}"
            try:
                with quiet():
                    ans = make_ansatz(kind, None, True)
                    ans.build_circuit(list(p))
            except Exception as e:
                acc.ev()
                cx.bad(kind, "exception", sig, {"err": repr(e)[:300]}, **case)
                continue
            check_state(cx, kind, sig, ans.circuit, 4, (Nd, Sd), (2.0, 0.0), ("N", "S_z"), case, ("e", kind, tuple(p)))
        acc.sample({"part": "e", "ansatz": kind, "layout": "up_then_down=True (enforced by VQESolver)", "angles": val}, cap=1)
        return

    mol = molecule(mname, 0, seed, uhf=(kind == "UCCSD-UHF"))
    n = int(mol.n_active_sos)
    ne, spin = int(mol.n_active_electrons), int(mol.active_spin)

    if kind == "pUCCD":
        nq = n // 2
        with quiet():
            k = make_ansatz(kind, mol, utd).n_var_params
        Pd = pair_number_diagonal(nq)
        cases = param_cases(k, tier, seed)
        for ci, (lab, p) in enumerate(cases):
            if only is not None and p != only["params"]:
                continue
            if only is None and ci % nparts != part:
                continue
            acc.states += 1
            acc.transitions += 1
            case = {"only": {"params": p}}
            sig = f"{mname},{lab}"
            try:
                with quiet():
                    ans = make_ansatz(kind, mol, utd)
                    ans.build_circuit(list(p))
            except Exception as e:
                acc.ev()
                cx.bad(kind, "exception", sig, {"err": repr(e)[:300]}, **case)
                continue
            check_state(cx, kind, sig, ans.circuit, nq, (Pd,), (ne / 2.0,), ("N_pairs",), case, ("e", kind, mname, tuple(p)))
        acc.sample({"part": "e", "ansatz": kind, "molecule": mname, "n_params": k, "n_cases": len(cases)}, cap=1)
        return

    Nd, Sd = jw_diagonals(n, utd)
    targets = (float(ne), spin / 2.0)

    if kind == "ADAPT":
        from tangelo.algorithms.variational import ADAPTSolver
        from tangelo.toolboxes.ansatz_generator.adapt_ansatz import ADAPTAnsatz
        from tangelo.toolboxes.ansatz_generator._general_unitary_cc import get_singles_number, get_doubles_number
        # explicit unit coefficients instead of the default np.random.random ones: ADAPTSolver.build() keeps only the signs
        pool_args = {"n_qubits": n, "single_coeffs": np.ones(get_singles_number(n // 2)),
                     "double_coeffs": np.ones(get_doubles_number(n // 2))}
        with quiet():
            solver = ADAPTSolver({"molecule": mol, "up_then_down": utd, "pool_args": pool_args})
            solver.build()
        pool, fpool = solver.pool_operators, solver.fermionic_operators
        cases = adapt_cases(len(pool), tier, seed)
        for ci, (lab, seq, p, incremental) in enumerate(cases):
            if only is not None and (seq != only["seq"] or p != only["params"]):
                continue
            if only is None and ci % nparts != part:
                continue
            acc.states += 1
            acc.transitions += len(seq)
            case = {"only": {"seq": seq, "params": p}}
            sig = f"{mname},utd={utd},{lab}"
            key = ("e", kind, mname, utd, tuple(seq), tuple(p))
            # restart path: the operators handed to the constructor, circuit built with the parameters
            try:
                with quiet():
                    ans = ADAPTAnsatz(n, ne, spin, {"mapping": "jw", "up_then_down": utd, "operators": [pool[i] for i in seq],
                                                    "ferm_operators": [fpool[i] for i in seq]})
                    ans.build_circuit(list(p))
                check_state(cx, "ADAPT(build_circuit)", sig, ans.circuit, n, (Nd, Sd), targets, ("N", "S_z"), case, key)
            except Exception as e:
                acc.ev()
                cx.bad("ADAPT(build_circuit)", "exception", sig, {"err": repr(e)[:300]}, **case)
            if not incremental:
                continue
            # incremental path of ADAPTSolver.simulate: add_operator one by one, then update_var_params; and the final rebuild
            try:
                with quiet():
                    ans = ADAPTAnsatz(n, ne, spin, {"mapping": "jw", "up_then_down": utd})
                    ans.build_circuit()
                    for i in seq:
                        ans.add_operator(pool[i], fpool[i])
                    ans.set_var_params(list(p))
                    ans.update_var_params(list(p))
                    c1 = snapshot(ans.circuit)
                    ans.build_circuit(list(p))
                    c2 = snapshot(ans.circuit)
            except Exception as e:
                acc.ev()
                cx.bad("ADAPT(add_operator+update_var_params)", "exception", sig, {"err": repr(e)[:300]}, **case)
                continue
            acc.count("adapt_incremental_sequences")
            check_state(cx, "ADAPT(add_operator+update_var_params)", sig, c1, n, (Nd, Sd), targets, ("N", "S_z"), case, key)
            check_state(cx, "ADAPT(add_operator+build_circuit)", sig, c2, n, (Nd, Sd), targets, ("N", "S_z"), case, key)
        acc.sample({"part": "e", "ansatz": "ADAPT/uccgsd pool", "molecule": mname, "up_then_down": utd, "pool_size": len(pool),
                    "n_sequences": len(cases)}, cap=1)
        return

    with quiet():
        k = make_ansatz(kind, mol, utd).n_var_params
    cases = param_cases(k, tier, seed)
    for ci, (lab, p) in enumerate(cases):
        if only is not None and p != only["params"]:
            continue
        if only is None and ci % nparts != part:
            continue
        acc.states += 1
        acc.transitions += 1
        case = {"only": {"params": p}}
        sig = f"{mname},utd={utd},{lab}"
        try:
            with quiet():
                ans = make_ansatz(kind, mol, utd)
                ans.build_circuit(list(p))
        except Exception as e:
            acc.ev()
            cx.bad(kind, "exception", sig, {"err": repr(e)[:300]}, **case)
            continue
        check_state(cx, kind, sig, ans.circuit, n, (Nd, Sd), targets, ("N", "S_z"), case, ("e", kind, mname, utd, tuple(p)))
    acc.sample({"part": "e", "ansatz": kind, "molecule": mname, "up_then_down": utd, "n_params": k, "n_cases": len(cases),
                "example": cases[min(len(cases) - 1, 2 * k + 1)] if cases else None}, cap=1)


# ---------------------------------------------------------------------------------------------------------------------
# catalogue / shards

def sizes(tier):
    return (1, 2, 3) if tier == "quick" else (1, 2, 3, 4)


def comm_catalogue(tier):
    """(molecule, geometry index, uhf)"""
    if tier == "quick":
        return [("H2", 0, False), ("H3+", 0, False), ("H3", 0, False), ("H4", 0, False), ("LiH_f045", 0, False),
                ("H3", 0, True), ("H4triplet", 0, False)]
    out = []
    for m in ("H2", "H2_631g", "H3+", "H3", "H4", "H4rect", "H4triplet", "H4+", "H3-", "LiH_f045", "LiH_f034", "LiH_f03",
              "LiH_f23"):
        for gi in (0, 1):
            out.append((m, gi, False))
    for m in ("H2", "H3", "H4triplet", "H4+", "LiH_f045"):
        out.append((m, 0, True))
    return out


def cons_molecules(tier):
    if tier == "quick":
        return ["H2", "H3+", "H3", "H4", "H4triplet"]
    return ["H2", "H3+", "H3", "H3-", "H4", "H4+", "H4triplet", "H2_631g"]


CLOSED = {"H2", "H3+", "H3-", "H4", "H2_631g"}
COST = {4: 0.004, 6: 0.015, 8: 0.045}      # rough seconds per case by register size (load balancing only)
_JOBS = {}


def cons_jobs(tier, seed):
    """(ansatz, molecule, ordering, number of parameters / pool size, number of cases, number of shards)."""
    key = (tier, seed)
    if key in _JOBS:
        return _JOBS[key]
    from tangelo.toolboxes.ansatz_generator._general_unitary_cc import get_excitation_number
    jobs = []
    for m in cons_molecules(tier):
        mol = molecule(m, 0, seed)
        n = int(mol.n_active_sos)
        for kind in ANSATZE:
            if kind == "pUCCD" and m not in CLOSED:
                continue          # pUCCD raises NotImplementedError for open shells
            if kind == "UCCSD-UHF" and m not in UHF_MOLS[tier]:
                continue
            for utd in ((False,) if kind == "pUCCD" else (False, True)):
                if kind == "ADAPT":
                    k = get_excitation_number(n // 2)
                    ac = adapt_cases(k, tier, seed)
                    nc = len(ac)
                    cost = sum((7.0 if c[3] else 0.7) * COST[n] * (len(c[1]) / 2.0 if len(c[1]) > 3 else 1.0) for c in ac)
                else:
                    with quiet():
                        k = int(make_ansatz(kind, molecule(m, 0, seed, uhf=True) if kind == "UCCSD-UHF" else mol, utd).n_var_params)
                    nc = len(param_cases(k, tier, seed))
                    cost = COST[n] * nc * (0.3 if kind == "pUCCD" else 1.0)
                jobs.append((kind, m, utd, k, nc, max(1, int(math.ceil(cost / 5.0)))))
    _JOBS[key] = jobs
    return jobs


def shards(tier, seed):
    sh = []
    for n_orbs in sizes(tier):
        for utd in (False, True):
            sh.append({"kind": "sym", "n_orbs": n_orbs, "utd": utd, "seed": seed})
            sh.append({"kind": "comb", "n_orbs": n_orbs, "utd": utd, "seed": seed})
            for op in OPS:
                sh.append({"kind": "pen", "n_orbs": n_orbs, "utd": utd, "op": op, "seed": seed})
    for m, gi, uhf in comm_catalogue(tier):
        sh.append({"kind": "comm", "mol": m, "gi": gi, "uhf": uhf, "seed": seed})
    for kind in ("UCC1", "UCC3"):
        sh.append({"kind": "cons", "ansatz": kind, "mol": None, "utd": True, "tier": tier, "seed": seed, "part": 0, "nparts": 1})
    for kind, m, utd, k, nc, npp in cons_jobs(tier, seed):
        for part in range(npp):
            sh.append({"kind": "cons", "ansatz": kind, "mol": m, "utd": utd, "tier": tier, "seed": seed, "part": part,
                       "nparts": npp})
    # heavy shards first
    sh.sort(key=lambda s: 0 if (s["kind"] == "cons" and s.get("nparts", 1) > 1) or (s["kind"] != "cons" and
                                                                                     s.get("n_orbs", 0) >= 4) else 1)
    return sh


RUN = {"sym": run_sym, "pen": run_pen, "comb": run_comb, "comm": run_comm, "cons": run_cons}


def run_shard(sh):
    acc = Acc()
    RUN[sh["kind"]](acc, dict(sh))
    return acc


def replay_case(case):
    acc = Acc()
    unit = {k: v for k, v in case.items() if k not in ("focus", "want", "opt")}
    RUN[unit["kind"]](acc, unit)
    want, foc = case.get("want"), case.get("focus")
    if want in acc.viol:
        acc.viol = {want: acc.viol[want]}
    elif foc:
        acc.viol = {k: v for k, v in acc.viol.items() if k.startswith(foc + "/")} or acc.viol
    return acc


def bounds(tier, seed):
    a, b = gab(seed)
    return {"tier": tier, "n_orbs": list(sizes(tier)), "orderings": [False, True], "encodings": list(ENCODINGS),
            "operators": list(OPS), "penalty_weights": list(WEIGHTS), "combined_weights": [0, 0.5, 3],
            "hamiltonians": [f"{m}/g{gi}{'/UHF' if u else ''}" for m, gi, u in comm_catalogue(tier)],
            "conservation_molecules": cons_molecules(tier), "ansaetze": list(ANSATZE) + ["UCC1", "UCC3"],
            "conservation_jobs": [{"ansatz": k_, "molecule": m, "up_then_down": u, "n_params_or_pool": k, "cases": nc}
                                  for k_, m, u, k, nc, _ in cons_jobs(tier, seed)],
            "generic_parameters": {"a": a, "b": b}, "rucc_angles": list(RUCC_ANGLES),
            "parameter_alphabet": "one-hot x {a,b} at every position; two-hot (a,b) at every pair" +
                                  ("; swapped two-hot; three-hot (a,b,0.7) for <= 18 parameters" if tier == "thorough" else "") +
                                  "; two dense vectors",
            "adapt_sequences": "one operator x {a,b}; ordered pairs (all when pool <= 20 or thorough, else (i,i),(i,i+1),(i+1,i),"
                               "(i,n-1-i)); thorough: ordered triples for pools <= 18; whole pool forwards/backwards x two dense "
                               "vectors",
            "tolerances": {"matrix": TOL, "normal_ordered": TOL_NO, "conservation": TOL_CONS}}


def selftest():
    F.selftest()
    P.selftest()
    SV.selftest()
    # harness Jordan-Wigner against the Fock-space ladder matrices; sparse term products against ref.fermion.op_matrix
    for n in (2, 4):
        for p in range(n):
            for a in (0, 1):
                assert np.allclose(P.matrix(jw_ladder(p, a), n), F.ladder_matrix(n, p, a))
        for utd in (False, True):
            for op in (F.number_operator(n), F.sz_operator(n, utd), F.s2_operator(n, utd)):
                assert np.allclose(P.matrix(jw_op(op), n), F.op_matrix(n, op))
                assert np.allclose(fop_matrix(n, op), F.op_matrix(n, op))
            Nd, Sd = jw_diagonals(n, utd)
            for i, occ in enumerate(F.occupations(n)):
                na, nb, _ = F.spin_counts(occ, utd)
                assert abs(Nd[i] - (na + nb)) < 1e-12 and abs(Sd[i] - (na - nb) / 2) < 1e-12
    assert np.allclose(pair_number_diagonal(3), [bin(i).count("1") for i in range(8)])
    assert scbk_sectors(1) == [(0, 0), (1, 1), (2, 0)]
    assert as_arg(2.0) == 2 and isinstance(as_arg(2.0), int) and as_arg(0.75) == 0.75
    # a deliberately wrong S^2 (cross term 1/4 instead of 1/2) is seen by the matrix comparison
    n = 4
    sp = F.s_plus_operator(n)
    sz = F.sz_operator(n)
    wrong = F.op_add(F.op_mul(F.op_adjoint(sp), sp, ), F.op_add(F.op_mul(sz, sz), sz), 0.5, 1.0)
    assert np.abs(fop_matrix(n, wrong) - ref_mats(2, False)["S2"]).max() > 0.1


if __name__ == "__main__":
    import sys
    runner.main(sys.modules[__name__])
