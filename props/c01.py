"""C01 - Backend simulation matches the documented gate semantics.

E1: every gate word of length <= L over the gate alphabet Sigma_n (every placement, control lists of length 1..3 in
every order, angle alphabet), on the cirq and sympy backends, from |0..0>, every basis state (depth 1) and a dense complex
vector; E3: sampled mode with the scipy sampler scripted (every sample sequence).
Oracle: mc.ref.statevec (numpy).
"""
import itertools
import math

import numpy as np

from mc import runner, choicetree, seams
from mc.runner import Acc
from mc.ref import statevec as SV

PID = "C01"
ENGINE = "seqspace (gate words) + choicetree (scripted sampler)"
RULE = ("cases = (backend, mode, register width, gate word, initial state); words of length <= L over Sigma_n (all "
        "placements, control lists of length 1-3 in every order, angle alphabet A); non-trivial = distinct words whose "
        "reference unitary is not diagonal-phase-only trivial, i.e. distinct (backend, word) pairs compared against the "
        "reference; sampled mode: every sample sequence the scripted sampler can return for n_shots in {1,2}")
ASSUMPTIONS = [
    "angles outside the alphabet A, registers wider than 4 qubits and backends not installed (qulacs, qiskit, qdk, stim) are not explored",
    "gate semantics = textbook definitions documented in the translators (mc/ref/gates.py)",
    "statevectors compared up to one global phase (1e-9 cirq, 1e-7 sympy floats), frequencies 1e-9 / 1e-7",
    "index order names as defined by Backend._int_to_binstr: lsq_first = qubit 0 is the most significant bit of the index",
    "sampled mode is decided as two exact facts: the distribution handed to the sampler, and the arithmetic on every sample sequence",
]
PI = math.pi
TOL = 1e-9
TOL_SYMPY = 1e-7


def angles(seed):
    d = runner.seed_delta(seed)
    return [0.0, 0.37 + d, -1.23 - d, PI / 2, PI, 2 * PI + 0.61, 4 * PI - 0.3]


def sigma(n, A, A2, ctl_param_angles=None, max_ctl=3):
    """Gate alphabet on n qubits."""
    def G(name, t, c=None, p=""):
        return [name, list(t), (None if c is None else list(c)), p, False]
    out = []
    qs = range(n)
    for name in ("H", "X", "Y", "Z", "S", "T"):
        out += [G(name, [q]) for q in qs]
    for name in ("RX", "RY", "RZ", "PHASE"):
        out += [G(name, [q], None, a) for q in qs for a in A]

    def control_lists(excl):
        rest = [q for q in qs if q not in excl]
        for L in range(1, min(max_ctl, len(rest)) + 1):
            yield from itertools.permutations(rest, L)
    for name in ("CNOT", "CX", "CY", "CZ", "CH"):
        for t in qs:
            for cl in control_lists([t]):
                if name == "CNOT" and len(cl) > 1 and False:
                    continue
                out.append(G(name, [t], cl))
    for name in ("CRX", "CRY", "CRZ", "CPHASE"):
        for t in qs:
            for cl in control_lists([t]):
                out += [G(name, [t], cl, a) for a in (ctl_param_angles or A2)]
    for a, b in itertools.permutations(qs, 2):
        out += [G("XX", [a, b], None, x) for x in A2]
        out.append(G("SWAP", [a, b]))
        for cl in control_lists([a, b]):
            out.append(G("CSWAP", [a, b], cl))
    return out


SMALL_ANGLES = [0.012, 2e-4]     # rare outcomes: p = sin^2(angle/2) = 3.6e-5 and 1e-8 (above every documented threshold)


def ctl_angles(A):
    """Angle alphabet of controlled rotations at depth 1: the two generic values plus both sides of the 2*pi and 4*pi
    periods (a controlled rotation is 4*pi-periodic: any 2*pi-wrap of its angle flips the sign of the control=1 branch)."""
    return [A[1], A[2], 2 * PI + 0.61, 4 * PI - 0.3, -2 * PI - 0.7, 2 * PI, -2 * PI, SMALL_ANGLES[0]]


def sigma_d1(n, A, backend="cirq"):
    if backend == "sympy" and n == 4:
        return sigma(n, A[1:3], A[1:2])
    return sigma(n, list(A) + SMALL_ANGLES, A[1:3], ctl_param_angles=ctl_angles(A), max_ctl=(3 if backend == "cirq" else 2 if n >= 3 else 3))


def reduced(n, A2):
    """Smaller alphabet for depth >= 2 on the slow sympy backend (non-commuting neighbours, controls, both orders)."""
    def G(name, t, c=None, p=""):
        return [name, list(t), (None if c is None else list(c)), p, False]
    a, b = A2
    out = [G("H", [0]), G("H", [1]), G("X", [0]), G("Y", [1]), G("S", [0]), G("T", [1]), G("RX", [0], None, a),
           G("RY", [1], None, b), G("RZ", [0], None, a), G("PHASE", [1], None, b),
           G("CNOT", [1], [0]), G("CNOT", [0], [1]), G("CZ", [1], [0]), G("CH", [0], [1]), G("CY", [1], [0]),
           G("CRX", [1], [0], a), G("CRY", [0], [1], b), G("CRZ", [1], [0], a), G("CPHASE", [0], [1], b), G("SWAP", [0, 1])]
    if n >= 3:
        out += [G("H", [2]), G("RY", [2], None, a), G("CNOT", [2], [0]), G("CNOT", [0], [2]), G("CX", [2], [0, 1]),
                G("CRZ", [0], [2, 1], b), G("SWAP", [0, 2]), G("CZ", [1], [2]), G("CNOT", [1], [2, 0]), G("CRY", [2], [1], a)]
    return out


def mk_gate(d):
    from tangelo.linq import Gate
    return Gate(d[0], list(d[1]), (None if d[2] is None else list(d[2])), d[3], d[4])


def mk_circ(word, nq=None):
    from tangelo.linq import Circuit
    return Circuit([mk_gate(d) for d in word], n_qubits=nq)


def dense_state(n, seed):
    """A fixed dense complex vector with distinct moduli and phases (deterministic, not random)."""
    k = np.arange(2 ** n)
    v = (1.0 + 0.37 * k + 0.11 * (k % 3)) * np.exp(1j * (0.7 * k * k + 0.3 * k + 0.01 * (seed % 7)))
    return v / np.linalg.norm(v)


def sig(word):
    names = sorted({d[0] for d in word})
    mc_ = max([len(d[2]) if d[2] else 0 for d in word] + [0])
    return "+".join(names) + (f"(controls={mc_})" if mc_ > 1 else "")


SYMPY_UNSUPPORTED = {"XX", "CSWAP"}


def num(v):
    """sympy Float / 1-element array / python number -> float; a visible imaginary part is an error."""
    try:
        z = complex(v)
    except TypeError:
        z = complex(np.asarray(v, dtype=complex).reshape(-1)[0])
    if abs(z.imag) > 1e-7:
        raise ValueError(f"non-real probability {z}")
    return z.real


def freq_diff(f_real, f_ref):
    keys = set(f_real) | set(f_ref)
    return max([abs(float(f_real.get(k, 0.0)) - float(f_ref.get(k, 0.0))) for k in keys] + [0.0])


def check_cirq(case, acc):
    from tangelo.linq import get_backend, translate_circuit
    import cirq
    word, n = case["word"], case["n"]
    c = mk_circ(word, n)
    key_sig = sig(word)
    be = get_backend("cirq")
    order = be.backend_info()["statevector_order"]
    Uref = SV.unitary(word, n)

    def bad(site, kind, detail):
        acc.violation(f"cirq/{site}/{kind}/{key_sig}", dict(case, backend="cirq"), detail, group=f"cirq/{site}/{kind}")

    # (iii) translator alone: unitary of the cirq circuit
    acc.ev()
    try:
        cc = translate_circuit(c, "cirq")
        Uc = cirq.unitary(cc)
        d = SV.dist(Uc, Uref)
        if d > TOL:
            bad("translate", "unitary-mismatch", {"distance": d, "up_to_phase": SV.dist_up_to_phase(Uc, Uref)})
    except Exception as e:
        bad("translate", "exception", {"err": repr(e)[:300]})
        return
    acc.nt(("cirq", word, n))
    # (i)+(ii) simulate from |0..0>, from each requested basis state, from a dense vector
    inits = [("zero", None)]
    if case.get("basis"):
        inits += [(f"basis{i}", np.eye(2 ** n, dtype=complex)[i]) for i in range(2 ** n)]
    inits.append(("dense", dense_state(n, case.get("seed", 0))))
    for label, init in inits:
        acc.ev()
        psi_ref = Uref[:, 0] if init is None else Uref @ init
        init_be = None if init is None else SV.to_order(init, n, order)
        try:
            freqs, sv = be.simulate(c, return_statevector=True, initial_statevector=init_be)
        except Exception as e:
            bad("simulate", "exception", {"err": repr(e)[:300], "init": label})
            continue
        f_ref = SV.freqs(psi_ref, n, threshold=be.freq_threshold)
        fd = freq_diff(freqs, f_ref)
        if fd > TOL or any(len(k) != n for k in freqs):
            bad("simulate", "frequencies", {"init": label, "got": {k: float(v) for k, v in freqs.items()}, "ref": f_ref})
        sv_q0 = SV.from_order(np.asarray(sv), n, order)
        dd = SV.dist_up_to_phase(sv_q0, psi_ref)
        if dd > TOL:
            bad("simulate", "statevector", {"init": label, "distance": dd, "advertised_order": order})
        acc.out(tuple(sorted(f_ref)))
        if label in ("dense", "basis1"):
            # the same argument objects again: arguments unchanged, same answer (the initial vector and the circuit belong to the caller)
            acc.ev()
            snap = None if init_be is None else np.array(init_be, copy=True)
            try:
                freqs2, sv2 = be.simulate(c, return_statevector=True, initial_statevector=init_be)
                same = freq_diff(freqs2, f_ref) <= TOL and SV.dist_up_to_phase(SV.from_order(np.asarray(sv2), n, order), psi_ref) <= TOL
            except Exception as e:
                same = False
            if snap is not None and not np.array_equal(snap, init_be):
                bad("simulate", "initial_statevector-argument-modified", {"init": label})
            elif not same:
                bad("simulate", "second-call-with-the-same-arguments-differs", {"init": label})
        # return_statevector=False must give the same frequencies and no vector
        if label == "zero":
            f2, sv2 = be.simulate(c)
            if sv2 is not None or freq_diff(f2, f_ref) > TOL:
                bad("simulate", "frequencies-without-statevector", {"got": {k: float(v) for k, v in f2.items()}})


def check_sympy(case, acc):
    from tangelo.linq import get_backend
    word, n = case["word"], case["n"]
    key_sig = sig(word)
    be = get_backend("sympy")
    order = be.backend_info()["statevector_order"]

    def bad(site, kind, detail):
        acc.violation(f"sympy/{site}/{kind}/{key_sig}", dict(case, backend="sympy"), detail, group=f"sympy/{site}/{kind}")

    c = mk_circ(word, n)
    unsupported = any(d[0] in SYMPY_UNSUPPORTED for d in word)
    Uref = SV.unitary(word, n)
    inits = [("zero", None)]
    if case.get("basis"):
        inits += [(f"basis{i}", np.eye(2 ** n, dtype=complex)[i]) for i in (1, 2 ** n - 2) if 0 < i < 2 ** n]
    if case.get("dense", True):
        inits.append(("dense", dense_state(n, case.get("seed", 0))))
    for label, init in inits:
        acc.ev()
        psi_ref = Uref[:, 0] if init is None else Uref @ init
        init_be = None if init is None else SV.to_order(init, n, order).reshape(-1, 1)
        try:
            freqs, sv = be.simulate(c, return_statevector=True, initial_statevector=init_be)
        except Exception as e:
            if unsupported and isinstance(e, ValueError):
                acc.nt(("sympy-refused", word))
                return
            bad("simulate", "exception", {"err": repr(e)[:300], "init": label})
            return
        if unsupported:
            bad("simulate", "unsupported-gate-not-refused", {"word": word})
            return
        acc.nt(("sympy", word, n, label))
        try:
            freqs = {k: num(v) for k, v in freqs.items()}
            svn = np.array(sv.tolist(), dtype=complex).reshape(-1)
        except Exception as e:
            bad("simulate", "non-numeric-result", {"err": repr(e)[:200]})
            return
        f_ref = SV.freqs(psi_ref, n, threshold=0.0)
        f_ref_cmp = {k: v for k, v in f_ref.items() if v > 1e-9}
        fd = freq_diff({k: v for k, v in freqs.items() if v > 1e-9}, f_ref_cmp)
        if fd > TOL_SYMPY or any(len(k) != n for k in freqs):
            bad("simulate", "frequencies", {"init": label, "got": freqs, "ref": f_ref_cmp})
        dd = SV.dist_up_to_phase(SV.from_order(svn, n, order), psi_ref)
        if dd > TOL_SYMPY:
            other = "msq_first" if order == "lsq_first" else "lsq_first"
            bad("simulate", "statevector", {"init": label, "distance": dd, "advertised_order": order,
                                            "distance_if_other_order": SV.dist_up_to_phase(SV.from_order(svn, n, other), psi_ref)})
        acc.out(tuple(sorted(f_ref_cmp)))


def check_empty(case, acc):
    """Circuit without gates + initial statevector: the size==0 shortcut of Backend.simulate."""
    from tangelo.linq import get_backend, Circuit
    n, bname = case["n"], case["backend"]
    be = get_backend(bname)
    order = be.backend_info()["statevector_order"]
    c = Circuit(n_qubits=n)
    for label, init in [("zero", None)] + [(f"basis{i}", np.eye(2 ** n, dtype=complex)[i]) for i in range(2 ** n)] + [("dense", dense_state(n, 0))]:
        acc.ev()
        psi_ref = np.eye(2 ** n, dtype=complex)[0] if init is None else init
        init_be = None if init is None else SV.to_order(init, n, order)
        if bname == "sympy" and init_be is not None:
            init_be = init_be.reshape(-1, 1)
        try:
            freqs, sv = be.simulate(c, return_statevector=True, initial_statevector=init_be)
            freqs = {k: num(v) for k, v in freqs.items()}
        except Exception as e:
            acc.violation(f"{bname}/empty-circuit/exception", case, {"err": repr(e)[:200], "init": label}, group=f"{bname}/empty-circuit/exception")
            continue
        acc.nt((bname, "empty", n, label))
        f_ref = {k: v for k, v in SV.freqs(psi_ref, n).items() if v > 1e-9}
        if freq_diff({k: v for k, v in freqs.items() if v > 1e-9}, f_ref) > TOL_SYMPY:
            acc.violation(f"{bname}/empty-circuit/frequencies", dict(case, init=label), {"got": freqs, "ref": f_ref},
                          group=f"{bname}/empty-circuit/frequencies")
        svn = np.array(np.asarray(sv).tolist(), dtype=complex).reshape(-1)
        if SV.dist_up_to_phase(SV.from_order(svn, n, order), psi_ref) > TOL_SYMPY:
            acc.violation(f"{bname}/empty-circuit/statevector", dict(case, init=label), {"advertised_order": order},
                          group=f"{bname}/empty-circuit/statevector")


def history_menu(seed):
    A = angles(seed)
    return [
        {"word": [["H", [0], None, "", False]], "n": 1, "init": None, "rsv": True},
        {"word": [["RY", [0], None, A[1], False], ["CNOT", [1], [0], "", False]], "n": 2, "init": None, "rsv": False},
        {"word": [["X", [1], None, "", False]], "n": 2, "init": "dense", "rsv": True},
        {"word": [["H", [2], None, "", False], ["CRZ", [0], [2], A[2], False]], "n": 3, "init": None, "rsv": True},
        {"word": [["RX", [1], None, A[2], False]], "n": 3, "init": "dense", "rsv": True},
        {"word": [], "n": 2, "init": "dense", "rsv": True},
        {"word": [["X", [0], None, "", False]], "n": 3, "init": None, "rsv": False},
    ]


def check_history(case, acc):
    """E2-style: ONE backend object serves a whole sequence of simulate calls (different circuits, widths, initial vectors,
    return_statevector on/off); every answer must be the reference answer of that call alone (no state kept between calls)."""
    from tangelo.linq import get_backend
    bname = case["backend"]
    be = get_backend(bname)
    order = be.backend_info()["statevector_order"]
    tol = TOL if bname == "cirq" else TOL_SYMPY
    for step, idx in enumerate(case["history"]):
        m = history_menu(case.get("seed", 0))[idx]
        word, n = m["word"], m["n"]
        c = mk_circ(word, n)
        init = dense_state(n, case.get("seed", 0)) if m["init"] == "dense" else None
        psi_ref = SV.run(word, n, init)
        init_be = None if init is None else SV.to_order(init, n, order)
        if init_be is not None and bname == "sympy":
            init_be = init_be.reshape(-1, 1)
        acc.ev()
        acc.transitions += 1
        try:
            freqs, sv = be.simulate(c, return_statevector=m["rsv"], initial_statevector=init_be)
            freqs = {k: num(v) for k, v in freqs.items() if num(v) > 1e-9}
        except Exception as e:
            acc.violation(f"{bname}/history/exception", case, {"step": step, "err": repr(e)[:300]}, group=f"{bname}/history/exception")
            return
        f_ref = {k: v for k, v in SV.freqs(psi_ref, n).items() if v > 1e-9}
        ok = freq_diff(freqs, f_ref) <= tol and all(len(k) == n for k in freqs)
        if ok and m["rsv"]:
            svn = np.array(np.asarray(sv).tolist(), dtype=complex).reshape(-1)
            ok = svn.size == 2 ** n and SV.dist_up_to_phase(SV.from_order(svn, n, order), psi_ref) <= tol
        if ok and not m["rsv"] and sv is not None:
            ok = False
        if not ok:
            acc.violation(f"{bname}/history/answer-depends-on-earlier-calls-on-the-same-backend", case,
                          {"step": step, "got": freqs, "ref": f_ref}, group=f"{bname}/history/answer-depends-on-earlier-calls")
            return
    acc.nt((bname, "history", tuple(case["history"])))
    acc.out((bname, "history-ok"))


CIRC_OPS = ["add", "par", "reidx", "trim", "addhi", "merge", "redund", "addrot"]


def check_circuit_history(case, acc):
    """E2-style: ONE Circuit object is simulated, modified in place (gate added, variational parameter written, qubits re-indexed or
    trimmed) and simulated again, on one shared backend: every simulation must be that of the gate list as it is NOW."""
    from tangelo.linq import get_backend, Circuit, Gate
    bname = case["backend"]
    be = get_backend(bname)
    order = be.backend_info()["statevector_order"]
    tol = TOL if bname == "cirq" else TOL_SYMPY
    A = angles(case.get("seed", 0))
    c = Circuit([Gate("RY", 0, parameter=A[1], is_variational=True), Gate("CNOT", 2, 0), Gate("X", 2), Gate("RX", 2, parameter=A[2])])
    par_vals = [A[2], 2 * PI + 0.61, A[1]]
    npar = 0

    def sim(step):
        n = c.width
        word = [SV.desc(g) for g in c._gates]
        psi_ref = SV.run(word, n)
        acc.ev()
        try:
            freqs, sv = be.simulate(c, return_statevector=True)
            freqs = {k: num(v) for k, v in freqs.items() if num(v) > 1e-9}
            svn = np.array(np.asarray(sv).tolist(), dtype=complex).reshape(-1)
        except Exception as e:
            acc.violation(f"{bname}/circuit-history/exception", case, {"step": step, "err": repr(e)[:300]}, group=f"{bname}/circuit-history/exception")
            return False
        f_ref = {k: v for k, v in SV.freqs(psi_ref, n).items() if v > 1e-9}
        if freq_diff(freqs, f_ref) > tol or svn.size != 2 ** n or SV.dist_up_to_phase(SV.from_order(svn, n, order), psi_ref) > tol:
            acc.violation(f"{bname}/circuit-history/simulation-is-not-that-of-the-current-gate-list", case,
                          {"step": step, "gates_now": word, "got": freqs, "ref": f_ref}, group=f"{bname}/circuit-history/stale")
            return False
        return True

    if not sim(-1):
        return
    for step, op in enumerate(case["history"]):
        acc.transitions += 1
        try:
            if op == "add":
                c.add_gate(Gate("H", 1))
            elif op == "addhi":
                c.add_gate(Gate("CNOT", c.width, 0))
            elif op == "par":
                c._variational_gates[0].parameter = par_vals[npar % 3]      # how the ansatz classes write new values
                npar += 1
            elif op == "reidx":
                k = len(c._qubit_indices)
                c.reindex_qubits([(i + 1) % k for i in range(k)])
            elif op == "trim":
                c.trim_qubits()
            elif op == "merge":
                c.merge_rotations()
            elif op == "redund":
                c.remove_redundant_gates()
            elif op == "addrot":
                c.add_gate(Gate("RX", c.width - 1, parameter=A[1]))      # mergeable with a trailing RX on the same qubit
        except Exception as e:
            if op in ("add", "addhi", "addrot") and isinstance(e, ValueError) and "beyond expected maximal index" in str(e):
                # an in-place simplification pass fixes the width of the circuit; a later add_gate beyond it is refused loudly
                # (DESIGN.md 7.4, outside the statement): the history ends here
                acc.count("circuit_histories_ended_by_loud_refusal(add_gate beyond the width fixed by a pass)")
                return
            acc.violation(f"{bname}/circuit-history/operation-raises/{op}", case, {"step": step, "err": repr(e)[:300]},
                          group=f"{bname}/circuit-history/operation-raises")
            return
        if c.width > 4 or not sim(step):
            return
    acc.nt((bname, "circuit-history", tuple(case["history"])))
    acc.out((bname, "circuit-history-ok"))


def check_sampled(case, acc):
    """E3: n_shots in {1,2}; scripted scipy sampler; every sample sequence."""
    from tangelo.linq import get_backend
    import tangelo.linq.target.backend as BK
    word, n, shots, bname = case["word"], case["n"], case["n_shots"], case.get("backend", "cirq")
    c = mk_circ(word, n)
    init = None
    if case.get("init") == "sparse":
        # user-supplied initial statevector (in the advertised order) together with shots: (|0..01> + i|1..10>)/sqrt2
        init = np.zeros(2 ** n, dtype=complex)
        init[1], init[2 ** n - 2] = 1 / np.sqrt(2), 1j / np.sqrt(2)
    psi = SV.run(word, n, init)
    f_ref = {k: v for k, v in SV.freqs(psi, n).items() if v >= 1e-10}
    order = get_backend(bname).backend_info()["statevector_order"]
    init_be = None if init is None else SV.to_order(init, n, order)

    def run(ch):
        be = get_backend(bname, n_shots=shots)
        with seams.patched(BK, "stats", seams.StatsProxy(ch)):
            fr, sv = be.simulate(c, initial_statevector=init_be, return_statevector=bool(case.get("want_sv")))
        if case.get("want_sv") and SV.dist_up_to_phase(SV.from_order(np.asarray(sv), n, order), psi) > TOL:
            return {"statevector-wrong-in-sampled-mode": 1.0}
        return {k: float(v) for k, v in fr.items()}

    n_exec = 0
    outcomes = set()
    for choices, trace, infos, res in choicetree.explore(run):
        n_exec += 1
        acc.ev()
        acc.transitions += len(trace)
        if len(trace) != 1:
            acc.violation(f"{bname}/sampled/unexpected-number-of-draws", case, {"trace": trace}, group=f"{bname}/sampled/draws")
            continue
        info = infos[0]
        # (iv-a) the distribution handed to the sampler is the exact one (keys decoded as the code documents them)
        handed = {}
        for x, p in zip(info["xk"], info["pk"]):
            handed[format(int(x), f"0{n}b")[::-1]] = p
        if freq_diff(handed, f_ref) > TOL or abs(sum(info["pk"]) - 1) > 1e-9:
            acc.violation(f"{bname}/sampled/distribution-handed-to-sampler/{sig(word)}", case, {"handed": handed, "ref": f_ref},
                          group=f"{bname}/sampled/distribution-handed-to-sampler")
        # (iv-b) returned frequencies = scripted counts / n_shots
        seqs = choicetree.sequences(len(info["xk"]), info["size"])
        drawn = [format(int(info["xk"][j]), f"0{n}b")[::-1] for j in seqs[choices[0]]]
        want = {}
        for b in drawn:
            want[b] = want.get(b, 0) + 1.0 / shots
        if info["size"] != shots or freq_diff(res, want) > 1e-12 or set(res) != set(want):
            acc.violation(f"{bname}/sampled/frequencies-from-samples/{sig(word)}", case, {"drawn": drawn, "returned": res},
                          group=f"{bname}/sampled/frequencies-from-samples")
        outcomes.add(tuple(sorted(res.items())))
    acc.states += n_exec
    if len(f_ref) > 1:
        acc.nt(("sampled", word, shots))
    for o in outcomes:
        acc.out(o)


def check_sampled_bulk(case, acc):
    """Chunked-sampling path of Backend._statevector_to_frequencies: shot numbers on both sides of (multiples of) the chunk size.
    The scripted sampler answers each bulk draw with a constant array (one choice over the support per draw, all explored):
    the draw sizes must add up to n_shots and the returned frequencies must be the scripted counts / n_shots."""
    from tangelo.linq import get_backend
    import tangelo.linq.target.backend as BK
    word, n, shots, bname = case["word"], case["n"], case["n_shots"], case.get("backend", "cirq")
    c = mk_circ(word, n)
    f_ref = {k: v for k, v in SV.freqs(SV.run(word, n), n).items() if v >= 1e-10}

    def run(ch):
        be = get_backend(bname, n_shots=shots)
        with seams.patched(BK, "stats", seams.StatsProxy(ch)):
            fr, _ = be.simulate(c)
        return {k: float(v) for k, v in fr.items()}

    n_exec = 0
    for choices, trace, infos, res in choicetree.explore(run, check_replay=(shots < 5 * 10 ** 6), max_exec=64):
        n_exec += 1
        acc.transitions += 1
        acc.evals += 1
        want, total = {}, 0
        for info, ch_ in zip(infos, choices):
            total += info["size"]
            if info["size"] == 0:
                continue
            if info.get("bulk"):
                b = format(int(info["xk"][ch_]), f"0{n}b")[::-1]
                want[b] = want.get(b, 0) + info["size"] / shots
            else:
                for j in choicetree.sequences(len(info["xk"]), info["size"])[ch_]:
                    b = format(int(info["xk"][j]), f"0{n}b")[::-1]
                    want[b] = want.get(b, 0) + 1.0 / shots
            handed = {format(int(x), f"0{n}b")[::-1]: p_ for x, p_ in zip(info["xk"], info["pk"])}
            if freq_diff(handed, f_ref) > TOL:
                acc.violation(f"{bname}/sampled/distribution-handed-to-sampler/{sig(word)}", case, {"handed": handed, "ref": f_ref},
                              group=f"{bname}/sampled/distribution-handed-to-sampler")
        if total != shots or not isinstance(res, dict) or freq_diff(res, want) > 1e-12 or set(res) != set(want) \
                or abs(sum(res.values()) - 1) > 1e-9:
            acc.violation(f"{bname}/sampled/chunked-draws-do-not-add-up-to-n_shots", case,
                          {"n_shots": shots, "draw_sizes": [i["size"] for i in infos], "returned": res, "want": want},
                          group=f"{bname}/sampled/chunked-draws")
        acc.out(("bulk", shots, tuple(sorted(res.items())) if isinstance(res, dict) else repr(res)))
    acc.states += n_exec
    acc.nt(("sampled-bulk", shots))


# ---------------------------------------------------------------------------------------------------------------------

def bounds(tier, seed):
    A = angles(seed)
    return {"angles": A, "sigma_sizes": {n: len(sigma_d1(n, A)) for n in (1, 2, 3, 4)}, "controlled_rotation_angles": ctl_angles(A),
            "reduced_sizes": {n: len(reduced(n, A[1:3])) for n in (2, 3)},
            "tier": tier}


def shards(tier, seed):
    A = angles(seed)
    sh = []
    # depth 1, every gate of Sigma_n, n = 1..4, plus idle qubits (register wider than used) - cirq: all basis states
    for n in (1, 2, 3, 4):
        S = sigma_d1(n, A)
        step = 40
        for i in range(0, len(S), step):
            sh.append({"kind": "d1", "backend": "cirq", "n": n, "lo": i, "hi": min(len(S), i + step), "seed": seed})
    # depth 1 on sympy: Sigma_3 (+ Sigma_2), basis states 1 and 2^n-2, dense
    for n in ((2, 3) if tier == "quick" else (1, 2, 3, 4)):
        S = sigma_d1(n, A, "sympy")
        step = 8 if n <= 3 else 10
        for i in range(0, len(S), step):
            sh.append({"kind": "d1", "backend": "sympy", "n": n, "lo": i, "hi": min(len(S), i + step), "seed": seed})
    # depth 2 cirq over Sigma_3 with A2 (quick) ; thorough: Sigma_3 x Sigma_3 full angles + depth 3 reduced
    S3 = sigma(3, A[1:3], A[1:3]) if tier == "quick" else sigma(3, A, A[1:3])
    for i in range(len(S3)):
        sh.append({"kind": "d2", "backend": "cirq", "n": 3, "first": i, "al": "S3q" if tier == "quick" else "S3t", "seed": seed})
    if tier == "thorough":
        R = reduced(3, A[1:3])
        for i in range(len(R)):
            for j in range(len(R)):
                sh.append({"kind": "d3", "backend": "cirq", "n": 3, "first": i, "second": j, "seed": seed})
    # depth 2 sympy over the reduced alphabet (quick: 2 qubits full + 3 qubits first-gate-sharded)
    for n in (2, 3):
        R = reduced(n, A[1:3])
        for i in range(len(R)):
            if tier == "quick" and n == 3 and i % 2:
                continue
            sh.append({"kind": "d2r", "backend": "sympy", "n": n, "first": i, "seed": seed,
                       "thin": (tier == "quick" and n == 3)})
    # idle qubits: register wider than the highest index, gate on the highest index only
    sh.append({"kind": "idle", "seed": seed})
    sh.append({"kind": "empty", "seed": seed})
    for first in CIRC_OPS:
        sh.append({"kind": "circuit_history", "backend": "cirq", "first": first, "seed": seed, "L": 4 if tier == "quick" else 5})
        sh.append({"kind": "circuit_history", "backend": "sympy", "first": first, "seed": seed, "L": 2 if tier == "quick" else 3})
    for first in range(7):
        sh.append({"kind": "history", "backend": "cirq", "first": first, "seed": seed, "L": 3 if tier == "quick" else 4})
        sh.append({"kind": "history", "backend": "sympy", "first": first, "seed": seed, "L": 2 if tier == "quick" else 3})
    sh.append({"kind": "sampled", "seed": seed, "tier": tier})
    CH = 10 ** 7  # chunk size used by the sampling loops (a local constant of the implementation)
    for shots in ((2500001, CH - 1, CH, CH + 1, 2 * CH) if tier == "quick" else (9, 65, 2500001, CH - 1, CH, CH + 1, 2 * CH - 1, 2 * CH, 2 * CH + 1)):
        sh.append({"kind": "sampled_bulk", "seed": seed, "n_shots": shots})
    # heaviest shards first (tail latency): bulk draws, then the slow sympy backend, then everything else in order
    rank = lambda x: (0, -x["n_shots"]) if x["kind"] == "sampled_bulk" else (1, 0) if x.get("backend") == "sympy" else (2, 0)
    sh.sort(key=rank)
    return sh


def run_shard(sh):
    acc = Acc()
    seed = sh["seed"]
    A = angles(seed)
    k = sh["kind"]
    if k == "d1":
        n = sh["n"]
        S = sigma_d1(n, A, sh["backend"])
        for g in S[sh["lo"]:sh["hi"]]:
            case = {"kind": "word", "word": [g], "n": n, "basis": True, "seed": seed}
            acc.states += 1
            acc.transitions += 1
            (check_cirq if sh["backend"] == "cirq" else check_sympy)(case, acc)
        acc.sample({"kind": "word", "word": [S[sh["lo"]]], "n": n, "backend": sh["backend"]}, cap=1)
    elif k == "d2":
        S3 = sigma(3, A[1:3], A[1:3]) if sh["al"] == "S3q" else sigma(3, A, A[1:3])
        g1 = S3[sh["first"]]
        for g2 in S3:
            case = {"kind": "word", "word": [g1, g2], "n": 3, "basis": False, "seed": seed}
            acc.states += 1
            acc.transitions += 1
            check_cirq(case, acc)
    elif k == "d3":
        R = reduced(3, A[1:3])
        g1, g2 = R[sh["first"]], R[sh["second"]]
        for g3 in R:
            case = {"kind": "word", "word": [g1, g2, g3], "n": 3, "basis": False, "seed": seed}
            acc.states += 1
            acc.transitions += 1
            check_cirq(case, acc)
    elif k == "d2r":
        if sh.get("thin") and sh["first"] == 0:
            acc.caps.append("quick tier: depth-2 words on the sympy backend for 3 qubits cover every 2nd first gate x every 3rd second gate of "
                            "the reduced alphabet (thorough: all pairs); cirq covers all depth-2 words over Sigma_3")
        R = reduced(sh["n"], A[1:3])
        g1 = R[sh["first"]]
        for j, g2 in enumerate(R):
            if sh.get("thin") and (j + sh["first"] // 2) % 3:
                continue
            case = {"kind": "word", "word": [g1, g2], "n": sh["n"], "basis": False, "dense": True, "seed": seed}
            acc.states += 1
            acc.transitions += 1
            check_sympy(case, acc)
        acc.sample({"kind": "word", "word": [g1, R[-1]], "n": sh["n"], "backend": "sympy"}, cap=1)
    elif k == "idle":
        for nq in (3, 5):
            for g in ([["X", [nq - 1], None, "", False]], [["H", [0], None, "", False]],
                      [["CNOT", [nq - 1], [1], "", False]], [["RY", [1], None, A[1], False], ["CNOT", [nq - 1], [1], "", False]]):
                case = {"kind": "word", "word": g, "n": nq, "basis": nq <= 3, "seed": seed}
                acc.states += 1
                check_cirq(case, acc)
                if nq <= 3:
                    check_sympy(case, acc)
    elif k == "empty":
        for b in ("cirq", "sympy"):
            for n in (1, 2, 3):
                acc.states += 1
                check_empty({"kind": "empty", "backend": b, "n": n}, acc)
    elif k == "sampled":
        def G(name, t, c=None, p=""):
            return [name, list(t), (None if c is None else list(c)), p, False]
        al = [G("H", [0]), G("X", [1]), G("CNOT", [1], [0]), G("RY", [0], None, 2 * PI / 3), G("H", [1]), G("X", [2]),
              G("CNOT", [2], [0])]
        words = [[a] for a in al] + [[a, b] for a in al for b in al]
        if sh["tier"] == "thorough":
            words += [[a, b, c] for a in al[:5] for b in al[:5] for c in al[:5]]
        for w in words:
            n = max(max(d[1] + (d[2] or [])) for d in w) + 1
            supp = int(np.sum(np.abs(SV.run(w, n)) ** 2 > 1e-10))
            if supp > 4:
                continue
            for shots in (1, 2):
                acc.states += 1
                check_sampled({"kind": "sampled", "word": w, "n": n, "n_shots": shots, "backend": "cirq"}, acc)
            if n >= 2 and len(w) <= 2:
                supp2 = int(np.sum(np.abs(SV.run(w, n, np.eye(2 ** n)[1] + np.eye(2 ** n)[2 ** n - 2])) ** 2 > 1e-10))
                if supp2 <= 4:
                    acc.states += 1
                    check_sampled({"kind": "sampled", "word": w, "n": n, "n_shots": 2, "backend": "cirq", "init": "sparse",
                                   "want_sv": True}, acc)
        # (the sympy backend ignores n_shots and returns exact frequencies: no sampled mode to explore there)
        acc.sample({"kind": "sampled", "word": [al[0], al[2]], "n": 2, "n_shots": 2})
    elif k == "circuit_history":
        for l in range(0, sh["L"]):
            for rest in itertools.product(CIRC_OPS, repeat=l):
                acc.states += 1
                check_circuit_history({"kind": "circuit_history", "backend": sh["backend"], "history": [sh["first"]] + list(rest), "seed": seed}, acc)
        acc.sample({"kind": "circuit_history", "backend": sh["backend"], "history": [sh["first"], "reidx", "par"]}, cap=1)
    elif k == "history":
        for l in range(1, sh["L"]):
            for rest in itertools.product(range(7), repeat=l):
                acc.states += 1
                check_history({"kind": "history", "backend": sh["backend"], "history": [sh["first"]] + list(rest), "seed": seed}, acc)
        acc.sample({"kind": "history", "backend": sh["backend"], "history": [sh["first"], 3, 1]}, cap=1)
    elif k == "sampled_bulk":
        check_sampled_bulk({"kind": "sampled_bulk", "word": [["H", [0], None, "", False]], "n": 1, "n_shots": sh["n_shots"],
                            "backend": "cirq"}, acc)
    return acc


def replay_case(case):
    acc = Acc()
    k = case.get("kind")
    if k == "word":
        if case.get("backend") == "sympy":
            check_sympy(case, acc)
        else:
            check_cirq(case, acc)
    elif k == "empty":
        check_empty(case, acc)
    elif k == "sampled":
        check_sampled(case, acc)
    elif k == "sampled_bulk":
        check_sampled_bulk(case, acc)
    elif k == "history":
        check_history(case, acc)
    elif k == "circuit_history":
        check_circuit_history(case, acc)
    return acc


def selftest():
    SV.selftest()


if __name__ == "__main__":
    import sys
    runner.main(sys.modules[__name__])
