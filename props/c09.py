"""C09 - Circuit transformations preserve the implemented operation.

E1: every gate word of length <= L over a finite alphabet (prefix tree), on several qubit placements; every
transformation of tangelo.linq.circuit applied to each; reference unitaries from mc.ref (numpy only).
E2: chains of two in-place passes started from the output of another pass.
"""
import copy
import itertools
import math

import numpy as np

from mc import runner
from mc.runner import Acc
from mc.ref import statevec as SV

PID = "C09"
DESIGN_REF = "DESIGN.md section 2 / C09"
ENGINE = "seqspace (prefix tree of gate words) + stategraph (chains of in-place passes)"
RULE = ("cases = every gate word of length<=L over the alphabet x qubit placement x fixed/free width, each put through "
        "inverse/copy/+/*/split/stack/trim/reindex/3 passes (function+method, thresholds, remove_qubits)/simplify and "
        "two-pass chains, plus all gate pairs (==), all gate inverses, all Clifford angles; a case is non-trivial when "
        "the transformation changed the gate list or qubit indices (passes, trim, reindex, split, stack) or when "
        "g1==g2 holds for two gates with different parameters; distinct = distinct (transformation, input word)")
ASSUMPTIONS = [
    "angles outside the finite alphabet and words longer than the depth bound are not explored",
    "gate semantics are the textbook definitions documented in the translators (mc/ref/gates.py)",
    "comparisons up to one global phase, 1e-9 (1e-6 for Gate.__eq__ which rounds to 7 decimals)",
    "dropped rotations: distance <= (#gates removed) * threshold/2 + 1e-9 in operator norm",
    "reindex_qubits on circuits with gaps: i-th smallest used index receives new_indices[i]",
]
TOL = 1e-9
TOL_EQ = 1e-6
PI = math.pi

PLACEMENTS = {"P0": (0, 1, 2), "P1": (0, 2, 5), "P2": (8, 0, 3), "P3": (3, 9, 1)}


def alphabets(seed):
    g = round(0.3 + runner.seed_delta(seed), 6)
    e = 1e-4
    two_pi = 2 * PI

    def G(name, t, c=None, p="", v=False):
        return [name, list(t), (None if c is None else list(c)), p, v]

    full = []
    for n in ("H", "X", "Y", "Z", "S", "T"):
        full.append(G(n, [0]))
    for a in (g, -g, e, two_pi - g, two_pi + e, two_pi + g, 2 * two_pi - g, PI, PI / 2):
        full.append(G("RZ", [0], None, a))
    for a in (g, -g, PI, two_pi - g):
        full.append(G("RX", [0], None, a))
    for a in (g, PI / 2):
        full.append(G("RY", [0], None, a))
    for a in (g, -g, -PI / 2, -PI / 4, two_pi + g):
        full.append(G("PHASE", [0], None, a))
    full.append(G("RZ", [0], None, g, True))
    full += [G("H", [1]), G("X", [1]), G("RZ", [1], None, g), G("RZ", [1], None, -g), G("RZ", [1], None, g, True)]
    full += [G("H", [2]), G("RZ", [2], None, g)]
    for n in ("CNOT", "CX", "CY", "CZ", "CH"):
        full.append(G(n, [1], [0]))
    for a in (g, -g, e, two_pi - g, two_pi + e, two_pi + g, 2 * two_pi - g):
        full.append(G("CRZ", [1], [0], a))
    for a in (g, -g, two_pi - g):
        full.append(G("CRX", [1], [0], a))
    for a in (g, two_pi - g):
        full.append(G("CRY", [1], [0], a))
    for a in (g, -g, two_pi - g):
        full.append(G("CPHASE", [1], [0], a))
    full += [G("CNOT", [0], [1]), G("CRZ", [0], [1], g)]
    for a in (g, -g, two_pi - g, 2 * two_pi - g):
        full.append(G("XX", [0, 1], None, a))
    full += [G("XX", [1, 0], None, g), G("SWAP", [0, 1]), G("SWAP", [1, 0])]
    full += [G("CSWAP", [0, 1], [2]), G("CSWAP", [1, 0], [2]), G("CNOT", [2], [0, 1]), G("CNOT", [2], [1, 0]),
             G("CX", [2], [0, 1]), G("CRZ", [2], [0, 1], g), G("CRZ", [2], [0, 1], -g),
             G("CRZ", [2], [0, 1], two_pi - g), G("CZ", [0], [1, 2])]

    reduced = [G("H", [0]), G("X", [0]), G("S", [0]), G("PHASE", [0], None, -PI / 2), G("RZ", [0], None, g),
               G("RZ", [0], None, -g), G("RZ", [0], None, two_pi - g), G("RZ", [0], None, e), G("RX", [0], None, PI),
               G("H", [1]), G("RZ", [1], None, g),
               G("CNOT", [1], [0]), G("CX", [1], [0]), G("CZ", [1], [0]), G("CRZ", [1], [0], g), G("CRZ", [1], [0], -g),
               G("CRZ", [1], [0], two_pi - g), G("CRZ", [1], [0], two_pi + e), G("CRX", [1], [0], g),
               G("CPHASE", [1], [0], g), G("CPHASE", [1], [0], -g), G("CNOT", [0], [1]),
               G("XX", [0, 1], None, g), G("XX", [0, 1], None, -g), G("SWAP", [0, 1]),
               G("CSWAP", [0, 1], [2]), G("CNOT", [2], [0, 1]), G("CRZ", [2], [0, 1], g), G("CRZ", [2], [0, 1], -g),
               G("H", [2])]
    small = [reduced[i] for i in (0, 2, 3, 4, 5, 6, 7, 9, 11, 13, 14, 15, 16, 17, 19, 20, 22, 23, 24, 26, 27, 28)]
    return {"full": full, "reduced": reduced, "small": small, "g": g}


def place(word, pl):
    out = []
    for name, t, c, p, v in word:
        out.append([name, [pl[q] for q in t], (None if c is None else [pl[q] for q in c]), p, v])
    return out


# ---------------------------------------------------------------------------------------------------------------------
# helpers on real objects

def mk_gate(d):
    from tangelo.linq import Gate
    return Gate(d[0], list(d[1]), (None if d[2] is None else list(d[2])), d[3], d[4])


def mk_circ(word, nq=None):
    from tangelo.linq import Circuit
    return Circuit([mk_gate(d) for d in word], n_qubits=nq)


def gl(circ):
    return [SV.desc(g) for g in circ._gates]


def snap(circ):
    return (tuple((g.name, tuple(g.target), None if g.control is None else tuple(g.control), repr(g.parameter),
                   bool(g.is_variational)) for g in circ._gates), circ.width, circ._qubits_simulated)


def used(word):
    s = set()
    for _, t, c, _, _ in word:
        s.update(t)
        if c:
            s.update(c)
    return s


def sig(word):
    names = sorted({d[0] for d in word})
    big = any(d[0] in ("CRX", "CRY", "CRZ") and isinstance(d[3], (int, float)) and abs(d[3]) > 6 for d in word)
    return "+".join(names) + ("(ctrl-rot>=2pi)" if big else "")


def components(word):
    comps = []
    for _, t, c, _, _ in word:
        q = set(t) | set(c or [])
        keep = []
        for s in comps:
            if s & q:
                q |= s
            else:
                keep.append(s)
        comps = keep + [q]
    return comps


# ---------------------------------------------------------------------------------------------------------------------
# the oracle for one circuit

class Ctx:
    def __init__(self, acc, case):
        self.acc, self.case = acc, case
        self.word = case["word"]

    def bad(self, transf, kind, detail=None):
        self.acc.violation(f"{transf}/{kind}/{sig(self.word)}", dict(self.case, focus=transf), detail,
                           group=f"{transf}/{kind}")


_UC = {}


def cached_unitary_on(gates, qubits):
    k = repr((gates, qubits))
    u = _UC.get(k)
    if u is None:
        if len(_UC) > 4000:
            _UC.clear()
        u = _UC[k] = SV.unitary_on(gates, qubits)
    return u


def check_unitary(cx, transf, word, new_gates, qmap_old, qmap_new, bound=TOL, exact_phase=False, adj=False):
    """Compare the unitary of `word` on qubit list qmap_old with that of new_gates on qmap_new."""
    try:
        U0 = cached_unitary_on(word, qmap_old)
        U1 = cached_unitary_on(new_gates, qmap_new)
    except KeyError as e:
        cx.bad(transf, "gate-outside-corresponding-qubits-or-unknown", {"err": repr(e), "new": new_gates})
        return False
    if adj:
        U0 = U0.conj().T
    d = SV.dist(U0, U1) if exact_phase else SV.dist_up_to_phase(U0, U1)
    if not d <= bound:
        cx.bad(transf, "unitary-mismatch", {"distance": d, "bound": bound, "new_gates": new_gates})
        return False
    return True


def removed_count(old, new):
    return len(old) - len(new)


def run_circuit_case(case, acc):
    from tangelo.linq import Circuit
    from tangelo.linq import circuit as CM
    word, nq, level = case["word"], case.get("nq"), case.get("level", "all")
    cx = Ctx(acc, case)
    U = sorted(used(word))
    reg = list(range(nq)) if nq else U

    def fresh():
        return mk_circ(word, nq)

    def guarded(transf, fn):
        try:
            return True, fn()
        except Exception as e:  # a transformation documented for this input must not raise
            cx.bad(transf, "exception", {"err": repr(e)[:300]})
            return False, None

    def unchanged(transf, c, s0):
        acc.ev()
        if snap(c) != s0:
            cx.bad(transf, "input-mutated", {"before": s0, "after": snap(c)})

    # ---- inverse --------------------------------------------------------------------------------------------------
    if level == "all":
        def then_relabel_result(transf, r, operands):
            """History: the result of an out-of-place transformation is re-indexed / trimmed IN PLACE afterwards; the operands of the
            transformation must not move (index lists shared between result and operand would)."""
            try:
                k_ = len(r._qubit_indices)
                if k_ >= 2:
                    r.reindex_qubits([(i + 1) % k_ for i in range(k_)])
                r.trim_qubits()
            except Exception as e:
                cx.bad(transf + ">reindex_qubits", "exception", {"err": repr(e)[:200]})
                return
            acc.ev()
            for o, so in operands:
                unchanged(transf + "(then the result is re-indexed in place)", o, so)

        c = fresh(); s0 = snap(c)
        ok, r = guarded("inverse", c.inverse)
        if ok:
            acc.ev()
            check_unitary(cx, "inverse", word, gl(r), U, U, adj=True)
            unchanged("inverse", c, s0)
            ok3, r3 = guarded("inverse", c.inverse)
            if ok3:
                then_relabel_result("inverse", r3, [(c, s0)])
            if r.width != c.width:
                cx.bad("inverse", "width", {"old": c.width, "new": r.width})
            # double inverse
            ok2, r2 = guarded("inverse.inverse", r.inverse)
            if ok2:
                acc.ev()
                check_unitary(cx, "inverse.inverse", word, gl(r2), U, U)

        # ---- copy -------------------------------------------------------------------------------------------------
        c = fresh(); s0 = snap(c)
        ok, r = guarded("copy", c.copy)
        if ok:
            acc.ev()
            if snap(r) != s0:
                cx.bad("copy", "differs", {"orig": s0, "copy": snap(r)})
            # independence: mutate the copy in place, the original must not move
            for g in r._gates:
                g.target = [t + 1 for t in g.target]
                if isinstance(g.parameter, float):
                    g.parameter += 1.0
            unchanged("copy(then mutate copy)", c, s0)

        # ---- repetition -------------------------------------------------------------------------------------------
        for k in (2, 3):
            c = fresh(); s0 = snap(c)
            ok, r = guarded(f"mul", lambda: c * k)
            if ok:
                acc.ev()
                check_unitary(cx, "mul", word * k, gl(r), U, U, exact_phase=True)
                unchanged("mul", c, s0)
                if k == 2:
                    ok3, r3 = guarded("mul", lambda: c * k)
                    if ok3:
                        then_relabel_result("mul", r3, [(c, s0)])
                if r.width != c.width:
                    cx.bad("mul", "width", {"old": c.width, "new": r.width, "k": k})
        c = fresh()
        ok, r = guarded("rmul", lambda: 2 * c)
        if ok:
            acc.ev()
            check_unitary(cx, "rmul", word * 2, gl(r), U, U, exact_phase=True)

        # ---- concatenation: every split point -------------------------------------------------------------------------
        for i in range(0, len(word) + 1):
            a, b = mk_circ(word[:i], nq), mk_circ(word[i:], None)
            sa, sb = snap(a), snap(b)
            ok, r = guarded("add", lambda: a + b)
            if ok:
                acc.ev()
                check_unitary(cx, "add", word, gl(r), U, U, exact_phase=True)
                unchanged("add(left)", a, sa)
                unchanged("add(right)", b, sb)
                if 0 < i < len(word):
                    ok3, r3 = guarded("add", lambda: a + b)
                    if ok3:
                        then_relabel_result("add", r3, [(a, sa), (b, sb)])
                if r.width < max(a.width, b.width):
                    cx.bad("add", "width", {"a": a.width, "b": b.width, "sum": r.width})

    # ---- trim_qubits (in place, returns self) ---------------------------------------------------------------------------
    c = fresh()
    ok, r = guarded("trim_qubits", c.trim_qubits)
    if ok:
        acc.ev()
        if r is not c:
            cx.bad("trim_qubits", "does-not-return-self")
        if check_unitary(cx, "trim_qubits", word, gl(c), U, list(range(len(U))), exact_phase=True):
            if c.width != len(U):
                cx.bad("trim_qubits", "width", {"width": c.width, "used": len(U)})
        if U != list(range(len(U))):
            acc.nt(("trim", word))

    # ---- reindex_qubits: every permutation of the register ----------------------------------------------------------------
    if len(reg) <= 3:
        targets = list(itertools.permutations(range(len(reg))))
        if len(reg) <= 2:
            targets += [tuple(p) for p in itertools.permutations(range(len(reg) + 7), len(reg)) if max(p) >= 7][:6]
    else:
        targets = [tuple(reversed(range(len(reg)))), tuple(range(1, len(reg))) + (0,)]
    for perm in targets:
        c = fresh()
        ok, _ = guarded("reindex_qubits", lambda: c.reindex_qubits(list(perm)))
        if ok:
            acc.ev()
            new_reg = [perm[reg.index(q)] for q in U]
            if check_unitary(cx, "reindex_qubits", word, gl(c), U, new_reg, exact_phase=True):
                if c.width != max(perm) + 1:
                    cx.bad("reindex_qubits", "width", {"width": c.width, "perm": perm})
            if list(perm) != reg:
                acc.nt(("reindex", word, perm))

    # ---- split ------------------------------------------------------------------------------------------------------------
    for trim in (True, False):
        c = fresh(); s0 = snap(c)
        ok, parts = guarded("split", lambda: c.split(trim_qubits=trim))
        if ok:
            acc.ev()
            unchanged("split", c, s0)
            ent = c.get_entangled_indices()
            ref_comps = components(word)
            if sorted(map(sorted, ent)) != sorted(map(sorted, ref_comps)) or len(parts) != len(ent):
                cx.bad("split", "wrong-partition", {"entangled": [sorted(s) for s in ent], "ref": [sorted(s) for s in ref_comps]})
            else:
                try:
                    tot = np.eye(2 ** len(U), dtype=complex)
                    for p, s in zip(parts, ent):
                        s = sorted(s)
                        Up = SV.unitary_on(gl(p), list(range(len(s))) if trim else s)
                        tot = SV.embed(Up, [U.index(q) for q in s], len(U)) @ tot
                    d = SV.dist(tot, SV.unitary_on(word, U))
                    if d > TOL:
                        cx.bad("split", "unitary-mismatch", {"distance": d, "parts": [gl(p) for p in parts]})
                    if sum(p.size for p in parts) != len(word):
                        cx.bad("split", "gate-count", {"parts": [p.size for p in parts]})
                except KeyError as e:
                    cx.bad("split", "gate-outside-corresponding-qubits-or-unknown", {"err": repr(e)})
                if len(parts) > 1:
                    acc.nt(("split", word, trim))

    # ---- stack -------------------------------------------------------------------------------------------------------------
    others = case.get("stack_with") or []
    for ow in others:
        for order in (0, 1, 2):
            c, o = fresh(), mk_circ(ow, None)
            s0, so = snap(c), snap(o)
            if order == 0:
                ops, words = [c, o], [word, ow]
                ok, r = guarded("stack", lambda: c.stack(o))
            elif order == 1:
                ops, words = [o, c], [ow, word]
                ok, r = guarded("stack", lambda: CM.stack(o, c))
            else:
                c2 = fresh()
                ops, words = [c, o, c2], [word, ow, word]
                ok, r = guarded("stack", lambda: CM.stack(c, o, c2))
            if ok:
                acc.ev()
                unchanged("stack", c, s0)
                unchanged("stack", o, so)
                ref = np.eye(1, dtype=complex)
                for w in words:
                    uq = sorted(used(w))
                    ref = np.kron(ref, SV.unitary_on(w, uq))
                tot = sum(len(used(w)) for w in words)
                try:
                    d = SV.dist(ref, SV.unitary_on(gl(r), list(range(tot))))
                    if d > TOL:
                        cx.bad("stack", "unitary-mismatch", {"distance": d, "stacked": gl(r), "other": ow, "order": order})
                    elif r.width != tot:
                        cx.bad("stack", "width", {"width": r.width, "expected": tot})
                except KeyError as e:
                    cx.bad("stack", "gate-outside-corresponding-qubits-or-unknown", {"err": repr(e), "stacked": gl(r)})
                acc.nt(("stack", word, ow, order))

    # ---- the three passes: function (out of place) and method (in place) ----------------------------------------------------------
    passes = []
    for thr in (1e-3, 0.2):
        for rq in (False, True):
            passes.append((f"remove_small_rotations", dict(param_threshold=thr, remove_qubits=rq), thr))
    for rq in (False, True):
        passes.append(("remove_redundant_gates", dict(remove_qubits=rq), 0.0))
    passes.append(("merge_rotations", {}, 0.0))
    for mc_ in (1, 100):
        for thr in (1e-3, 0.2):
            passes.append(("simplify", dict(max_cycles=mc_, param_threshold=thr), thr))
    passes.append(("simplify", dict(remove_qubits=True), 1e-3))

    for name, kw, thr in passes:
        fn = getattr(CM, name)
        c = fresh(); s0 = snap(c)
        ok, r = guarded(name, lambda: fn(c, **kw))
        if ok:
            acc.ev()
            unchanged(name, c, s0)
            ng = gl(r)
            nrem = removed_count(word, ng)
            if nrem < 0:
                cx.bad(name, "grew", {"new": ng})
            bound = TOL + max(nrem, 0) * thr / 2
            good = check_unitary(cx, name, word, ng, reg if set(reg) >= used(ng) else sorted(set(reg) | used(ng)),
                                 reg if set(reg) >= used(ng) else sorted(set(reg) | used(ng)), bound=bound)
            # NB: the width reported by a pass is not part of C09 (simplify() narrows a circuit whose top qubit
            # lost all its gates even with remove_qubits=False - a documentation issue, not a change of action).
            if good and r.width < (max(used(ng)) + 1 if ng else 0):
                cx.bad(name, "width", {"new": r.width})
            if snap(r)[0] != s0[0]:
                acc.nt((name, kw, word))
            # in-place method must agree with the function
            c2 = fresh()
            ok2, _ = guarded(name + "(method)", lambda: getattr(c2, name)(**kw))
            if ok2:
                acc.ev()
                if snap(c2)[0] != snap(r)[0] or c2.width != r.width:
                    cx.bad(name + "(method)", "differs-from-function", {"method": snap(c2), "function": snap(r)})

    # ---- chains of two in-place passes (E2): a pass started from the output of another pass ------------------------------------
    if level == "all" and case.get("chains", True):
        ops = [("merge_rotations", {}, 0.0), ("remove_small_rotations", dict(param_threshold=0.2), 0.2),
               ("remove_redundant_gates", {}, 0.0), ("simplify", {}, 1e-3)]
        for (n1, k1, t1), (n2, k2, t2) in itertools.product(ops, ops):
            c = fresh()
            ok, _ = guarded(f"chain:{n1}>{n2}", lambda: (getattr(c, n1)(**k1), getattr(c, n2)(**k2)))
            if ok:
                acc.ev()
                acc.transitions += 2
                ng = gl(c)
                bound = TOL + max(removed_count(word, ng), 0) * max(t1, t2) / 2
                rr = reg if set(reg) >= used(ng) else sorted(set(reg) | used(ng))
                check_unitary(cx, f"chain:{n1}>{n2}", word, ng, rr, rr, bound=bound)
                # metadata of the object after in-place replacement must describe the new gate list
                if c.size != len(ng) or c.width < (max(used(ng)) + 1 if ng else 0):
                    cx.bad(f"chain:{n1}>{n2}", "object-inconsistent", {"size": c.size, "width": c.width})


    # ---- structural histories on ONE object: inspect / split / re-index / trim in every order (E2) -------------------------------
    # The oracle is purely structural (no unitaries): the entangled subsets and the parts returned by split must be those of the
    # gate list as it is NOW, after whatever relabelling the object went through.
    if level == "all" and case.get("chains", True) and nq is None and len(U) >= 2:
        def ent_subsets(w):
            comps = []
            for _, t, cq, _, _ in w:
                qn = set(t) | set(cq or [])
                for qs in comps[::-1]:
                    if qn & qs:
                        qn |= qs
                        comps.remove(qs)
                comps.append(qn)
            return sorted(sorted(x) for x in comps)

        def relabel_word(w, mp):
            return [[nm, [mp[q] for q in t], (None if cq is None else [mp[q] for q in cq]), p_, v] for nm, t, cq, p_, v in w]

        for hist in itertools.product(("ent", "split", "reidx", "trim"), repeat=3):
            c = fresh()
            cur = [list(d) for d in word]
            for step, op in enumerate(hist):
                acc.transitions += 1
                try:
                    if op == "ent":
                        got = sorted(sorted(x) for x in c.get_entangled_indices())
                        if got != ent_subsets(cur):
                            cx.bad("history:get_entangled_indices", "not-the-subsets-of-the-current-gate-list",
                                   {"history": list(hist[:step + 1]), "got": got, "expected": ent_subsets(cur)})
                            break
                    elif op == "split":
                        parts = c.split(trim_qubits=False)
                        got = sorted(gl(p_) for p_ in parts)
                        want = sorted([d for d in cur if (set(d[1]) | set(d[2] or [])) & set(comp)] for comp in ent_subsets(cur))
                        if got != want:
                            cx.bad("history:split", "parts-are-not-those-of-the-current-gate-list",
                                   {"history": list(hist[:step + 1]), "got": got, "expected": want})
                            break
                    elif op == "reidx":
                        qs = sorted(used(cur))
                        new = qs[1:] + qs[:1]
                        c.reindex_qubits(new)
                        cur = relabel_word(cur, dict(zip(qs, new)))
                    elif op == "trim":
                        qs = sorted(used(cur))
                        c.trim_qubits()
                        cur = relabel_word(cur, {q: i for i, q in enumerate(qs)})
                except Exception as e:
                    cx.bad(f"history:{op}", "exception", {"history": list(hist[:step + 1]), "err": repr(e)[:300]})
                    break
                acc.ev()
                if gl(c) != [SV.desc(mk_gate(d)) for d in cur]:
                    cx.bad(f"history:{op}", "gate-list-differs-from-the-modelled-relabelling", {"history": list(hist[:step + 1]), "got": gl(c)})
                    break


# ---------------------------------------------------------------------------------------------------------------------
# gate-level cases

def run_gate_eq(case, acc):
    g1, g2 = mk_gate(case["g1"]), mk_gate(case["g2"])
    acc.ev()
    try:
        eq = (g1 == g2)
        ne = (g1 != g2)
    except Exception as e:
        acc.violation(f"Gate.__eq__/exception/{case['g1'][0]}", case, {"err": repr(e)}, group="Gate.__eq__/exception")
        return
    if eq == ne:
        acc.violation(f"Gate.__eq__/ne-inconsistent/{case['g1'][0]}", case, None, group="Gate.__eq__/ne-inconsistent")
    if eq:
        q = sorted(used([case["g1"], case["g2"]]))
        d = SV.dist_up_to_phase(SV.unitary_on([case["g1"]], q), SV.unitary_on([case["g2"]], q))
        if case["g1"][3] != case["g2"][3] or case["g1"][0] != case["g2"][0]:
            acc.nt(("eq", case["g1"], case["g2"]))
        if d > TOL_EQ:
            acc.violation(f"Gate.__eq__/equal-but-different-operation/{case['g1'][0]}", case, {"distance": d},
                          group="Gate.__eq__/equal-but-different-operation")


def run_gate_inv(case, acc):
    g = mk_gate(case["g"])
    acc.ev()
    before = SV.desc(g)
    try:
        gi = g.inverse()
    except Exception as e:
        acc.violation(f"Gate.inverse/exception/{case['g'][0]}", case, {"err": repr(e)}, group="Gate.inverse/exception")
        return
    if SV.desc(g) != before:
        acc.violation(f"Gate.inverse/input-mutated/{case['g'][0]}", case, None, group="Gate.inverse/input-mutated")
    q = sorted(used([case["g"]]))
    d = SV.dist_up_to_phase(SV.unitary_on([case["g"]], q).conj().T, SV.unitary_on([SV.desc(gi)], q))
    acc.nt(("inv", case["g"]))
    if d > TOL:
        acc.violation(f"Gate.inverse/not-adjoint/{case['g'][0]}", case, {"distance": d, "inverse": SV.desc(gi)},
                      group="Gate.inverse/not-adjoint")
    if bool(gi.is_variational) != bool(g.is_variational):
        acc.violation(f"Gate.inverse/flag/{case['g'][0]}", case, None, group="Gate.inverse/flag")


def run_clifford(case, acc):
    from tangelo.linq.helpers.circuits.clifford_circuits import decompose_gate_to_cliffords
    g = mk_gate(case["g"])
    acc.ev()
    try:
        r = decompose_gate_to_cliffords(g)
    except ValueError:
        if case.get("exact"):
            acc.violation(f"decompose_gate_to_cliffords/refuses-exact-clifford-angle/{case['g'][0]}", case,
                          {"k": case.get("k")}, group="decompose_gate_to_cliffords/refuses-exact-clifford-angle")
        return
    except Exception as e:
        acc.violation(f"decompose_gate_to_cliffords/exception/{case['g'][0]}", case, {"err": repr(e)},
                      group="decompose_gate_to_cliffords/exception")
        return
    glist = [r] if not isinstance(r, list) else r
    from tangelo.linq.gate import CLIFFORD_GATES
    descs = [SV.desc(x) for x in glist]
    acc.nt(("cliff", case["g"]))
    for dsc in descs:
        if dsc[0] not in CLIFFORD_GATES:
            acc.violation(f"decompose_gate_to_cliffords/non-clifford-output/{case['g'][0]}", case, {"out": descs},
                          group="decompose_gate_to_cliffords/non-clifford-output")
    q = sorted(used([case["g"]]))
    try:
        d = SV.dist_up_to_phase(SV.unitary_on([case["g"]], q), SV.unitary_on(descs, q))
    except KeyError as e:
        acc.violation(f"decompose_gate_to_cliffords/unknown-gate/{case['g'][0]}", case, {"err": repr(e)},
                      group="decompose_gate_to_cliffords/unknown-gate")
        return
    tol = 1e-9 if case.get("exact") else 1.1e-4  # abs_tol=1e-4 on the angle -> operator distance <= 0.5e-4
    if d > tol:
        acc.violation(f"decompose_gate_to_cliffords/unitary-mismatch/{case['g'][0]}", case, {"distance": d, "out": descs},
                      group="decompose_gate_to_cliffords/unitary-mismatch")


# ---------------------------------------------------------------------------------------------------------------------

def bounds(tier, seed):
    al = alphabets(seed)
    return {"alphabet_sizes": {k: len(v) for k, v in al.items() if k != "g"}, "generic_angle": al["g"],
            "placements": PLACEMENTS, "tier": tier,
            "depth": {"quick": "full<=2 on P0..P3(+fixed width); reduced<=3 on P0; small<=3 on P1,P2",
                      "thorough": "full<=3 on P0; reduced<=3 on P1..P3(+fixed); small<=4 on P0"}[tier]}


def shards(tier, seed):
    al = alphabets(seed)
    sh = [{"kind": "gates", "seed": seed}]

    def words(alname, depth, pl, nq=None, level="all", chains=True):
        n = len(al[alname])
        if depth >= 2:
            for i in range(n):
                sh.append({"kind": "words", "al": alname, "first": i, "depth": depth, "pl": pl, "nq": nq, "level": level,
                           "chains": chains, "seed": seed})
        else:
            sh.append({"kind": "words", "al": alname, "first": None, "depth": depth, "pl": pl, "nq": nq, "level": level,
                       "chains": chains, "seed": seed})

    if tier == "quick":
        words("full", 2, "P0")
        words("full", 2, "P0", nq=5, level="index")
        for p in ("P1", "P2", "P3"):
            words("full", 2, p, level="index")
        words("full", 2, "P1", nq=8, level="index")
        words("reduced", 3, "P0", chains=False)
        words("small", 3, "P2", level="index")
    else:
        words("full", 3, "P0", chains=False)
        words("full", 2, "P0")
        words("full", 2, "P0", nq=5)
        for p in ("P1", "P2", "P3"):
            words("full", 2, p)
            words("reduced", 3, p, level="index")
        words("reduced", 3, "P1", nq=8, level="index")
        words("reduced", 3, "P0")
        words("small", 4, "P0", chains=False)
    return sh


def iter_words(alpha, first, depth):
    """All words of length 1..depth (length 0 too when first is None / first==0) whose first symbol is `first`."""
    n = len(alpha)
    if first is None:
        yield ()
        for L in range(1, depth + 1):
            yield from itertools.product(range(n), repeat=L)
    else:
        if first == 0:
            yield ()
        for L in range(0, depth):
            for rest in itertools.product(range(n), repeat=L):
                yield (first,) + rest


def run_shard(sh):
    acc = Acc()
    al = alphabets(sh["seed"])
    if sh["kind"] == "gates":
        full = al["full"]
        extra = []
        g = al["g"]
        # extra parameter aliases for equality: same gate, parameter shifted by 2pi / 4pi / tiny
        for d in full:
            if isinstance(d[3], float):
                for sh_ in (2 * PI, -2 * PI, 4 * PI, 1e-9):
                    extra.append([d[0], d[1], d[2], d[3] + sh_, d[4]])
        pool = full + extra
        for d in pool:
            run_gate_inv({"kind": "gate_inv", "g": d}, acc)
            acc.states += 1
        for a, b in itertools.product(pool, pool):
            if a[1] == b[1] and a[2] == b[2]:
                run_gate_eq({"kind": "gate_eq", "g1": a, "g2": b}, acc)
                acc.transitions += 1
        for name in ("RX", "RY", "RZ", "PHASE"):
            for k in range(-8, 9):
                for off, exact in ((0.0, True), (1e-5, False), (-1e-5, False)):
                    for tq in (0, 3):
                        run_clifford({"kind": "clifford", "g": [name, [tq], None, k * PI / 2 + off, False], "k": k,
                                      "exact": exact}, acc)
                        acc.states += 1
        for d in full:
            if d[0] in ("H", "S", "X", "Y", "Z", "CNOT", "CX", "CY", "CZ", "SWAP"):
                run_clifford({"kind": "clifford", "g": d, "exact": True}, acc)
        acc.sample({"kind": "gate_eq", "g1": pool[7], "g2": pool[8]})
        return acc
    alpha = al[sh["al"]]
    pl = PLACEMENTS[sh["pl"]]
    stack_with = [place([alpha[0]], (4, 1, 0)), place([["CNOT", [1], [0], "", False], ["RZ", [1], None, al["g"], False]], (7, 2, 0))]
    for idx in iter_words(alpha, sh["first"], sh["depth"]):
        word = place([alpha[i] for i in idx], pl)
        if not word:
            continue
        case = {"kind": "circ", "word": word, "nq": sh["nq"], "level": sh["level"], "chains": sh["chains"],
                "stack_with": stack_with if len(idx) <= 2 else stack_with[:1]}
        acc.states += 1
        acc.transitions += 1
        run_circuit_case(case, acc)
        if len(idx) == 3 and idx[1] == 4 and idx[2] == 5:
            acc.sample(case, cap=2)
    return acc


def replay_case(case):
    acc = Acc()
    k = case.get("kind")
    if k == "circ":
        run_circuit_case(case, acc)
        foc = case.get("focus")
        if foc:
            acc.viol = {key: v for key, v in acc.viol.items() if key.startswith(foc + "/")} or acc.viol
    elif k == "gate_eq":
        run_gate_eq(case, acc)
    elif k == "gate_inv":
        run_gate_inv(case, acc)
    elif k == "clifford":
        run_clifford(case, acc)
    return acc


def selftest():
    SV.selftest()


if __name__ == "__main__":
    import sys
    runner.main(sys.modules[__name__])
