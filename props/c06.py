"""C06 - Pauli-exponential and time-evolution circuits implement exp(-itH).

E1 (bounded-exhaustive inputs): (a) exp_pauliword_to_gates on every Pauli word x coefficient x control; (b)
get_exponentiated_qubit_operator_circuit / trotterize on every 1-3 term qubit operator over small word alphabets x
coefficients x time (scalar / per-term dict) x Trotter order x steps x control x pauli_order; (c) trotterize on fermionic
Hermitian operators on 4 spin-orbitals x encodings; (d) TrotterSuzukiUnitary.build_circuit.
Oracle: mc.ref.trotter (dense expm, projector-built controlled unitaries, rigorous product-formula commutator bounds)
against the unitary of the returned gate list computed with mc.ref.statevec gate semantics.
"""
import itertools
import math

import numpy as np

from mc import runner
from mc.runner import Acc
from mc.ref import statevec as SV
from mc.ref import trotter as TR

PID = "C06"
DESIGN_REF = "DESIGN.md section 2 / C06"
ENGINE = "seqspace (bounded-exhaustive operators x options; no sampling)"
RULE = ("cases = (a) every non-identity Pauli word on 3 qubits x 7 coefficients x 7 control choices x variational flag; "
        "(b) every ordered tuple of 1-3 distinct words over the 16 two-qubit words / a 10-word three-qubit alphabet "
        "(quick: sub-alphabets for 3 terms) x coefficient assignment x time (3 scalars, per-term dicts) x trotter_order x "
        "n_trotter_steps x control (none/int/one/two/two reversed/qubit 0/qubit 0 + another) x call "
        "(get_exponentiated_qubit_operator_circuit with and without pauli_order permutation, trotterize), see bounds for "
        "the exact grids; (c) sums of 1-2 Hermitian fermionic generators on 4 spin-orbitals x JW/BK/scBK/JKMN x both "
        "orderings x time scalar/dict x order x steps x control; (d) TrotterSuzukiUnitary over operators x time x order x "
        "n_trotter_steps x n_steps{1,2,4} x control x method. A case is non-trivial when the returned circuit contains "
        "at least one gate (or a non-unit phase is returned); distinct = distinct (call site, operator incl. term order, "
        "time, order, steps, control). Commuting term sets (decided on the words) must give exp(-itH) to 1e-9 "
        "including the phase (controlled version when controlled); the others must stay within the rigorous "
        "commutator bound of the product formula for the term order used")
ASSUMPTIONS = [
    "registers <= 6 qubits (<= 3-qubit words / 4 spin-orbitals plus <= 2 control qubits); coefficients, times outside "
    "the finite alphabets are not explored; 3-term operators use cyclic coefficient/time assignments",
    "gate semantics are the textbook definitions of mc/ref/gates.py (RZ(t)=exp(-itZ/2), PHASE(t)=diag(1,e^{it}), "
    "controls by projector construction); spectral-norm comparison, absolute tolerance 1e-9",
    "non-commuting terms: Childs-Su-Tran-Wiebe-Zhu Prop. 9/10 bounds evaluated numerically for the ordered term list "
    "(first listed applied first / outermost); orders 4 and 6: second-order bound times sum_i |s_i|^3 over the S2 "
    "pieces of the Suzuki recursion (rigorous by the triangle inequality) plus the non-rigorous convergence "
    "statement err(2r) <= err(r)/4 for sum_j|c_j t_j|/r <= 0.7 and err(r) > 1e-7",
    "fermionic path: for JW the target is built from ladder matrices written out on occupation kets; for BK/scBK/JKMN "
    "the qubit image of the operator is taken from fermion_to_qubit_mapping (faithfulness of encodings is C03); scBK only "
    "for generators conserving particle-number and spin parity, n_electrons=2; non-commuting images use the "
    "order-independent form of the commutator bounds",
    "rotations the code drops (|coef| <= 1e-10) are allowed for with their total angle as slack; non-Hermitian "
    "inputs are outside the property",
    "TrotterSuzukiUnitary.build_circuit returns no phase: without control the comparison is up to the global phase "
    "(the better of the identity-term phase and the overlap-maximising phase)",
]
TOL = 1e-9
PI = math.pi
MAXQ = 6


# ---------------------------------------------------------------------------------------------------------------------
# alphabets

def alph(seed):
    d = runner.seed_delta(seed)
    g = round(0.4 + 0.1 * d, 6)
    e = round(0.05 * d, 6)
    return {"pw_coefs": [g, -g, -7.1, 2 * PI + 0.3, -2 * PI - 0.3, 1e-12, 0.0],
            "C": [round(0.7 + e, 6), round(-(0.45 + e), 6), 2 * PI + 0.2],
            "T": [0.3, -0.3, 1.0]}


def mkword(ps):
    return [[q, p] for q, p in enumerate(ps) if p != "I"]


W2 = [mkword(ps) for ps in itertools.product("IXYZ", repeat=2)]          # index 0 = identity
W3 = [mkword(ps) for ps in ("III", "IIZ", "XIX", "YZI", "IYY", "XZY", "ZZZ", "YXX", "ZXZ", "XYZ")]
W2Q = [W2[i] for i in (0, 1, 3, 4, 6, 9, 11, 15)]     # II, IX, IZ, XI, XY, YX, YZ, ZZ: 8-word sub-alphabet
W3Q = [W3[i] for i in (0, 2, 5, 6, 7)]
PW3 = [mkword(ps) for ps in itertools.product("IXYZ", repeat=3)][1:]       # 63 non-identity words


def shift(word, s):
    return [[q + s, p] for q, p in word]


def controls_for(nq):
    """name -> (shift of the words, control argument); nq = number of qubits the words may touch."""
    a, b = nq, nq + 1
    return {"none": (0, None), "int": (0, a), "one": (0, [a]), "two": (0, [a, b]), "two_rev": (0, [b, a]),
            "q0": (1, [0]), "q0+": (1, [0, b]),
            "int0": (1, 0)}      # the integer 0 as control (falsy value): words shifted to qubits 1..


def cyc(vals, k, j):
    return [vals[(j + i) % len(vals)] for i in range(k)]


# ---------------------------------------------------------------------------------------------------------------------
# fast unitary of a gate list with the reference gate semantics (per-gate full matrices cached)

_GM = {}


def gate_full(d, reg):
    name, t, c, p, _ = d
    key = (name, tuple(t), tuple(c) if c else None, p if isinstance(p, str) or p is None else float(p), reg)
    M = _GM.get(key)
    if M is None:
        if len(_GM) > 3000:
            _GM.clear()
        M = _GM[key] = SV.unitary_on([d], list(reg))
    return M


def circ_unitary(descs, reg):
    U = np.eye(2 ** len(reg), dtype=complex)
    for d in descs:
        U = gate_full(d, reg) @ U
    return U


def descs_of(gates):
    return [SV.desc(g) for g in gates]


def ctl_list(control):
    if control is None:
        return []
    if isinstance(control, int):
        return [control]
    return list(control)


def ctl_sig(control):
    cl = ctl_list(control)
    if not cl:
        return "ctl-none"
    s = "ctl-int" if isinstance(control, int) else ("ctl-one" if len(cl) == 1 else "ctl-multi")
    return s + ("+q0" if 0 in cl else "")


_TC = {}


def target_unitary(Hs_key, Hs, wq, cq, reg):
    """(controlled-)exp(-i Hs) on the register; Hs dense on the ordered qubits wq."""
    key = (Hs_key, tuple(wq), tuple(cq), reg)
    V = _TC.get(key) if Hs_key is not None else None
    if V is None:
        pos = {q: i for i, q in enumerate(reg)}
        Vs = TR.evolution_of(Hs, 1.0)
        if cq:
            V = TR.controlled_on(Vs, [pos[q] for q in wq], [pos[q] for q in cq], len(reg))
        else:
            V = TR.place(Vs, [pos[q] for q in wq], len(reg))
        if Hs_key is not None:
            if len(_TC) > 2000:
                _TC.clear()
            _TC[key] = V
    return V


def judge(acc, site, case, sig, descs, phase, wq, Hs, Hs_key, commuting, bound_fn, control, slack=0.0, up_to_phase=None):
    """Compare phase * unitary(descs) with (controlled-)exp(-i Hs).
    commuting -> equality (TOL); else distance <= bound_fn() + TOL. up_to_phase: None, or the unit complex number the
    code is known to leave out (then the better of that phase and the overlap-maximising phase is used)."""
    cq = ctl_list(control)
    used = set()
    for d in descs:
        used.update(d[1])
        used.update(d[2] or [])
    reg = tuple(sorted(set(wq) | set(cq) | used))
    if len(reg) > MAXQ:
        acc.violation(f"{site}/gate-outside-register/{sig}", case, {"register": reg}, group=f"{site}/gate-outside-register")
        return None
    acc.ev()
    try:
        U = circ_unitary(descs, reg)
    except KeyError as e:
        acc.violation(f"{site}/unknown-gate/{sig}", case, {"err": repr(e)}, group=f"{site}/unknown-gate")
        return None
    V = target_unitary(Hs_key, Hs, wq, cq, reg)
    if up_to_phase is None:
        dist = float(np.linalg.norm(phase * U - V, 2))
    else:
        dist = min(float(np.linalg.norm(up_to_phase * U - V, 2)), SV.dist_up_to_phase(U, V))
    nontrivial = bool(descs) or abs(phase - 1) > 1e-12
    if commuting:
        acc.count("commuting_exact_checks")
        if not dist <= TOL + slack:
            acc.violation(f"{site}/unitary-mismatch/{sig}", case,
                          {"distance": dist, "tolerance": TOL + slack, "phase": phase, "n_gates": len(descs), "repro": repro(case)},
                          group=f"{site}/unitary-mismatch")
    else:
        bound = bound_fn()
        acc.count("bound_checks")
        if bound >= 2.0:
            acc.count("bound_checks_vacuous(bound>=2)")
            nontrivial = False
        elif dist > 0.1 * bound:
            acc.count("bound_checks_error>0.1*bound")
        if not dist <= bound + TOL + slack:
            acc.violation(f"{site}/bound-exceeded/{sig}", case,
                          {"distance": dist, "bound": bound, "phase": phase, "n_gates": len(descs), "repro": repro(case)},
                          group=f"{site}/bound-exceeded")
    acc.out((len(descs), sum(1 for d in descs if d[2]), round(float(np.real(phase)), 6), round(float(np.imag(phase)), 6),
             round(dist, 3)))
    return dist, nontrivial


def raised(acc, site, case, sig, e):
    """A documented input must not raise. The key keeps only what discriminates exceptions: control shape, presence of an
    identity term (and the encoding for fermionic input), exception type."""
    acc.ev()
    parts = [p for p in sig.split("/") if p.startswith("ctl-") or p in ("identity-term", "no-identity", "JW", "BK", "scBK", "JKMN")]
    sig = "/".join(parts)
    acc.violation(f"{site}/exception/{sig}/{type(e).__name__}", case, {"err": repr(e)[:300], "repro": repro(case)},
                  group=f"{site}/exception")


# ---------------------------------------------------------------------------------------------------------------------
# (a) exp_pauliword_to_gates

def eval_pw(case, acc):
    from tangelo.toolboxes.ansatz_generator import ansatz_utils as AU
    word = tuple((q, p) for q, p in case["word"])
    coef, control = case["coef"], case["control"]
    site = "exp_pauliword_to_gates"
    sig = f"{ctl_sig(control)}/{'neg' if coef < 0 else 'nonneg'}{'>2pi' if abs(coef) > 2 * PI else ''}"
    acc.states += 1
    acc.transitions += 1
    try:
        gates = AU.exp_pauliword_to_gates(word, coef, variational=case.get("variational", True), control=control)
    except Exception as e:
        return raised(acc, site, case, sig, e)
    wq = sorted(q for q, _ in word)
    loc = {q: i for i, q in enumerate(wq)}
    Hs = TR.op_dense([(tuple((loc[q], p) for q, p in word), coef)], len(wq))
    r = judge(acc, site, case, sig, descs_of(gates), 1.0, wq, Hs, ("pw", word, coef), True, None, control)
    if r and coef != 0.0:
        acc.nt(("pw", word, coef, repr(control)))


# ---------------------------------------------------------------------------------------------------------------------
# (b) qubit operators

_BC = {}


def ordered_sums(eff, wq):
    """(pf1_sum, pf2_sum) of the ordered effective term list (cached)."""
    key = (tuple(eff), tuple(wq))
    v = _BC.get(key)
    if v is None:
        if len(_BC) > 20000:
            _BC.clear()
        loc = {q: i for i, q in enumerate(wq)}
        mats = TR.term_mats([(tuple((loc[q], p) for q, p in w), c) for w, c in eff], len(wq))
        v = _BC[key] = (TR.pf1_sum(mats), TR.pf2_sum(mats))
    return v


_CUBE = {o: TR.suzuki_cube_factor(o) for o in (2, 4, 6)}
_ABSF = {1: 1.0, 2: 1.0, 4: sum(abs(s) for s in TR.suzuki_s2_fractions(4)), 6: sum(abs(s) for s in TR.suzuki_s2_fractions(6))}


def bound_ordered(eff, wq, order, r):
    s1, s2 = ordered_sums(eff, wq)
    if order == 1:
        return s1 / (2.0 * r)
    return s2 / float(r * r) * _CUBE[order]


def drop_slack(eff, order):
    return sum(abs(c) for _, c in eff if 0 < abs(c) <= 1e-8) * _ABSF[order]


def build_qop(terms):
    from tangelo.toolboxes.operators import QubitOperator
    op = QubitOperator()
    for w, c in terms:
        op += QubitOperator(w, c)
    items = list(op.terms.items())
    if [w for w, _ in items] != [w for w, _ in terms]:
        raise RuntimeError(f"harness: operator term order {items} differs from the construction order {terms}")
    return op, items


def norm_terms(case_terms):
    return [(tuple((int(q), p) for q, p in w), float(c)) for w, c in case_terms]


def small_H(eff):
    wq = sorted({q for w, _ in eff for q, _ in w})
    loc = {q: i for i, q in enumerate(wq)}
    Hs = TR.op_dense([(tuple((loc[q], p) for q, p in w), c) for w, c in eff], len(wq))
    return wq, Hs


def call_qop(case, reverse_time_dict=False):
    """Run the real code for a 'qop' case; returns (circuit, phase, effective ordered term list, r)."""
    from tangelo.toolboxes.ansatz_generator import ansatz_utils as AU
    terms = norm_terms(case["terms"])
    time, order, control = case["time"], case["order"], case["control"]
    op, items = build_qop(terms)
    targ = {w: t for (w, _), t in zip(terms, time)} if isinstance(time, list) else time
    if reverse_time_dict:
        targ = dict(reversed(list(targ.items())))
    tlist = time if isinstance(time, list) else [time] * len(terms)
    if case["fn"] == "gexp":
        perm = case.get("perm")
        po = None if perm is None else [items[i] for i in perm]
        circ, ph = AU.get_exponentiated_qubit_operator_circuit(op, time=targ, trotter_order=order, control=control,
                                                               return_phase=True, pauli_order=po)
        r = 1
        idx = list(range(len(terms))) if perm is None else list(perm)
    else:
        r = case["steps"]
        circ, ph = AU.trotterize(op, time=targ, n_trotter_steps=r, trotter_order=order, control=control, return_phase=True)
        idx = list(range(len(terms)))
    eff = [(terms[i][0], terms[i][1] * tlist[i]) for i in idx]
    return circ, ph, eff, r


def check_qop_arguments(case, acc, site, sig, first_descs, first_phase):
    """The operator and the (per-term) time dictionary belong to the caller: unchanged after the call, and a second call with the
    very same objects returns the same circuit and phase."""
    from tangelo.toolboxes.ansatz_generator import ansatz_utils as AU
    import copy
    terms = norm_terms(case["terms"])
    time, order, control = case["time"], case["order"], case["control"]
    op, items = build_qop(terms)
    targ = {w: t for (w, _), t in zip(terms, time)} if isinstance(time, list) else time
    snap_op, snap_t = copy.deepcopy(dict(op.terms)), copy.deepcopy(targ)
    po = None
    if case["fn"] == "gexp" and case.get("perm") is not None:
        po = [items[i] for i in case["perm"]]
    snap_po = copy.deepcopy(po)
    outs = []
    acc.ev()
    for rep in range(2):
        try:
            if case["fn"] == "gexp":
                circ, ph = AU.get_exponentiated_qubit_operator_circuit(op, time=targ, trotter_order=order, control=control,
                                                                       return_phase=True, pauli_order=po)
            else:
                circ, ph = AU.trotterize(op, time=targ, n_trotter_steps=case["steps"], trotter_order=order, control=control,
                                         return_phase=True)
        except Exception as e:
            acc.violation(f"{site}/repeated-call-raises/{sig}", case, {"err": repr(e)[:200], "call": rep + 1, "repro": repro(case)},
                          group=f"{site}/repeated-call")
            return
        outs.append((descs_of(circ._gates), ph))
        if dict(op.terms) != snap_op or targ != snap_t or po != snap_po:
            what = "operator" if dict(op.terms) != snap_op else "time" if targ != snap_t else "pauli_order"
            acc.violation(f"{site}/argument-modified/{what}/{sig}", case, {"after": repr(targ)[:200], "before": repr(snap_t)[:200],
                                                                          "call": rep + 1, "repro": repro(case)},
                          group=f"{site}/argument-modified/{what}")
            return
    for d, ph in outs:
        if d != first_descs or abs(ph - first_phase) > 1e-12:
            acc.violation(f"{site}/repeated-call-with-the-same-arguments-differs/{sig}", case, {"repro": repro(case)},
                          group=f"{site}/repeated-call")
            return


def qop_site(case):
    if case["fn"] == "gexp":
        return "get_exponentiated_qubit_operator_circuit"
    return "trotterize"


def qop_sig(case):
    has_id = any(len(w) == 0 for w, _ in case["terms"])
    return (f"order{case['order']}/{'timedict' if isinstance(case['time'], list) else 'scalar'}/{ctl_sig(case['control'])}/"
            f"{'identity-term' if has_id else 'no-identity'}" + ("/pauli_order" if case.get("perm") is not None else ""))


def eval_qop(case, acc, want_dist=False):
    site, sig = qop_site(case), qop_sig(case)
    acc.states += 1
    acc.transitions += len(case["terms"])
    try:
        circ, ph, eff, r = call_qop(case)
    except RuntimeError:
        raise
    except Exception as e:
        raised(acc, site, case, sig, e)
        return None
    check_qop_arguments(case, acc, site, sig, descs_of(circ._gates), ph)
    if isinstance(case["time"], list) and len(set(map(repr, case["time"]))) > 1:
        # a per-term time dictionary is keyed by term: its insertion order must be immaterial
        acc.ev()
        try:
            circ2, ph2, _, _ = call_qop(case, reverse_time_dict=True)
            same = descs_of(circ2._gates) == descs_of(circ._gates) and abs(ph2 - ph) < 1e-12
        except RuntimeError:
            raise
        except Exception as e:
            same = False
        if not same:
            acc.violation(f"{site}/result-depends-on-insertion-order-of-time-dict/{sig}", case, {"repro": repro(case)},
                          group=f"{site}/time-dict-order")
    order = case["order"]
    wq, Hs = small_H(eff)
    commuting = TR.all_commute([w for w, _ in eff])
    res = judge(acc, site, case, sig, descs_of(circ._gates), ph, wq, Hs, ("q", tuple(sorted(eff))), commuting,
                lambda: bound_ordered(eff, wq, order, r), case["control"], slack=drop_slack(eff, order))
    if res and res[1]:
        acc.nt((site, tuple(eff), order, r, repr(case["control"])))
    if order > 2:
        acc.count("order>2_checks")
    return res[0] if res else None


def eval_conv(case, acc):
    """Orders 4/6, non-commuting terms: error(2r) <= error(r)/4 in the small-step regime (non-rigorous statement of
    the property: 'higher even orders: convergence'); each run is also held to the rigorous composite bound."""
    site = "trotterize"
    terms = norm_terms(case["terms"])
    tlist = case["time"] if isinstance(case["time"], list) else [case["time"]] * len(terms)
    lam = sum(abs(c * t) for (_, c), t in zip(terms, tlist))
    errs = {}
    for r in (1, 2, 4):
        sub = dict(case, kind="qop", fn="trot", steps=r)
        errs[r] = eval_qop(sub, acc)
        if errs[r] is None:
            return
    for r in (1, 2):
        if lam / r <= 0.7 and errs[r] > 1e-7:
            acc.ev()
            acc.count("convergence_checks")
            acc.nt(("conv", tuple(terms), repr(case["time"]), case["order"], r, repr(case["control"])))
            if errs[2 * r] > 0.0:
                ratio = errs[r] / errs[2 * r]
                acc.count("convergence_ratio>=%d" % (64 if ratio >= 64 else 16 if ratio >= 16 else 8 if ratio >= 8 else 4 if ratio >= 4 else 0))
            if not errs[2 * r] <= errs[r] / 4.0:
                acc.violation(f"{site}/no-convergence/order{case['order']}/{ctl_sig(case['control'])}", case,
                              {"errors_by_steps": errs, "sum|c t|": lam, "repro": repro(dict(case, kind="qop", fn="trot", steps=r))},
                              group=f"{site}/no-convergence")


# ---------------------------------------------------------------------------------------------------------------------
# (c) fermionic operators on 4 spin-orbitals (interleaved convention: even = alpha, odd = beta)

N_SO = 4


def generators():
    gens = []
    for p in range(N_SO):
        gens.append(["num", p])
    for p, q in itertools.combinations(range(N_SO), 2):
        gens.append(["hop", p, q])
    for p, q in itertools.combinations(range(N_SO), 2):
        gens.append(["nn", p, q])
    pairs = list(itertools.combinations(range(N_SO), 2))
    for (p, q), (r, s) in itertools.combinations(pairs, 2):
        gens.append(["dbl", p, q, r, s])
    return gens


def gen_ladders(g):
    k = g[0]
    if k == "num":
        return [((g[1], 1), (g[1], 0))]
    if k == "hop":
        p, q = g[1], g[2]
        return [((p, 1), (q, 0)), ((q, 1), (p, 0))]
    if k == "nn":
        p, q = g[1], g[2]
        return [((p, 1), (p, 0), (q, 1), (q, 0))]
    p, q, r, s = g[1:]
    return [((p, 1), (q, 1), (r, 0), (s, 0)), ((s, 1), (r, 1), (q, 0), (p, 0))]


def scbk_ok(g):
    """Premise of scBK (documented in check_operator): every term conserves occupation parity and spin parity."""
    for lad in gen_ladders(g):
        dn = sum(2 * a - 1 for _, a in lad)
        ds = sum((2 * a - 1) * (0.5 if p % 2 == 0 else -0.5) for p, a in lad)
        if dn % 2 != 0 or ds % 2 != 0:
            return False
    return True


def utd_mode(p, n_so=N_SO):
    return p // 2 + (n_so // 2 if p % 2 else 0)


def ferm_inputs(case):
    """-> (list of (ladder, coef, time)), in construction order."""
    out = []
    for g, c, t in case["gens"]:
        for lad in gen_ladders(g):
            out.append((lad, float(c), float(t)))
    return out


def call_ferm(case, reverse_time_dict=False):
    from tangelo.toolboxes.ansatz_generator import ansatz_utils as AU
    from tangelo.toolboxes.operators import FermionOperator
    lads = ferm_inputs(case)
    fop = FermionOperator()
    for lad, c, _ in lads:
        fop += FermionOperator(lad, c)
    if case["tdict"]:
        time = {lad: t for lad, _, t in (lads[::-1] if reverse_time_dict else lads)}
    else:
        time = lads[0][2]
    opts = {"qubit_mapping": case["mapping"], "up_then_down": case["utd"], "n_spinorbitals": case.get("n_so", N_SO), "n_electrons": 2}
    return AU.trotterize(fop, time=time, n_trotter_steps=case["steps"], trotter_order=case["order"],
                         mapping_options=opts, control=case["control"], return_phase=True)


_FQ = {}


def ferm_reference(case):
    """Qubit image (ordered (word, coef) list, from the code's mapping) and dense reference H of sum_j c_j t_j F_j."""
    n_so = case.get("n_so", N_SO)
    key = (repr(case["gens"]), case["mapping"], case["utd"], n_so)
    v = _FQ.get(key)
    if v is not None:
        return v
    from tangelo.toolboxes.operators import FermionOperator
    from tangelo.toolboxes.qubit_mappings.mapping_transform import fermion_to_qubit_mapping
    lads = ferm_inputs(case)
    ftot = FermionOperator()
    for lad, c, t in lads:
        ftot += FermionOperator(lad, c * t)
    qop = fermion_to_qubit_mapping(ftot, case["mapping"], n_spinorbitals=n_so, n_electrons=2, up_then_down=case["utd"])
    qterms = []
    for w, c in qop.terms.items():
        if abs(np.imag(c)) > 1e-12:
            raise RuntimeError(f"harness: Hermitian fermionic input mapped to a complex coefficient {c} for {w}")
        qterms.append((tuple(w), float(np.real(c))))
    nq = n_so - 2 if case["mapping"].upper() == "SCBK" else n_so
    Hq = TR.op_dense(qterms, nq)
    Hf = None
    if case["mapping"].upper() == "JW":
        rel = (lambda p: utd_mode(p, n_so)) if case["utd"] else (lambda p: p)
        Hf = TR.fermion_dense([(tuple((rel(p), a) for p, a in lad), c * t) for lad, c, t in lads], n_so)
    if len(_FQ) > 500:
        _FQ.clear()
    v = _FQ[key] = (qterms, Hq, Hf, nq)
    return v


def eval_ferm(case, acc):
    site = "trotterize(fermion)"
    sig = (f"{case['mapping']}/{'updown' if case['utd'] else 'interleaved'}/order{case['order']}/"
           f"{'timedict' if case['tdict'] else 'scalar'}/{ctl_sig(case['control'])}")
    acc.states += 1
    acc.transitions += len(case["gens"])
    try:
        circ, ph = call_ferm(case)
    except Exception as e:
        raised(acc, site, case, sig, e)
        return
    if case["tdict"] and len(case["gens"]) > 1:
        acc.ev()
        try:
            circ2, ph2 = call_ferm(case, reverse_time_dict=True)
            same = descs_of(circ2._gates) == descs_of(circ._gates) and abs(ph2 - ph) < 1e-12
        except Exception:
            same = False
        if not same:
            acc.violation(f"{site}/result-depends-on-insertion-order-of-time-dict/{sig}", case, {}, group=f"{site}/time-dict-order")
    qterms, Hq, Hf, nq = ferm_reference(case)
    if Hf is not None:
        acc.ev()
        dm = float(np.linalg.norm(Hq - Hf, 2))
        if dm > 1e-10:
            acc.violation(f"fermion_to_qubit_mapping/JW-image-differs-from-ladder-matrices/{sig}", case, {"distance": dm},
                          group="fermion_to_qubit_mapping/JW-image-differs-from-ladder-matrices")
            return
    Href = Hf if Hf is not None else Hq
    commuting = TR.all_commute([w for w, _ in qterms])
    order, r = case["order"], case["steps"]
    res = judge(acc, site, case, sig, descs_of(circ._gates), ph, list(range(nq)), Href,
                ("f", repr(case["gens"]), case["mapping"], case["utd"]), commuting,
                lambda: TR.pf_bound_any_order(qterms, order, 1.0, r), case["control"],
                slack=drop_slack(qterms, order))
    if res and res[1]:
        acc.nt((site, repr(case["gens"]), case["mapping"], case["utd"], case["tdict"], order, r, repr(case["control"])))


# ---------------------------------------------------------------------------------------------------------------------
# (d) TrotterSuzukiUnitary

def call_tsu(case):
    from tangelo.toolboxes.unitary_generator.trotter_suzuki import TrotterSuzukiUnitary
    terms = norm_terms(case["terms"])
    op, _ = build_qop(terms)
    tsu = TrotterSuzukiUnitary(op, time=case["time"], trotter_order=case["order"], n_trotter_steps=case["n_trotter"],
                               n_steps_method=case["ctor_method"])
    return tsu.build_circuit(case["n_steps"], control=case["control"], method=case["method"])


def eval_tsu(case, acc):
    site = "TrotterSuzukiUnitary.build_circuit"
    method = case["method"] or case["ctor_method"]
    has_id = any(len(w) == 0 for w, _ in case["terms"])
    sig = (f"{method}{'' if case['method'] else '(default)'}/order{case['order']}/{ctl_sig(case['control'])}/"
           f"{'identity-term' if has_id else 'no-identity'}")
    acc.states += 1
    acc.transitions += case["n_steps"]
    try:
        circ = call_tsu(case)
    except Exception as e:
        raised(acc, site, case, sig, e)
        return
    terms = norm_terms(case["terms"])
    T = case["time"] * case["n_steps"]
    eff = [(w, c * T) for w, c in terms]
    r = case["n_trotter"] * (case["n_steps"] if method == "repeat" else 1)
    wq, Hs = small_H(eff)
    commuting = TR.all_commute([w for w, _ in eff])
    order = case["order"]
    left_out = None
    if case["control"] is None:
        left_out = np.exp(-1j * sum(c for w, c in eff if len(w) == 0))
    res = judge(acc, site, case, sig, descs_of(circ._gates), 1.0, wq, Hs, ("q", tuple(sorted(eff))), commuting,
                lambda: bound_ordered(eff, wq, order, r), case["control"], slack=drop_slack(eff, order), up_to_phase=left_out)
    if res and res[1]:
        acc.nt((site, tuple(eff), order, case["n_trotter"], case["n_steps"], method, repr(case["control"])))


TSUH_OPS = [[[((0, "X"),), 0.7], [(), -0.45]],
            [[((0, "Z"), (1, "X")), 0.7], [((0, "X"),), -0.45]],
            [[((0, "Y"), (1, "Y")), -0.45], [((1, "Z"),), 0.7], [(), 0.7]]]
TSUH_MENU = [(ns, ctl, meth) for ns in (1, 2) for ctl in (None, 2, [2, 3], 3) for meth in ("", "time", "repeat")]


def eval_tsuh(case, acc):
    """E2-style: ONE TrotterSuzukiUnitary object answers a sequence of build_circuit calls (n_steps, control, method); every
    answer must be the circuit a fresh object returns for that call alone (no memory of earlier calls)."""
    from tangelo.toolboxes.unitary_generator.trotter_suzuki import TrotterSuzukiUnitary
    site = "TrotterSuzukiUnitary.build_circuit(history)"
    terms = norm_terms(case["terms"])

    def mk():
        op, _ = build_qop(terms)
        return TrotterSuzukiUnitary(op, time=case["time"], trotter_order=case["order"], n_trotter_steps=case["n_trotter"],
                                    n_steps_method=case["ctor_method"])
    acc.states += 1
    try:
        shared = mk()
        for step, idx in enumerate(case["history"]):
            ns, ctl, meth = TSUH_MENU[idx]
            acc.transitions += 1
            acc.ev()
            got = descs_of(shared.build_circuit(ns, control=ctl, method=meth)._gates)
            want = descs_of(mk().build_circuit(ns, control=ctl, method=meth)._gates)
            if got != want:
                acc.violation(f"{site}/answer-depends-on-earlier-calls/order{case['order']}/{case['ctor_method']}", case,
                              {"step": step, "call": [ns, ctl, meth], "n_gates_got": len(got), "n_gates_fresh": len(want)},
                              group=f"{site}/answer-depends-on-earlier-calls")
                return
    except Exception as e:
        raised(acc, site, case, f"order{case['order']}", e)
        return
    if len(case["history"]) > 1:
        acc.nt((site, repr(terms), case["order"], case["ctor_method"], tuple(case["history"])))


# ---------------------------------------------------------------------------------------------------------------------
# standalone reproduction script for a case

def repro(case):
    k = case.get("kind")
    L = ["import numpy as np", "from tangelo.toolboxes.operators import QubitOperator, FermionOperator",
         "from tangelo.toolboxes.ansatz_generator.ansatz_utils import *", "from tangelo.linq import Circuit, get_backend"]
    if k == "pw":
        L += [f"gates = exp_pauliword_to_gates({tuple(tuple(x) for x in case['word'])!r}, {case['coef']!r}, control={case['control']!r})",
              "print(Circuit(gates))"]
    elif k in ("qop", "conv", "tsu"):
        terms = norm_terms(case["terms"])
        L.append("op = " + " + ".join(f"QubitOperator({w!r}, {c!r})" for w, c in terms))
        if k == "tsu":
            L += ["from tangelo.toolboxes.unitary_generator.trotter_suzuki import TrotterSuzukiUnitary",
                  f"u = TrotterSuzukiUnitary(op, time={case['time']!r}, trotter_order={case['order']}, "
                  f"n_trotter_steps={case['n_trotter']}, n_steps_method={case['ctor_method']!r})",
                  f"circ = u.build_circuit({case['n_steps']}, control={case['control']!r}, method={case['method']!r})"]
        else:
            t = case["time"]
            targ = repr({w: tt for (w, _), tt in zip(terms, t)}) if isinstance(t, list) else repr(t)
            if case.get("fn") == "gexp":
                po = "None" if case.get("perm") is None else f"[list(op.terms.items())[i] for i in {case['perm']!r}]"
                L.append(f"circ, phase = get_exponentiated_qubit_operator_circuit(op, time={targ}, trotter_order={case['order']}, "
                         f"control={case['control']!r}, return_phase=True, pauli_order={po})")
            else:
                L.append(f"circ, phase = trotterize(op, time={targ}, n_trotter_steps={case.get('steps', 1)}, "
                         f"trotter_order={case['order']}, control={case['control']!r}, return_phase=True)")
        L.append("# compare phase * unitary(circ) with scipy.linalg.expm(-1j*t*H) (controlled version when control is given)")
    elif k == "ferm":
        lads = ferm_inputs(case)
        L.append("op = " + " + ".join(f"FermionOperator({lad!r}, {c!r})" for lad, c, _ in lads))
        t = repr({lad: t for lad, _, t in lads}) if case["tdict"] else repr(lads[0][2])
        L.append(f"circ, phase = trotterize(op, time={t}, n_trotter_steps={case['steps']}, trotter_order={case['order']}, "
                 f"mapping_options={{'qubit_mapping': {case['mapping']!r}, 'up_then_down': {case['utd']}, 'n_spinorbitals': 4, "
                 f"'n_electrons': 2}}, control={case['control']!r}, return_phase=True)")
    return "\n".join(L)


# ---------------------------------------------------------------------------------------------------------------------
# enumeration plans

def plan(tier):
    q = tier == "quick"
    allc = ["none", "int", "int0", "one", "two", "two_rev", "q0", "q0+"]
    return {
        "pw": {"words": 63, "coefs": 7, "controls": allc, "variational": "True for all; False additionally for none/one"},
        "b1": {"words": "W2(16)+W3(10)", "coefs": "all 3", "times": "3 scalars + integer 1 + 3 one-entry dicts", "orders": [1, 2, 4] if q else [1, 2, 4, 6],
               "steps": [1, 2, 3], "controls": allc, "calls": "trotterize(steps) + gexp + gexp(pauli_order)"},
        "b2": {"words": "all ordered pairs of W2 (240) and W3 (90)", "coefs": "cyclic 3 pairs" if q else "all 9 pairs",
               "times": "3 scalars + 3 cyclic dicts", "orders": [1, 2], "steps": [1, 2, 3],
               "controls": ["none", "one", "two_rev", "q0+"] if q else allc,
               "calls": "trotterize(steps) + gexp + gexp(pauli_order reversed)"},
        "b2hi": {"words": "all ordered pairs of W2 and W3", "coefs": "cyclic 3 pairs", "times": "0.3, -0.3, dict(0.3,-0.3)",
                 "orders": [4] if q else [4, 6], "steps": [1] if q else [1, 2], "controls": ["none", "two"], "calls": "trotterize"},
        "b3": {"words": "ordered triples of W2Q (8 words, 336) and W3Q (5 words, 60)" if q else "all ordered triples of W2 (3360) and W3 (720)",
               "coefs": "cyclic 3 triples", "times": "0.3, -0.3, one cyclic dict" if q else "3 scalars + 3 cyclic dicts",
               "orders": [1, 2], "steps": [2] if q else [1, 2, 3], "controls": ["none", "two_rev", "q0+"],
               "calls": "trotterize(steps) + gexp + gexp(pauli_order rotated)"},
        "conv": {"words": "non-commuting ordered pairs of W2Q" if q else "non-commuting ordered pairs of W2, triples of W2Q with a non-commuting pair",
                 "coefs": "generic two only", "times": "0.3, -0.3", "orders": [4] if q else [4, 6], "steps": "1,2,4",
                 "controls": ["none", "one"]},
        "ferm": {"generators": 31, "sets": "singles (4 coefficient/time/dict settings) + pairs over a 10-generator subset (2 settings)" if q
                 else "singles (2 coefficients x 3 times x scalar/dict) + all 465 pairs (3 settings)",
                 "mappings": ["JW", "BK", "scBK", "JKMN"], "up_then_down": [False, True], "orders": [1, 2],
                 "steps": [1, 2], "controls": "none / [nq] / [nq, nq+1]"},
        "tsu": {"operators": "all W2 singles; ordered pairs of W2Q", "coefs": "3 / cyclic", "times": [0.3, -0.3], "orders": [1, 2],
                "n_trotter_steps": [1, 2], "n_steps": [1, 2, 4], "controls": ["none", "int", "int0", "two", "q0"],
                "methods": "time, repeat, default(ctor=time), default(ctor=repeat)"},
    }


def bounds(tier, seed):
    a = alph(seed)
    return {"tier": tier, "alphabets": {"pauli_word_coefficients": a["pw_coefs"], "operator_coefficients": a["C"], "times": a["T"],
                                        "W2": 16, "W3": W3, "W2Q": W2Q, "W3Q": W3Q},
            "plan": plan(tier), "tolerance": TOL, "max_register": MAXQ}


def skeletons(tier, sec):
    """Deterministic list of operator skeletons of a section (everything else is expanded inside the shard)."""
    q = tier == "quick"
    if sec == "pw":
        return list(range(len(PW3)))
    if sec == "b1":
        return [("W2", (i,)) for i in range(16)] + [("W3", (i,)) for i in range(10)]
    if sec in ("b2", "b2hi"):
        return ([("W2", p) for p in itertools.permutations(range(16), 2)] +
                [("W3", p) for p in itertools.permutations(range(10), 2)])
    if sec == "b3":
        if q:
            return ([("W2Q", p) for p in itertools.permutations(range(len(W2Q)), 3)] +
                    [("W3Q", p) for p in itertools.permutations(range(len(W3Q)), 3)])
        return ([("W2", p) for p in itertools.permutations(range(16), 3)] +
                [("W3", p) for p in itertools.permutations(range(10), 3)])
    if sec == "conv":
        out = []
        al = W2Q if q else W2
        nm = "W2Q" if q else "W2"
        for p in itertools.permutations(range(len(al)), 2):
            if not TR.words_commute(al[p[0]], al[p[1]]):
                out.append((nm, p))
        if not q:
            for p in itertools.permutations(range(len(W2Q)), 3):
                if not TR.all_commute([W2Q[i] for i in p]):
                    out.append(("W2Q", p))
        return out
    if sec == "ferm":
        G = generators()
        singles = [(i,) for i in range(len(G))]
        if q:
            sub = [0, 1, 4, 5, 7, 10, 12, 16, 20, 27]
            pairs = list(itertools.combinations(sub, 2))
        else:
            pairs = list(itertools.combinations(range(len(G)), 2))
        return singles + pairs
    if sec == "tsu":
        return [("W2", (i,)) for i in range(16)] + [("W2Q", p) for p in itertools.permutations(range(len(W2Q)), 2)]
    raise KeyError(sec)


ALPHA = {"W2": (W2, 2), "W3": (W3, 3), "W2Q": (W2Q, 2), "W3Q": (W3Q, 3)}

def tsuh_cases(tier, part, nparts):
    L = 2 if tier == "quick" else 3
    i = 0
    for oi, terms in enumerate(TSUH_OPS):
        for order in (1, 2):
            for ctor in ("time", "repeat"):
                for l in range(1, L + 1):
                    for h in itertools.product(range(len(TSUH_MENU)), repeat=l):
                        i += 1
                        if i % nparts == part:
                            yield {"kind": "tsuh", "terms": terms, "time": 0.3, "order": order, "n_trotter": 1 + (oi % 2),
                                   "ctor_method": ctor, "history": list(h)}


N_PARTS = {"quick": {"pw": 7, "b1": 26, "b2": 40, "b2hi": 24, "b3": 24, "conv": 8, "ferm": 32, "tsu": 24},
           "thorough": {"pw": 7, "b1": 26, "b2": 96, "b2hi": 48, "b3": 160, "conv": 32, "ferm": 96, "tsu": 24}}


def shards(tier, seed):
    sh = []
    for i in range(16):
        sh.append({"kind": "tsuh", "part": i, "nparts": 16, "tier": tier, "seed": seed})
    for sec in ("b3", "b2", "ferm", "b2hi", "conv", "tsu", "b1", "pw"):
        n = N_PARTS[tier][sec]
        for i in range(n):
            sh.append({"kind": sec, "part": i, "nparts": n, "tier": tier, "seed": seed})
    return sh


def words_of(skel, sh):
    al, nq = ALPHA[skel[0]]
    return [al[i] for i in skel[1]], nq


def expand(sec, skel, tier, a):
    """All cases of one skeleton."""
    q = tier == "quick"
    C, T = a["C"], a["T"]
    if sec == "pw":
        word = PW3[skel]
        cts = controls_for(3)
        for coef in a["pw_coefs"]:
            for name, (s, ctl) in cts.items():
                yield {"kind": "pw", "word": shift(word, s), "coef": coef, "control": ctl, "variational": True}
                if name in ("none", "one"):
                    yield {"kind": "pw", "word": shift(word, s), "coef": coef, "control": ctl, "variational": False}
                if len(word) >= 2 and name in ("none", "one", "two_rev", "int0"):
                    # the same word with its factors listed in another order (a Pauli word is a set of (qubit, letter) factors)
                    w = [list(f) for f in shift(word, s)]
                    yield {"kind": "pw", "word": w[::-1], "coef": coef, "control": ctl, "variational": True, "listing": "reversed"}
                    if len(w) == 3:
                        yield {"kind": "pw", "word": [w[1], w[2], w[0]], "coef": coef, "control": ctl, "variational": True,
                               "listing": "rotated"}
        return
    if sec == "ferm":
        G = generators()
        gens = [G[i] for i in skel]
        k = len(gens)
        for mapping, n_so in [(m_, n_) for m_ in ("JW", "BK", "scBK", "JKMN") for n_ in (N_SO, N_SO + 2)]:
            if mapping == "scBK" and not all(scbk_ok(g) for g in gens):
                continue
            # the same generators inside a larger register (n_spinorbitals = 6): the operator does not touch the highest orbitals,
            # and the two register sizes alternate within one process (anything remembered from the other size would show)
            nq = n_so - 2 if mapping == "scBK" else n_so
            for utd in (False, True):
                if k == 1:
                    settings = [([c], [t], td) for c in C[:2] for t in T for td in (False, True)]
                    if q:
                        settings = [([C[0]], [0.3], False), ([C[1]], [-0.3], True), ([C[0]], [1.0], True), ([C[1]], [0.3], False)]
                else:
                    settings = [([C[0], C[1]], [0.3, 0.3], False), ([C[1], C[0]], [0.3, -0.3], True),
                                ([C[0], C[0]], [-0.3, 1.0], True)]
                    if q:
                        settings = settings[:2]
                if n_so != N_SO:
                    settings = settings[:1] if q else settings[:2]
                for cs, ts, td in settings:
                    for order in ((1, 2) if n_so == N_SO else (1,)):
                        for steps in ((1, 2) if n_so == N_SO else (2,)):
                            ctls = [None, [nq], [nq, nq + 1]] if k == 1 else [None, [nq + 1, nq]]
                            if n_so != N_SO:
                                ctls = [None, [nq]] if (k == 1 and nq + 1 <= MAXQ) else [None]
                            for ctl in ctls:
                                yield {"kind": "ferm", "gens": [[g, c, t] for g, c, t in zip(gens, cs, ts)], "tdict": td,
                                       "mapping": mapping, "utd": utd, "order": order, "steps": steps, "control": ctl, "n_so": n_so}
        return
    words, nq = words_of(skel, None)
    k = len(words)
    cts = controls_for(nq)
    P = plan(tier)[sec]

    def mk(ws, cs):
        return [[w, c] for w, c in zip(ws, cs)]

    if sec == "tsu":
        coefsets = [[c] for c in C] if k == 1 else [cyc(C, k, j) for j in range(3)]
        for cs in coefsets:
            for t in (0.3, -0.3):
                for order in (1, 2):
                    for nt in (1, 2):
                        for ns in (1, 2, 4):
                            for cn in P["controls"]:
                                s, ctl = cts[cn]
                                for ctor, meth in (("time", "time"), ("time", "repeat"), ("time", ""), ("repeat", "")):
                                    yield {"kind": "tsu", "terms": mk([shift(w, s) for w in words], cs), "time": t, "order": order,
                                           "n_trotter": nt, "n_steps": ns, "control": ctl, "method": meth, "ctor_method": ctor}
        return
    if sec == "conv":
        coefsets = [list(cs) for cs in itertools.product(C[:2], repeat=k)] if k == 2 else [cyc(C[:2], k, j) for j in range(2)]
        for cs in coefsets:
            for t in (0.3, -0.3):
                for order in P["orders"]:
                    for cn in P["controls"]:
                        s, ctl = cts[cn]
                        yield {"kind": "conv", "terms": mk([shift(w, s) for w in words], cs), "time": t, "order": order, "control": ctl}
        return
    # b1 / b2 / b2hi / b3
    if sec == "b1":
        coefsets = [[c] for c in C]
        times = list(T) + [1] + [[t] for t in T]          # 1 = integer time
        perms = [None, [0]]
    elif sec == "b2":
        coefsets = [cyc(C, 2, j) for j in range(3)] if q else [list(cs) for cs in itertools.product(C, repeat=2)]
        times = list(T) + [cyc(T, 2, j) for j in range(3)]
        perms = [None, [1, 0]]
    elif sec == "b2hi":
        coefsets = [cyc(C, 2, j) for j in range(3)]
        times = [0.3, -0.3, [0.3, -0.3]]
        perms = []
    else:
        coefsets = [cyc(C, 3, j) for j in range(3)]
        times = [0.3, -0.3, cyc(T, 3, 0)] if q else list(T) + [cyc(T, 3, j) for j in range(3)]
        perms = [None, [1, 2, 0]]
    if sec in ("b1", "b2"):
        # coefficient x time exactly a multiple of pi (or pi/2): exp(-i k pi P) = (-1)^k is NOT the identity once a control or the
        # returned phase is involved; the other term (if any) keeps a generic value
        exact = [(0.5, 2 * PI), (PI, 1.0), (-PI, 1.0), (1.0, 3 * PI), (2 * PI, 1.0), (0.25, 2 * PI), (PI, -1.0)]
        for c0, t0 in exact:
            for cn in P["controls"]:
                s, ctl = cts[cn]
                cs = [c0] + [C[0]] * (k - 1)
                terms = mk([shift(w, s) for w in words], cs)
                for order in (1, 2):
                    yield {"kind": "qop", "fn": "trot", "terms": terms, "time": t0, "order": order, "steps": 1, "control": ctl}
                    yield {"kind": "qop", "fn": "gexp", "terms": terms, "time": t0, "order": order, "control": ctl, "perm": None}
    for cs in coefsets:
        for cn in P["controls"]:
            s, ctl = cts[cn]
            terms = mk([shift(w, s) for w in words], cs)
            for t in times:
                for order in P["orders"]:
                    for steps in P["steps"]:
                        yield {"kind": "qop", "fn": "trot", "terms": terms, "time": t, "order": order, "steps": steps, "control": ctl}
                    for perm in perms:
                        yield {"kind": "qop", "fn": "gexp", "terms": terms, "time": t, "order": order, "control": ctl, "perm": perm}


EVAL = {"pw": eval_pw, "qop": eval_qop, "conv": eval_conv, "ferm": eval_ferm, "tsu": eval_tsu, "tsuh": eval_tsuh}


def run_shard(sh):
    acc = Acc()
    if sh["kind"] == "tsuh":
        n = 0
        for case in tsuh_cases(sh["tier"], sh["part"], sh["nparts"]):
            eval_tsuh(case, acc)
            n += 1
            if n == 5:
                acc.sample(case, cap=1)
        acc.count("cases_tsuh", n)
        return acc
    a = alph(sh["seed"])
    sk = skeletons(sh["tier"], sh["kind"])
    n = 0
    for skel in sk[sh["part"]::sh["nparts"]]:
        for case in expand(sh["kind"], skel, sh["tier"], a):
            EVAL[case["kind"]](case, acc)
            n += 1
            if n % 997 == 1:
                acc.sample(case, cap=1)
    acc.count(f"cases_{sh['kind']}", n)
    return acc


def replay_case(case):
    acc = Acc()
    EVAL[case["kind"]](case, acc)
    for key, (_, w) in acc.viol.items():
        rp = (w.get("detail") or {}).get("repro")
        if rp:
            print("--- standalone reproduction ---\n" + rp + "\n-------------------------------")
            break
    return acc


def selftest():
    SV.selftest()
    TR.selftest()
    # the fast per-gate-matrix product agrees with the reference simulator
    gl = [["H", [1], None, "", False], ["CRZ", [2], [4, 0], 0.7, True], ["CNOT", [2], [1], "", False], ["PHASE", [4], None, -0.3, False]]
    assert np.allclose(circ_unitary(gl, (0, 1, 2, 4)), SV.unitary_on(gl, [0, 1, 2, 4]))
    # degenerate registers: identity-only operator, controlled by one qubit -> diag(1, e^{-ic})
    V = target_unitary(None, TR.op_dense([((), 0.3)], 0), [], [5], (5,))
    assert np.allclose(V, np.diag([1, np.exp(-0.3j)]))
    assert np.allclose(target_unitary(None, TR.op_dense([((), 0.3)], 0), [], [], ()), [[np.exp(-0.3j)]])
    assert len(generators()) == 31 and sum(scbk_ok(g) for g in generators()) >= 15


if __name__ == "__main__":
    import sys
    runner.main(sys.modules[__name__])
