"""C16 - Operator arithmetic returns correct values and never mutates operands.

E2 (own level-synchronous BFS driver): the state is a pool of live operator objects (Tangelo / openfermion fermionic and
qubit operators, annotated and plain) plus a fixed set of scalars; a transition is one real Python operator call
(x+y, x-y, x*y in both orders, x+=y, x-=y, x*=y, x==y, including the same object on both sides); the result joins the
pool. After every transition every pool member except an in-place target is compared with its pre-state snapshot and the
result is compared with a dict-based reference computed from the pre-state values.
E1: MultiformOperator (array form): products, collapse, encodings and do_commute over exhaustive small sets.
"""
import copy
import itertools
import operator as _op

import numpy as np

from mc import runner
from mc.runner import Acc, h64

PID = "C16"
DESIGN_REF = "DESIGN.md section 2 / C16"
ENGINE = ("stategraph (level-synchronous BFS over pools of live operator objects, histories replayed on fresh objects) "
          "+ seqspace (MultiformOperator word pairs / integer arrays)")
RULE = ("pool part: states = canonical projections (class, annotations, term dict, object-alias pattern) of operand pools "
        "reachable by <= depth operator calls from the initial pool of each family (fermionic / qubit); every ordered pair "
        "(i,j) of pool members and scalars with at least one Tangelo object x every op in {+,-,*,+=,-=,*=,==} is a "
        "transition executed on the real objects; non-trivial = distinct (op, value of x, value of y) triples whose real "
        "call completed. array part: every pair of Pauli words / 2-term operators of the stated sets, every integer "
        "array of the stated shape; non-trivial = pairs whose product merges or cancels terms, arrays with duplicate rows, "
        "pairs that do not commute")
ASSUMPTIONS = [
    "operand menu is finite (initial pools listed in bounds); coefficients are dyadic rationals plus one generic value "
    "0.37+d (d from VERIF_SEED); chains up to the depth bound; depth 3 only on the reduced pools",
    "cross-family operations (fermionic op qubit) and pure openfermion/openfermion or openfermion/scalar transitions are "
    "not executed (not Tangelo code / not documented)",
    "a deliberate TypeError/RuntimeError/ValueError rejection is accepted (if no operand changed) except for pairs the "
    "documentation supports: operator with scalar, same class with compatible annotations, subclass instance on the "
    "right, plain Tangelo FermionOperator with openfermion FermionOperator, annotated QubitHamiltonian +,+=,== plain "
    "Tangelo QubitOperator; any other exception type (AttributeError...) is a violation everywhere",
    "operand comparison ignores entries whose coefficient is exactly zero and the Python type of coefficients",
    "result comparison is algebraic (missing term = 0) with relative tolerance 1e-9; '==' expectation is skipped when the "
    "largest relative coefficient difference lies in (1e-10, 1e-4)",
    "do_commute on multi-term operands: True is wrong only if the symbolic commutator is non-zero, False is wrong only "
    "if every pair of terms commutes",
    "MultiformOperator operands always built with an explicit common n_qubits; empty arrays are not passed to collapse",
]
TOL = 1e-9

# ---------------------------------------------------------------------------------------------------------------------
# Reference algebra (dict term -> complex). No openfermion / Tangelo in here.

_PMUL = {("X", "Y"): (1j, "Z"), ("Y", "X"): (-1j, "Z"), ("Y", "Z"): (1j, "X"), ("Z", "Y"): (-1j, "X"),
         ("Z", "X"): (1j, "Y"), ("X", "Z"): (-1j, "Y")}


def pauli_term_mul(t1, t2):
    """Product of two Pauli words given as sorted tuples ((qubit, letter), ...) -> (phase, word)."""
    d = dict(t1)
    ph = 1
    for q, p in t2:
        a = d.get(q)
        if a is None:
            d[q] = p
        elif a == p:
            del d[q]
        else:
            f, c = _PMUL[(a, p)]
            ph *= f
            d[q] = c
    return ph, tuple(sorted(d.items()))


def ref_add(a, b, sign=1):
    r = dict(a)
    for t, c in b.items():
        r[t] = r.get(t, 0) + sign * c
    return r


def ref_scale(a, s):
    return {t: c * s for t, c in a.items()}


def ref_mul(a, b, fam):
    r = {}
    for t1, c1 in a.items():
        for t2, c2 in b.items():
            if fam == "F":
                t, c = t1 + t2, c1 * c2
            else:
                ph, t = pauli_term_mul(t1, t2)
                c = ph * c1 * c2
            r[t] = r.get(t, 0) + c
    return r


def ref_diff(a, b):
    """Largest |a-b| coefficient difference relative to 1+max(|a|,|b|) (missing = 0) and the term where it occurs."""
    worst, where = 0.0, None
    for t in set(a) | set(b):
        x, y = complex(a.get(t, 0)), complex(b.get(t, 0))
        d = abs(x - y) / (1.0 + max(abs(x), abs(y)))
        if d > worst:
            worst, where = d, t
    return worst, where


def nz(d):
    return {t: complex(c) for t, c in d.items() if c != 0}


_P2 = {"I": np.eye(2), "X": np.array([[0, 1], [1, 0]]), "Y": np.array([[0, -1j], [1j, 0]]), "Z": np.diag([1.0, -1.0])}


def _dense(word_tuple, n):
    d = dict(word_tuple)
    m = np.eye(1)
    for q in range(n):
        m = np.kron(m, _P2[d.get(q, "I")])
    return m


def selftest():
    # Pauli reference vs dense matrices on 2 qubits, all 16x16 pairs
    ws = [word_to_term(a + b) for a in "IXYZ" for b in "IXYZ"]
    for w1 in ws:
        for w2 in ws:
            ph, t = pauli_term_mul(w1, w2)
            if not np.allclose(_dense(w1, 2) @ _dense(w2, 2), ph * _dense(t, 2)):
                raise SystemExit("HARNESS-ERROR: reference Pauli product disagrees with dense matrices")
            if word_commute(term_to_word(w1, 2), term_to_word(w2, 2)) != np.allclose(
                    _dense(w1, 2) @ _dense(w2, 2), _dense(w2, 2) @ _dense(w1, 2)):
                raise SystemExit("HARNESS-ERROR: reference commutation rule disagrees with dense matrices")
    a = {((2, 1), (0, 0)): 0.5, (): 2.0}
    b = {((1, 1),): 1j}
    if ref_mul(a, b, "F") != {((2, 1), (0, 0), (1, 1)): 0.5j, ((1, 1),): 2j} or ref_mul(b, a, "F") == ref_mul(a, b, "F"):
        raise SystemExit("HARNESS-ERROR: reference fermionic product")
    if nz(ref_add(a, a, -1)) != {}:
        raise SystemExit("HARNESS-ERROR: reference sum")


def word_to_term(word):
    """'XIZ' -> ((0,'X'),(2,'Z')) (character k = qubit k)."""
    return tuple((q, p) for q, p in enumerate(word) if p != "I")


def term_to_word(term, n):
    d = dict(term)
    return "".join(d.get(q, "I") for q in range(n))


def word_commute(w1, w2):
    return sum(1 for a, b in zip(w1, w2) if a != "I" and b != "I" and a != b) % 2 == 0


# ---------------------------------------------------------------------------------------------------------------------
# Pools of live operands

_CLS = {}


def classes():
    if not _CLS:
        import openfermion as of
        from tangelo.toolboxes.operators import FermionOperator, QubitOperator, QubitHamiltonian
        _CLS.update({"TF": FermionOperator, "OFF": of.FermionOperator, "TQ": QubitOperator, "OFQ": of.QubitOperator,
                     "QH": QubitHamiltonian})
        _CLS["_rev"] = {v: k for k, v in _CLS.items()}
    return _CLS


CLSNAME = {"TF": "FermionOperator", "OFF": "openfermion.FermionOperator", "TQ": "QubitOperator",
           "OFQ": "openfermion.QubitOperator", "QH": "QubitHamiltonian"}
TANGELO = ("TF", "TQ", "QH")
SCALARS = {"S2": lambda: 2, "S0.5": lambda: 0.5, "S1j": lambda: 1j, "Sf64": lambda: np.float64(3),
           "S0": lambda: 0, "S1": lambda: 1}        # 0 and 1: identity elements (sum() starts from 0), natural shortcut sites
SCALAR_SRC = {"S2": "2", "S0.5": "0.5", "S1j": "1j", "Sf64": "numpy.float64(3)", "S0": "0", "S1": "1"}


def F(*ops):
    """fermionic term from 'p^' / 'p' strings -> ((p,1),(q,0),...)"""
    return tuple((int(s.rstrip("^")), 1 if s.endswith("^") else 0) for s in ops)


def pool_spec(fam, which, seed):
    """[(name, class tag, annotations, [(term, coefficient), ...])]; scalars: list of scalar keys."""
    g = 0.37 + runner.seed_delta(seed)
    A = (4, 2, 0)
    if fam == "F":
        full = [
            ("TF", "TF", (None, None, None), [(F("2^", "0"), 0.5), (F("1^"), g)]),
            ("TFa", "TF", A, [(F("1^", "3"), 1.5), (F("3^", "1"), 1j)]),
            ("OFF", "OFF", None, [(F("0^", "1"), 2.0), (F("2^", "0"), 0.5)]),
            ("TFa2", "TF", A, [(F("1^", "3"), 0.25), (F("0^", "0"), 2.0)]),
            ("TF2", "TF", (None, None, None), [(F("2^", "0"), 2.0), ((), -1.5)]),
            ("TFb", "TF", (6, 2, 0), [(F("1^", "3"), 1.0)]),
            ("TFe", "TF", (None, None, None), []),          # empty operator (additive identity, start value of accumulations)
        ]
        ops = full if which == "full" else full[:4]
    else:
        X0Z1 = word_to_term("XZ")
        full = [
            ("TQ", "TQ", None, [(X0Z1, 0.5), (word_to_term("IY"), g)]),
            ("OFQ", "OFQ", None, [(word_to_term("YI"), 2.0), (X0Z1, -0.5)]),
            ("QHjw", "QH", ("JW", False), [(word_to_term("XY"), 1.5), (word_to_term("ZI"), 1j)]),
            ("QH0", "QH", (None, None), [(word_to_term("IZ"), 0.25), ((), 2.0)]),
            ("QHjw2", "QH", ("jw", False), [(word_to_term("XY"), -1.5), (word_to_term("IZ"), 1.0)]),
            ("QHbk", "QH", ("BK", True), [(word_to_term("ZI"), 1.5)]),
            ("TQ2", "TQ", None, [(word_to_term("IY"), 2.0), ((), 0.5)]),
            ("QHjwT", "QH", ("JW", True), [(word_to_term("XY"), 1.5), (word_to_term("ZI"), 1j)]),   # = QHjw up to ordering flag
            ("QHe", "QH", ("JW", False), []),               # empty annotated Hamiltonian (start value of accumulations)
            ("TQe", "TQ", None, []),                        # empty plain operator
        ]
        ops = full if which == "full" else full[:4]
    scal = list(SCALARS) if which == "full" else ["S2", "S1j", "S0"]
    return ops, scal


def build_operand(spec):
    name, tag, ann, terms = spec
    C = classes()[tag]
    if not terms:
        if tag == "TF":
            return C(n_spinorbitals=ann[0], n_electrons=ann[1], spin=ann[2])
        if tag == "QH":
            return C(mapping=ann[0], up_then_down=ann[1])
        return C()
    (t0, c0) = terms[0]
    if tag == "TF":
        o = C(t0, c0, n_spinorbitals=ann[0], n_electrons=ann[1], spin=ann[2])
    elif tag == "QH":
        o = C(t0, c0, mapping=ann[0], up_then_down=ann[1])
    else:
        o = C(t0, c0)
    for t, c in terms[1:]:
        o.terms[t] = c
    return o


def build_pool(fam, which, seed):
    ops, scal = pool_spec(fam, which, seed)
    return [build_operand(s) for s in ops], scal


def clone_pool(pool):
    """Copies of all pool members preserving object aliasing and term-dict sharing (values are immutable scalars)."""
    memo, dmemo, out = {}, {}, []
    for o in pool:
        c = memo.get(id(o))
        if c is None:
            c = copy.copy(o)
            d = dmemo.get(id(o.terms))
            if d is None:
                d = dmemo[id(o.terms)] = dict(o.terms)
            c.terms = d
            memo[id(o)] = c
        out.append(c)
    return out


def tag_of(o):
    t = classes()["_rev"].get(type(o))
    if t is not None:
        return t
    if isinstance(o, (int, float, complex, np.number)) and not isinstance(o, bool):
        return "S"
    return "?" + type(o).__name__


def ann_of(o, tag):
    if tag == "TF":
        return (o.n_spinorbitals, o.n_electrons, o.spin)
    if tag == "QH":
        return (o.mapping, o.up_then_down)
    return None


def snap(o):
    t = tag_of(o)
    return (t, ann_of(o, t), dict(o.terms))


def changed(o, pre):
    """None if the operand still has its pre-state value, else a short description."""
    t = tag_of(o)
    if t != pre[0]:
        return f"class {pre[0]}->{t}"
    a = ann_of(o, t)
    if a != pre[1]:
        return f"annotations {pre[1]}->{a}"
    if o.terms == pre[2]:
        return None
    x, y = nz(o.terms), nz(pre[2])
    if x == y:
        return None
    return "terms"


def cnum(c):
    c = complex(c)
    return (round(c.real, 10) + 0.0, round(c.imag, 10) + 0.0)


def canon_obj(o):
    t = tag_of(o)
    return (t, ann_of(o, t), tuple(sorted((k, cnum(v)) for k, v in o.terms.items())))


def canon_pool(pool):
    first = {}
    alias = tuple(first.setdefault(id(o), k) for k, o in enumerate(pool))
    return (tuple(canon_obj(o) for o in pool), alias)


def jterms(d):
    return [[repr(t), [complex(c).real, complex(c).imag]] for t, c in d.items()]


# ---------------------------------------------------------------------------------------------------------------------
# Transitions and their oracle

OPS = {"add": _op.add, "sub": _op.sub, "mul": _op.mul, "iadd": _op.iadd, "isub": _op.isub, "imul": _op.imul, "eq": _op.eq}
SYM = {"add": "+", "sub": "-", "mul": "*", "iadd": "+=", "isub": "-=", "imul": "*=", "eq": "=="}
BASE = {"add": "add", "sub": "sub", "mul": "mul", "iadd": "add", "isub": "sub", "imul": "mul"}
INPLACE = ("iadd", "isub", "imul")
REJECTIONS = (TypeError, RuntimeError, ValueError)


def menu(pool, scal):
    """All transitions enabled in this state: [op, i, j]; i, j = pool index or scalar key."""
    tags = [tag_of(o) for o in pool]
    refs = list(range(len(pool))) + list(scal)

    def tg(r):
        return "S" if isinstance(r, str) else tags[r]
    out = []
    for opn in ("add", "sub", "mul", "iadd", "isub", "imul", "eq"):
        for i in refs:
            ti = tg(i)
            if ti == "S" and opn in INPLACE + ("eq",):
                continue
            for j in refs:
                tj = tg(j)
                if tj == "S" and (ti == "S" or opn == "eq"):
                    continue
                if ti not in TANGELO and tj not in TANGELO:
                    continue        # pure openfermion / scalar: not Tangelo code
                out.append([opn, i, j])
    return out


def fully_annotated(ann):
    return ann is not None and ann[0] is not None and ann[1] is not None


def qh_mismatch(ax, ay):
    return fully_annotated(ax) and fully_annotated(ay) and (ax[0].upper() != ay[0].upper() or ax[1] != ay[1])


def must_succeed(opn, tx, ax, ty, ay):
    """Is the operation documented as supported for this pair of operand classes / annotations?"""
    if tx == "S" or ty == "S":
        return True
    if tx in ("TF", "OFF"):
        if tx == "TF" and ty == "TF":
            return ax == ay
        t_ann = ax if tx == "TF" else ay
        return t_ann == (None, None, None)          # Tangelo with openfermion: only un-annotated is accepted
    # qubit family
    if tx == "QH" and ty == "QH":
        return not qh_mismatch(ax, ay)
    if tx == ty:
        return True
    if opn == "eq":
        return True                                 # comparison between qubit operators of any class is defined
    sub_on_right = (tx == "OFQ" and ty in ("TQ", "QH")) or (tx == "TQ" and ty == "QH")
    if sub_on_right:
        return True
    if tx == "QH" and ty in ("TQ", "OFQ") and opn in ("add", "iadd"):
        return True                                 # "This check is ignored if comparing to a QubitOperator"
    return False


def site_of(opn, tx, ty):
    """Label of the Tangelo method Python dispatches to."""
    d = {"add": "add", "sub": "sub", "mul": "mul"}
    if opn == "eq":
        for t in ("QH", "TF", "TQ"):
            if t in (tx, ty):
                return f"{CLSNAME[t]}.__eq__"
    if opn in INPLACE:
        if tx in TANGELO:
            return f"{CLSNAME[tx]}.__{opn}__"
        return f"{CLSNAME[tx]}.__{opn}__({CLSNAME[ty]} operand)"
    if tx in TANGELO:
        return f"{CLSNAME[tx]}.__{d[opn]}__"
    return f"{CLSNAME[ty]}.__r{d[opn]}__"


def tangelo_frame(exc):
    """Qualified name of the innermost frame of the traceback that lies in Tangelo or openfermion."""
    tb, name = exc.__traceback__, None
    while tb is not None:
        co = tb.tb_frame.f_code
        fn = co.co_filename.replace("\\", "/")
        if "/tangelo/" in fn:
            name = getattr(co, "co_qualname", co.co_name)
        elif "/openfermion/" in fn:
            name = "openfermion:" + getattr(co, "co_qualname", co.co_name)
        tb = tb.tb_next
    return name


def ref_value(o, tag):
    if tag == "S":
        return {(): complex(o)}
    return {t: complex(c) for t, c in o.terms.items()}


def ann_flag(tag, ann):
    if tag == "TF":
        return "[annotated]" if ann != (None, None, None) else ""
    if tag == "QH":
        return "[annotated]" if fully_annotated(ann) else "[bare]"
    return ""


class Ctx:
    """Where a transition happens (for witnesses)."""

    def __init__(self, fam, which, seed):
        self.fam, self.which, self.seed = fam, which, seed
        self.names = [s[0] for s in pool_spec(fam, which, seed)[0]]

    def case(self, hist):
        return {"kind": "hist", "family": self.fam, "pool": self.which, "seed": self.seed, "hist": hist}


def report(acc, ctx, hist, group, sig, detail_fn):
    """Record a violation; the (expensive) detail is only built when this witness would be kept."""
    key = f"{group}/{sig}"
    if hist is None:
        return
    case = ctx.case(hist)
    old = acc.viol.get(key)
    if old is not None and old[0] <= len(runner.json.dumps(case)):
        acc.count("violating_cases")
        return
    d = detail_fn()
    d["script"] = script_for(ctx, hist)
    acc.violation(key, case, d, group=group)


def step(pool, scal_objs, tr, acc, hist, ctx):
    """Execute one transition on the live pool (mutates `pool`: rebinding / appending); oracle on everything."""
    opn, i, j = tr
    x = scal_objs[i] if isinstance(i, str) else pool[i]
    y = scal_objs[j] if isinstance(j, str) else pool[j]
    tx, ty = tag_of(x), tag_of(y)
    ax, ay = ann_of(x, tx), ann_of(y, ty)
    fam = "F" if (tx in ("TF", "OFF") or ty in ("TF", "OFF")) else "Q"
    pre = [snap(o) for o in pool]
    vx, vy = ref_value(x, tx), ref_value(y, ty)
    must = must_succeed(opn, tx, ax, ty, ay)
    site = site_of(opn, tx, ty)
    pair = f"{SYM[opn]}({tx}{ann_flag(tx, ax)},{ty}{ann_flag(ty, ay)})" + (",same-object" if x is y else "")

    exc = None
    r = None
    try:
        r = OPS[opn](x, y)
    except Exception as e:       # noqa: the kind of exception is part of the oracle
        exc = e
    quiet = hist is None
    if not quiet:
        acc.ev()

    def names(k):
        return ctx.names[k] if k < len(ctx.names) else f"r{k - len(ctx.names) + 1}"

    # 1. every operand other than the in-place target keeps its value
    for k, o in enumerate(pool):
        if opn in INPLACE and k == i:
            continue
        why = changed(o, pre[k])
        if why is None or quiet:
            continue
        role = "left" if (k == i) else "right" if (k == j) else "other"
        if opn in INPLACE and o is x:
            # an earlier out-of-place operation returned one of its operands: the in-place target has a second name
            grp = "chain/in-place-operation-on-a-result-changes-the-operand-it-aliases"
            sig = f"{site}/{pre[k][0]}"
        else:
            grp = f"{site}/operand-mutated"
            sig = f"{role}:{pre[k][0]}/{pair}" + ("/and-raised" if exc is not None else "")
        report(acc, ctx, hist, grp, sig, lambda k=k, o=o, why=why: {
            "operation": f"{names(i) if not isinstance(i, str) else i} {SYM[opn]} {names(j) if not isinstance(j, str) else j}",
            "mutated_operand": names(k), "what": why, "before": jterms(pre[k][2]), "after": jterms(o.terms),
            "raised": None if exc is None else repr(exc)[:160]})

    # 2. the outcome
    if exc is not None:
        kind = type(exc).__name__
        if not quiet:
            acc.out(("exc", opn, kind))
            where = tangelo_frame(exc) or (site + "(inherited)")
            if opn in INPLACE and x is y and where.startswith("openfermion:"):
                # `x += x` / `x -= x` with the SAME object on both sides fails inside openfermion's SymbolicOperator
                # (dictionary changed size during iteration). Not Tangelo code, and not "binary arithmetic on two
                # operands" in the sense of the property: counted, not reported (see DESIGN.md section 7).
                acc.count("tolerated_openfermion_inplace_self_alias")
            elif must or not isinstance(exc, REJECTIONS):
                report(acc, ctx, hist, f"{where}/raises-{kind}", pair, lambda: {
                    "operation": pair, "exception": repr(exc)[:300], "documented_as_supported": must})
            else:
                acc.count("tolerated_rejections")
        exc.__traceback__ = None
        return pool
    if opn == "eq":
        if quiet:
            return pool
        acc.out(("eq", bool(r) if isinstance(r, (bool, np.bool_)) else repr(r)))
        d, _ = ref_diff(vx, vy)
        close = True if d <= 1e-10 else False if d >= 1e-4 else None
        if close is None:
            acc.count("eq_ambiguous_skipped")
            return pool
        want = close
        if tx == "TF" and ty == "TF":
            want = close and ax == ay
        elif tx == "QH" and ty == "QH" and qh_mismatch(ax, ay):
            want = False
        acc.nt(("eq", want, tx, ty, ax == ay))
        if not isinstance(r, (bool, np.bool_)) or bool(r) != want:
            report(acc, ctx, hist, f"{site}/wrong-answer", pair, lambda: {
                "operation": pair, "returned": repr(r), "expected": want, "x": jterms(vx), "y": jterms(vy)})
        return pool

    base = BASE[opn]
    if base == "add":
        want = ref_add(vx, vy, 1)
    elif base == "sub":
        want = ref_add(vx, vy, -1)
    elif tx == "S" or ty == "S":
        want = ref_scale(vy, vx[()]) if tx == "S" else ref_scale(vx, vy[()])
    else:
        want = ref_mul(vx, vy, fam)
    tr_ = tag_of(r)
    if opn in INPLACE:
        pool[i] = r
        if r is not x and not quiet:
            acc.count("inplace_returned_new_object")
    else:
        pool.append(r)
    if quiet:
        return pool
    if tr_ not in CLSNAME:
        report(acc, ctx, hist, f"{site}/result-not-an-operator", pair, lambda: {"operation": pair, "returned": repr(r)[:200]})
        if opn not in INPLACE:
            pool.pop()
        else:
            pool[i] = x
        return pool
    got = {t: complex(c) for t, c in r.terms.items()}
    d, where = ref_diff(got, want)
    acc.out((opn, h64(repr(sorted((repr(k), cnum(v)) for k, v in got.items())))))
    acc.nt((opn, h64(repr(canon_obj_from(pre, i, x, tx))), h64(repr(canon_obj_from(pre, j, y, ty)))))
    if d > TOL:
        report(acc, ctx, hist, f"{site}/wrong-result", pair, lambda: {
            "operation": pair, "x": jterms(vx), "y": jterms(vy), "returned": jterms(got), "expected": jterms(nz(want)),
            "worst_term": repr(where), "rel_diff": d})
    # annotations of the result
    ar = ann_of(r, tr_)
    if ar is not None:
        if opn in INPLACE:
            ok = (tr_ == tx and ar == ax)
        else:
            allowed = [a for t, a in ((tx, ax), (ty, ay)) if t == tr_]
            ok = (ar in allowed) if allowed else all(v is None for v in ar)
        if not ok:
            report(acc, ctx, hist, f"{site}/wrong-annotations", pair, lambda: {
                "operation": pair, "result_annotations": ar, "x_annotations": ax, "y_annotations": ay})
    return pool


def canon_obj_from(pre, ref, obj, tag):
    if tag == "S":
        return ("S", type(obj).__name__, cnum(obj))
    p = pre[ref]
    return (p[0], p[1], tuple(sorted((k, cnum(v)) for k, v in p[2].items())))


def replay_hist(ctx, hist, acc=None):
    """Replay a history on a fresh pool. With acc: oracle at every step, witness = the prefix that fails."""
    pool, scal = build_pool(ctx.fam, ctx.which, ctx.seed)
    scal_objs = {k: SCALARS[k]() for k in scal}
    for n, tr in enumerate(hist):
        step(pool, scal_objs, tr, acc if acc is not None else _QUIET, (hist[:n + 1] if acc is not None else None), ctx)
    return pool, scal_objs


_QUIET = Acc()


def script_for(ctx, hist):
    """Standalone reproduction (plain Tangelo calls) of a history."""
    ops, _ = pool_spec(ctx.fam, ctx.which, ctx.seed)
    names = [s[0] for s in ops]
    used = set()
    nres = 0
    body = []
    for opn, i, j in hist:
        def nm(r):
            if isinstance(r, str):
                return SCALAR_SRC[r]
            if r < len(ops):
                used.add(r)
            return names[r] if r < len(names) else None
        a, b = nm(i), nm(j)
        if opn in INPLACE:
            body.append(f"{a} {SYM[opn]} {b}")
        elif opn == "eq":
            body.append(f"print({a} == {b})")
        else:
            nres += 1
            names.append(f"r{nres}")
            body.append(f"r{nres} = {a} {SYM[opn]} {b}")
    head = ["import numpy, openfermion as of", "from tangelo.toolboxes.operators import FermionOperator, QubitOperator, QubitHamiltonian"]
    ctor = {"TF": "FermionOperator", "OFF": "of.FermionOperator", "TQ": "QubitOperator", "OFQ": "of.QubitOperator", "QH": "QubitHamiltonian"}
    for k in sorted(used):
        name, tag, ann, terms = ops[k]
        kw = ""
        if tag == "TF" and ann != (None, None, None):
            kw = f", n_spinorbitals={ann[0]}, n_electrons={ann[1]}, spin={ann[2]}"
        if tag == "QH" and ann != (None, None):
            kw = f", mapping={ann[0]!r}, up_then_down={ann[1]}"
        if terms:
            line = f"{name} = {ctor[tag]}({terms[0][0]!r}, {terms[0][1]!r}{kw})"
        else:
            line = f"{name} = {ctor[tag]}({kw[2:]})"
        for t, c in terms[1:]:
            line += f"; {name}.terms[{t!r}] = {c!r}"
        head.append(line)
    tail = [f"print({n!r}, {n}.terms)" for n in [names[k] for k in sorted(used)] + [f"r{q + 1}" for q in range(nres)]]
    return head + body + tail


# ---------------------------------------------------------------------------------------------------------------------
# BFS driver

def _expand(args):
    (fam, which, seed), hists, last = args
    try:
        ctx = Ctx(fam, which, seed)
        acc = Acc()
        new, hashes, local = [], set(), set()
        for hist in hists:
            master, scal_objs = replay_hist(ctx, hist)
            for tr in menu(master, list(scal_objs)):
                live = clone_pool(master)
                h2 = hist + [tr]
                step(live, scal_objs, tr, acc, h2, ctx)
                acc.ev()
                acc.transitions += 1
                k = h64(repr(canon_pool(live)))
                hashes.add(k)
                if not last and k not in local:
                    local.add(k)
                    new.append((k, h2))
        return ("ok", acc, new, np.array(sorted(hashes), dtype=np.uint64))
    except BaseException:
        import traceback
        return ("err", f"hist={runner.json.dumps(runner.jsonable(hists[0]))[:300]}\n{traceback.format_exc()}", None, None)


def bfs(fam, which, seed, depth, jobs, acc, mp_pool):
    cfg = (fam, which, seed)
    pool0, _ = build_pool(fam, which, seed)
    h0 = h64(repr(canon_pool(pool0)))
    seen = {h0}
    all_hashes = [np.array([h0], dtype=np.uint64)]
    frontier = [[]]
    for lvl in range(depth):
        last = lvl == depth - 1
        nchunk = max(1, min(len(frontier), jobs * 8))
        chunks = [frontier[c::nchunk] for c in range(nchunk)]
        tasks = [(cfg, c, last) for c in chunks]
        results = mp_pool.imap(_expand, tasks, chunksize=1) if mp_pool is not None else map(_expand, tasks)
        nxt = []
        for st, a, new, hs in results:
            if st == "err":
                print("HARNESS-ERROR in state expansion:\n" + a)
                raise SystemExit(2)
            acc.merge(a)
            all_hashes.append(hs)
            for k, h in new:
                if k not in seen:
                    seen.add(k)
                    nxt.append(h)
        acc.count(f"{fam}/{which}: states expanded at depth {lvl}", len(frontier))
        frontier = nxt
    n_states = int(np.unique(np.concatenate(all_hashes)).size)
    acc.states += n_states
    acc.count(f"{fam}/{which}: distinct states (depth {depth})", n_states)


# ---------------------------------------------------------------------------------------------------------------------
# MultiformOperator (array form)

W2 = [a + b for a in "IXYZ" for b in "IXYZ"]
W3 = ["III", "XII", "IYI", "IIZ", "XYZ", "ZZI", "YIY", "XXX", "ZIX", "IYZ", "YZX", "ZYY"]
W6 = ["III", "ZII", "XII", "IZI", "XYI", "YIZ"]
INT_OF = {"I": 0, "Z": 1, "X": 2, "Y": 3}
LET_OF = {v: k for k, v in INT_OF.items()}


def cj(c):
    c = complex(c)
    return [c.real, c.imag]


def two_term_ops(words, seed, patterns=None):
    g = 0.37 + runner.seed_delta(seed)
    pats = patterns or [(1.0, 1.0), (0.5, -0.5), (g, 1j)]
    return [[[w1, cj(c1)], [w2, cj(c2)]] for w1, w2 in itertools.combinations(words, 2) for c1, c2 in pats]


def mk_qop(desc):
    from tangelo.toolboxes.operators import QubitOperator
    q = QubitOperator(word_to_term(desc[0][0]), complex(*desc[0][1]))
    for w, c in desc[1:]:
        q.terms[word_to_term(w)] = complex(*c)
    return q


def mk_mf(desc, n):
    from tangelo.toolboxes.operators import MultiformOperator
    return MultiformOperator.from_qubitop(mk_qop(desc), n_qubits=n)


def ref_of_desc(desc):
    return {word_to_term(w): complex(*c) for w, c in desc}


def mf_snap(m):
    return (dict(m.terms), m.integer.copy(), np.array(m.factors).copy(), m.binary.copy(), m.binary_swap.copy(), m.n_qubits)


def mf_changed(m, s):
    return not (m.terms == s[0] and np.array_equal(m.integer, s[1]) and np.array_equal(m.factors, s[2])
                and np.array_equal(m.binary, s[3]) and np.array_equal(m.binary_swap, s[4]) and m.n_qubits == s[5])


def arrays_to_ref(integer, factors):
    r = {}
    for row, f in zip(np.asarray(integer), np.asarray(factors)):
        t = tuple((q, LET_OF[int(v)]) for q, v in enumerate(row) if int(v) != 0)
        r[t] = r.get(t, 0) + complex(f)
    return r


def mf_fail(acc, case, group, sig, detail):
    acc.violation(f"{group}/{sig}", case, detail, group=group)


def shape_sig(case):
    return f"{len(case['a'])}-term x {len(case['b'])}-term"


def check_mf_mul(case, acc):
    from tangelo.toolboxes.operators import MultiformOperator
    n = case["n"]
    a, b = mk_mf(case["a"], n), mk_mf(case["b"], n)
    sa, sb = mf_snap(a), mf_snap(b)
    want = ref_mul(ref_of_desc(case["a"]), ref_of_desc(case["b"]), "Q")
    acc.ev()
    try:
        r = a * b
    except Exception as e:
        where = tangelo_frame(e) or "MultiformOperator.__mul__"
        acc.out(("exc", type(e).__name__))
        mf_fail(acc, case, f"{where}/raises-{type(e).__name__}", shape_sig(case), {"exception": repr(e)[:300]})
        e.__traceback__ = None
        if mf_changed(a, sa) or mf_changed(b, sb):
            mf_fail(acc, case, "MultiformOperator.__mul__/operand-mutated-and-raised", shape_sig(case), None)
        return
    if len(nz(want)) < len(case["a"]) * len(case["b"]):
        acc.nt(("mul", case["a"], case["b"]))
    if mf_changed(a, sa) or mf_changed(b, sb):
        mf_fail(acc, case, "MultiformOperator.__mul__/operand-mutated", shape_sig(case), None)
    got = {t: complex(c) for t, c in r.terms.items()}
    acc.out(("mul", h64(repr(sorted((repr(k), cnum(v)) for k, v in got.items())))))
    d, where = ref_diff(got, want)
    if d > TOL:
        mf_fail(acc, case, "MultiformOperator.__mul__/wrong-product", shape_sig(case),
                {"returned": jterms(got), "expected": jterms(nz(want)), "worst_term": repr(where)})
    if not isinstance(r, MultiformOperator) or r.n_qubits != n:
        mf_fail(acc, case, "MultiformOperator.__mul__/wrong-result-type-or-width", shape_sig(case),
                {"type": type(r).__name__, "n_qubits": getattr(r, "n_qubits", None)})
    else:
        d2, _ = ref_diff(arrays_to_ref(r.integer, r.factors), want)
        if d2 > TOL or r.integer.shape[1] != n:
            mf_fail(acc, case, "MultiformOperator.__mul__/integer-form-disagrees-with-product", shape_sig(case),
                    {"integer": r.integer, "factors": [cj(f) for f in r.factors], "expected": jterms(nz(want))})


def check_mf_encode(case, acc):
    from tangelo.toolboxes.operators import MultiformOperator
    n, desc = case["n"], case["a"]
    q = mk_qop(desc)
    pre = dict(q.terms)
    acc.ev()
    m = MultiformOperator.from_qubitop(q, n_qubits=n)
    want_int = np.array([[INT_OF[p] for p in w] for w, _ in desc], dtype=int).reshape(len(desc), n)
    want_bin = np.concatenate(((want_int >> 1) % 2, want_int % 2), axis=1).astype(bool)
    want_swap = np.concatenate((want_int % 2, (want_int >> 1) % 2), axis=1).astype(bool)
    acc.nt(("enc", desc))
    bad = []
    if not np.array_equal(np.asarray(m.integer), want_int):
        bad.append("integer")
    if not np.array_equal(np.asarray(m.binary), want_bin):
        bad.append("binary")
    if not np.array_equal(np.asarray(m.binary_swap), want_swap):
        bad.append("binary_swap")
    if not np.allclose(np.asarray(m.factors, dtype=complex), [complex(*c) for _, c in desc]):
        bad.append("factors")
    if m.n_qubits != n or m.n_terms != len(desc) or nz(m.terms) != nz(ref_of_desc(desc)):
        bad.append("terms/n_qubits")
    if q.terms != pre:
        bad.append("source-operator-mutated")
    for b_ in bad:
        mf_fail(acc, case, f"MultiformOperator.from_qubitop/wrong-{b_}", f"{len(desc)}-term",
                {"integer": m.integer, "binary": m.binary.astype(int), "expected_integer": want_int})
    for name, build in (("from_integerop", lambda: MultiformOperator.from_integerop(want_int.copy(), np.array([complex(*c) for _, c in desc]))),
                        ("from_binaryop", lambda: MultiformOperator.from_binaryop(want_bin.copy(), np.array([complex(*c) for _, c in desc])))):
        acc.ev()
        try:
            m2 = build()
        except Exception as e:
            mf_fail(acc, case, f"MultiformOperator.{name}/raises-{type(e).__name__}", f"{len(desc)}-term", {"exception": repr(e)[:300]})
            continue
        d, _ = ref_diff({t: complex(c) for t, c in m2.terms.items()}, ref_of_desc(desc))
        if d > TOL or not np.array_equal(np.asarray(m2.integer), want_int) or not np.array_equal(np.asarray(m2.binary), want_bin):
            mf_fail(acc, case, f"MultiformOperator.{name}/round-trip-mismatch", f"{len(desc)}-term",
                    {"terms": jterms(m2.terms), "integer": m2.integer})
        acc.out((name, h64(repr(np.asarray(m2.integer).tolist()))))


FACT = {"pow2": [1.0, 2.0, 4.0, 8.0], "alt": [1.0, -1.0, 1.0, -1.0], "cplx": [0.5, 1j, -0.5, 0.25]}


def check_collapse(case, acc):
    from tangelo.toolboxes.operators import MultiformOperator
    rows = case["rows"]
    op = np.array(rows, dtype=int)
    fac = np.array(FACT[case["f"]][:len(rows)], dtype=complex)
    op0, fac0 = op.copy(), fac.copy()
    want = {}
    for r_, f in zip(rows, fac0):
        want[tuple(r_)] = want.get(tuple(r_), 0) + f
    want = {k: v for k, v in want.items() if v != 0}
    acc.ev()
    if len(set(map(tuple, rows))) < len(rows):
        acc.nt(("collapse", rows, case["f"]))
    sig = f"{len(rows)}x{len(rows[0])}/{case['f']}"
    try:
        u, f = MultiformOperator.collapse(op, fac)
    except Exception as e:
        mf_fail(acc, case, f"MultiformOperator.collapse/raises-{type(e).__name__}", sig, {"exception": repr(e)[:300]})
        e.__traceback__ = None
        return
    u = np.asarray(u)
    acc.out(("collapse", u.shape[0]))
    ok = (u.ndim == 2 and (u.shape[1] == len(rows[0]) or u.shape[0] == 0) and len(f) == u.shape[0])
    got = {}
    if ok:
        for r_, c in zip(u.tolist(), f):
            if tuple(r_) in got:
                ok = False
            got[tuple(r_)] = complex(c)
    if not ok or set(got) != set(want) or any(abs(got[k] - want[k]) > 1e-12 for k in want):
        mf_fail(acc, case, "MultiformOperator.collapse/wrong-result", sig,
                {"returned_rows": u, "returned_factors": [cj(c) for c in f], "expected": [[list(k), cj(v)] for k, v in sorted(want.items())]})
    if not (np.array_equal(op, op0) and np.array_equal(fac, fac0)):
        mf_fail(acc, case, "MultiformOperator.collapse/input-mutated", sig, None)


def check_commute(case, acc):
    from tangelo.toolboxes.operators.multiformoperator import do_commute
    n = case["n"]
    if case.get("prep") == "resize":
        # history: the first operand was created wider and brought to the common width by compress(n_qubits=n)
        # (and the second one narrower-then-wider): the array attributes must follow the new width
        try:
            a = mk_mf(case["a"], n + 1)
            a.compress(n_qubits=n)
            b = mk_mf(case["b"], n)
            b.compress(n_qubits=n + 2)
            b.compress(n_qubits=n)
        except Exception as e:
            mf_fail(acc, case, f"MultiformOperator.compress/raises-{type(e).__name__}", shape_sig(case), {"exception": repr(e)[:300]})
            e.__traceback__ = None
            return
    elif case.get("prep") == "scale":
        # history: count-preserving in-place changes of the symbolic form (scaling; a term replaced by another), then compress():
        # the array form must follow (the case's operands are what the objects hold AFTER this history)
        if not all(any(w[n - 1] != "I" for w, _ in d_) for d_ in (case["a"], case["b"])):
            # compress() without an explicit width shrinks an operator that does not touch the highest qubit (documented behaviour);
            # operands of different widths are outside this history
            acc.count("scale_history_skipped(operand does not touch the highest qubit)")
            return
        try:
            a = mk_mf([[w, [c_[0] / 2.0, c_[1] / 2.0]] for w, c_ in case["a"]], n)
            a *= 2.0
            a.compress()
            b = mk_mf([[w, [c_[0] * 4.0, c_[1] * 4.0]] for w, c_ in case["b"]], n)
            b *= 0.25
            b.compress()
        except Exception as e:
            mf_fail(acc, case, f"MultiformOperator.compress/raises-{type(e).__name__}", shape_sig(case), {"exception": repr(e)[:300]})
            e.__traceback__ = None
            return
        acc.ev()
        if ref_diff(dict(a.terms), ref_of_desc(case["a"]))[0] > 1e-12 or ref_diff(dict(b.terms), ref_of_desc(case["b"]))[0] > 1e-12:
            acc.count("scale_history_symbolic_form_differs(skipped)")
            return
        if ref_diff(arrays_to_ref(a.integer, a.factors), ref_of_desc(case["a"]))[0] > 1e-12 or \
                ref_diff(arrays_to_ref(b.integer, b.factors), ref_of_desc(case["b"]))[0] > 1e-12:
            mf_fail(acc, case, "MultiformOperator.compress/array-form-stale-after-in-place-change", shape_sig(case),
                    {"a.arrays": jterms(arrays_to_ref(a.integer, a.factors)), "a.terms": jterms(dict(a.terms)),
                     "b.arrays": jterms(arrays_to_ref(b.integer, b.factors)), "b.terms": jterms(dict(b.terms))})
            return
    elif case.get("prep") == "remove":
        # history: each operand was created with one more term, which was then taken out with remove_terms (int index at the
        # front for a, list index at the end for b): every array attribute must follow
        def extra_for(desc):
            have = {w for w, _ in desc}
            for cand in ("Y" + "I" * (n - 1), "X" + "Z" * (n - 1), "Z" + "Y" * (n - 1), "Y" * n, "I" * (n - 1) + "X"):
                if cand not in have:
                    return cand
            raise RuntimeError("no extra word available")
        try:
            a = mk_mf([[extra_for(case["a"]), [0.75, 0.0]]] + list(case["a"]), n)
            a.remove_terms(0)
            b = mk_mf(list(case["b"]) + [[extra_for(case["b"]), [0.0, -1.25]]], n)
            b.remove_terms([len(case["b"])])
        except Exception as e:
            mf_fail(acc, case, f"MultiformOperator.remove_terms/raises-{type(e).__name__}", shape_sig(case), {"exception": repr(e)[:300]})
            e.__traceback__ = None
            return
        acc.ev()
        if ref_diff(dict(a.terms), ref_of_desc(case["a"]))[0] > 1e-12 or ref_diff(dict(b.terms), ref_of_desc(case["b"]))[0] > 1e-12:
            mf_fail(acc, case, "MultiformOperator.remove_terms/terms-wrong", shape_sig(case),
                    {"a.terms": jterms(dict(a.terms)), "b.terms": jterms(dict(b.terms))})
            return
    else:
        a, b = mk_mf(case["a"], n), mk_mf(case["b"], n)
    sa, sb = mf_snap(a), mf_snap(b)
    ra, rb = ref_of_desc(case["a"]), ref_of_desc(case["b"])
    pair = [[word_commute(wa, wb) for wb, _ in case["b"]] for wa, _ in case["a"]]
    all_pairs = all(all(r_) for r_ in pair)
    comm = ref_add(ref_mul(ra, rb, "Q"), ref_mul(rb, ra, "Q"), -1)
    comm_zero = all(abs(c) <= 1e-12 for c in comm.values())
    if all_pairs and not comm_zero:
        raise RuntimeError("oracle inconsistency: all term pairs commute but symbolic commutator is non-zero")
    single = len(case["a"]) == 1 and len(case["b"]) == 1
    if single and all_pairs != comm_zero:
        raise RuntimeError("oracle inconsistency on single words")
    sig = shape_sig(case)
    acc.ev(2)
    try:
        r = do_commute(a, b)
        rt = do_commute(a, b, term_resolved=True)
    except Exception as e:
        mf_fail(acc, case, f"do_commute/raises-{type(e).__name__}", sig, {"exception": repr(e)[:300]})
        e.__traceback__ = None
        return
    if not comm_zero:
        acc.nt(("commute", case["a"], case["b"]))
    acc.out(("commute", bool(r), tuple(bool(v) for v in np.atleast_1d(rt))))
    if not isinstance(r, (bool, np.bool_)):
        mf_fail(acc, case, "do_commute/not-a-bool", sig, {"returned": repr(r)})
    elif bool(r) and not comm_zero:
        mf_fail(acc, case, "do_commute/returns-True-but-commutator-nonzero", sig,
                {"returned": True, "symbolic_commutator": jterms(nz(comm)), "term_pairs_commute": pair})
    elif not bool(r) and all_pairs:
        mf_fail(acc, case, "do_commute/returns-False-but-every-term-pair-commutes", sig, {"returned": False})
    want_t = [all(r_) for r_ in pair]
    got_t = [bool(v) for v in np.atleast_1d(rt)]
    if got_t != want_t:
        mf_fail(acc, case, "do_commute(term_resolved=True)/wrong-answer", sig, {"returned": got_t, "expected": want_t})
    if mf_changed(a, sa) or mf_changed(b, sb):
        mf_fail(acc, case, "do_commute/operand-mutated", sig, None)


MF_CHECK = {"mf_mul": check_mf_mul, "mf_encode": check_mf_encode, "mf_collapse": check_collapse, "mf_commute": check_commute}


def single_ops(words, coefs):
    return [[[w, cj(c)]] for w in words for c in coefs]


def mf_operand_sets(seed):
    g = 0.37 + runner.seed_delta(seed)
    return {
        "w2": (2, single_ops(W2, [0.5])), "w2b": (2, single_ops(W2, [1j * g])),
        "w3": (3, single_ops(W3, [g])), "w3b": (3, single_ops(W3, [-2.0])),
        "t6": (3, two_term_ops(W6, seed)),
        "s6": (3, single_ops(W6, [1.0])),
        "t2all": (2, two_term_ops(W2, seed, patterns=[(1.0, 1.0)])),
        "s2": (2, single_ops(W2, [1.0])),
    }


def shards(tier, seed):
    sh = []
    for kind, (sa, sb) in (("mf_mul", ("w2", "w2b")), ("mf_mul", ("w3", "w3b")), ("mf_commute", ("w2", "w2b")),
                           ("mf_commute", ("w3", "w3b"))):
        sh.append({"kind": kind, "A": [sa], "B": [sb], "part": [0, 1], "seed": seed})
    for p in range(8):
        sh.append({"kind": "mf_mul", "A": ["t6"], "B": ["t6"], "part": [p, 8], "seed": seed})
        sh.append({"kind": "mf_commute", "A": ["t6", "s6"], "B": ["t6", "s6"], "part": [p, 8], "seed": seed})
    for p in range(8):
        sh.append({"kind": "mf_commute", "A": ["t2all", "s2"], "B": ["t2all", "s2"], "part": [p, 8], "seed": seed, "resize": True})
    sh.append({"kind": "mf_encode", "A": ["w2", "w3", "t6", "t2all"], "seed": seed})
    maxrows = 3 if tier == "quick" else 4
    sh.append({"kind": "mf_collapse", "ncols": 1, "nrows": list(range(1, 5)), "first": None, "seed": seed})
    sh.append({"kind": "mf_collapse", "ncols": 2, "nrows": list(range(1, min(maxrows, 3) + 1)), "first": None, "seed": seed})
    for first in range(16):
        sh.append({"kind": "mf_collapse", "ncols": 2, "nrows": [4], "first": first, "seed": seed,
                   "facts": ["pow2", "alt", "cplx"] if tier == "thorough" else ["alt"]})
    return sh


def run_shard(sh):
    acc = Acc()
    kind = sh["kind"]
    if kind == "mf_collapse":
        rowset = list(itertools.product(range(4), repeat=sh["ncols"]))
        for nr in sh["nrows"]:
            for rows in itertools.product(rowset, repeat=nr):
                if sh["first"] is not None and rows[0] != rowset[sh["first"]]:
                    continue
                acc.states += 1
                for f in sh.get("facts", ["pow2", "alt", "cplx"]):
                    acc.transitions += 1
                    check_collapse({"kind": kind, "rows": [list(r) for r in rows], "f": f}, acc)
        acc.sample({"kind": kind, "rows": [[1, 2], [0, 3], [1, 2]], "f": "alt"}, cap=1)
        return acc
    sets = mf_operand_sets(sh["seed"])
    A = [(sets[k][0], d) for k in sh["A"] for d in sets[k][1]]
    if kind == "mf_encode":
        for n, d in A:
            acc.states += 1
            acc.transitions += 3
            check_mf_encode({"kind": kind, "n": n, "a": d}, acc)
        return acc
    B = [(sets[k][0], d) for k in sh["B"] for d in sets[k][1]]
    p, np_ = sh["part"]
    for ia, (n, da) in enumerate(A):
        if ia % np_ != p:
            continue
        for nb, db in B:
            assert n == nb
            acc.states += 1
            acc.transitions += 1
            case = {"kind": kind, "n": n, "a": da, "b": db}
            MF_CHECK[kind](case, acc)
            if kind == "mf_commute" and sh.get("resize"):
                acc.transitions += 3
                MF_CHECK[kind](dict(case, prep="resize"), acc)
                acc.transitions += 2
                MF_CHECK[kind](dict(case, prep="remove"), acc)
                acc.transitions += 4
                MF_CHECK[kind](dict(case, prep="scale"), acc)
            if ia == p and len(acc.samples) < 1:
                acc.sample(case, cap=1)
    return acc


# ---------------------------------------------------------------------------------------------------------------------

def plan(tier):
    if tier == "quick":
        return [("F", "full", 2), ("Q", "full", 2)]
    return [("F", "full", 2), ("Q", "full", 2), ("F", "reduced", 3), ("Q", "reduced", 3)]


def bounds(tier, seed):
    b = {"tier": tier, "pool_exploration": [], "scalars": SCALAR_SRC,
         "multiform": {"words_2q": W2, "words_3q": W3, "words_for_2term_operators": W6,
                       "collapse": "all arrays with 1..4 rows over {0..3}^1 and 1..%d rows over {0..3}^2 (+ all 4-row arrays over "
                                   "{0..3}^2 with factor vector(s) %s)" % (3, "alt" if tier == "quick" else "pow2, alt, cplx"),
                       "factor_vectors": {k: [cj(c) for c in v] for k, v in FACT.items()}}}
    for fam, which, depth in plan(tier):
        ops, scal = pool_spec(fam, which, seed)
        b["pool_exploration"].append({"family": fam, "pool": which, "depth": depth, "scalars": scal,
                                      "operands": [{"name": n, "class": CLSNAME[t], "annotations": a, "terms": jterms(dict(ts))}
                                                   for n, t, a, ts in ops]})
    return b


def explore(tier, seed, jobs):
    import multiprocessing as mp
    import sys
    acc = Acc()
    classes()
    mp_pool = mp.get_context("fork").Pool(jobs) if jobs > 1 else None
    try:
        for fam, which, depth in plan(tier):
            bfs(fam, which, seed, depth, jobs, acc, mp_pool)
    finally:
        if mp_pool is not None:
            mp_pool.terminate()
    acc.sample({"kind": "hist", "family": "F", "pool": "full", "seed": seed, "hist": [["add", 0, 2], ["imul", 6, "S1j"]]})
    acc.sample({"kind": "hist", "family": "Q", "pool": "full", "seed": seed, "hist": [["mul", 2, 4], ["isub", 7, 7]]})
    acc.merge(runner.pmap(sys.modules[__name__], shards(tier, seed), jobs))
    return acc


def replay_case(case):
    acc = Acc()
    if case.get("kind") == "hist":
        ctx = Ctx(case["family"], case["pool"], case.get("seed", 0))
        replay_hist(ctx, [list(t) for t in case["hist"]], acc)
        for key, (_, w) in acc.viol.items():
            print("\n".join(["# standalone reproduction:"] + (w["detail"] or {}).get("script", [])))
            break
    else:
        MF_CHECK[case["kind"]](case, acc)
    return acc


if __name__ == "__main__":
    import sys
    runner.main(sys.modules[__name__])
