"""C08 - Variational solver energies are faithful and variational.

E1 over a catalogue: every configuration (molecule | bare qubit Hamiltonian) x ansatz x mapping string x up_then_down is one
shard; inside a shard a fixed design of solver variants (ref_state x penalty x projective circuit), parameter vectors and
deflation settings is run on the real VQESolver.  Oracles (numpy only): psi = reference statevector (mc.ref.statevec) of the
gate list the solver assembles (reference circuit + ansatz circuit + projective circuit, post-selected), H = dense matrix of
solver.qubit_hamiltonian (mc.ref.pauli), reference fermionic N / S_z / S^2 from mc.ref.fermion.
"""
import contextlib
import io
import math
import warnings

import numpy as np

from mc import runner
from mc.runner import Acc
from mc.ref import statevec as SV
from mc.ref import pauli as P
from mc.ref import fermion as F

PID = "C08"
DESIGN_REF = "DESIGN.md section 2 / C08"
ENGINE = "seqspace (catalogue product: configuration x solver variant x parameter vector x deflation setting)"
RULE = ("cases = (molecule|2-qubit Hamiltonian) x ansatz x mapping string (JW, BK, JKMN, scBK and its case variants scbk/SCBK; "
        "HCB forced for pUCCD) x up_then_down x solver variant (ref_state None|occupation vector|Circuit, penalty off|on, "
        "projective circuit off|on with desired_meas_result) x parameter vector (zero, all-equal g, alternating +-g, one-hot, "
        "dense generic) x deflation setting (none, [HF circuit], [HF circuit, excited determinant]; coefficient 1 | 0.4); per case "
        "energy_estimation, the deflated energies and operator_expectation of N, Sz, S^2 are compared with the reference; which "
        "variants/vectors are combined is the 'design level' of the configuration (see bounds); a case is non-trivial when the "
        "prepared state has >= 2 basis amplitudes above 1e-6 (the energy is not a diagonal element of H) or the deflation "
        "increment exceeds 1e-6; distinct = distinct (configuration, variant, vector, deflation/operator)")
ASSUMPTIONS = [
    "only the catalogue is explored: H2, H3 (doublet, ROHF), H3+ (triplet, ROHF), H4, H4 with MOs 0 and 3 frozen, LiH with MOs 0 and 5 frozen (thorough), "
    "all sto-3g, and one 2-qubit Hamiltonian; parameter values outside the 5-vector alphabet are not explored",
    "design levels (bounds): 'A' = every (ref_state, penalty, projective) variant x every vector, deflation on every "
    "non-projective variant x vector; 'A-' = every variant, all vectors on the baseline variant and {dense, alternating} on the others; "
    "'B'/'C' = baseline + each single-option deviation + one all-options corner, all/three vectors on the baseline and the dense "
    "vector elsewhere; the full 5-way product is only run for <= 4-qubit systems (cost)",
    "psi is computed from the gate lists exposed by the solver after the call (solver.reference_circuit, solver.ansatz.circuit, "
    "solver.projective_circuit) in the order energy_estimation concatenates them; whether update_var_params equals a rebuild is C07",
    "deflation_circuits / deflation_coeff are also switched as attributes of the built solver (the constructor only stores them)",
    "operator_expectation is called with ref_state=solver.reference_circuit when the solver has a ref_state (the method has its own "
    "ref_state argument), and enc(O) = Tangelo fermion_to_qubit_mapping with the solver's mapping string, up_then_down, active "
    "electrons and active spin applied to the reference N/Sz/S^2 of mc.ref.fermion (faithfulness of the mapping itself is C03)",
    "tolerances: energies and expectation values 1e-8 absolute, variational bound 1e-9, deflation increment 1e-8, "
    "Hartree-Fock energy at the zero vector vs PySCF mean-field energy 1e-6",
    "exact simulator only (cirq backend, n_shots=None, no noise); sampled paths are C02",
    "documented refusals (UCC1/UCC3/VSQS with a non-HF occupation vector, QMF/QCC/ILC with a Circuit reference) are counted, not judged",
]
TOL_E = 1e-8
TOL_VAR = 1e-9
TOL_HF = 1e-6

# ---------------------------------------------------------------------------------------------------------------------
# catalogue

S2 = 0.7071067811865476
MOLS = {
    "H2": dict(xyz=[("H", (0., 0., 0.)), ("H", (0., 0., 0.7414))], q=0, spin=0, frozen="none",
               alt=[1, 0, 0, 1], orth=[0, 0, 1, 1], nq=4),
    "H3": dict(xyz=[("H", (0., 0., 0.)), ("H", (0., 0., 0.9)), ("H", (0., 0.3, 1.9))], q=0, spin=1, frozen="none",
               alt=[1, 0, 1, 1, 0, 0], orth=[1, 1, 0, 0, 1, 0], nq=6),
    # H3+ in its triplet state: the only catalogue entry with active_spin = 2 (for a doublet the scBK tapering signs do not
    # depend on the spin argument, so a wrong spin would be invisible on H3)
    "H3t": dict(xyz=[("H", (0., 0., 0.)), ("H", (0., 0., 0.9)), ("H", (0., 0.3, 1.9))], q=1, spin=2, frozen="none",
                alt=[1, 0, 0, 0, 1, 0], orth=[0, 0, 1, 0, 1, 0], nq=6),
    "H4": dict(xyz=[("H", (S2, 0., 0.)), ("H", (0., S2, 0.)), ("H", (-1.0071067811865476, 0., 0.)),
                    ("H", (0., -1.0071067811865476, 0.))], q=0, spin=0, frozen="none",
               alt=[1, 1, 1, 0, 0, 1, 0, 0], orth=[1, 1, 0, 0, 1, 1, 0, 0], nq=8),
    "H4f": dict(xyz=None, q=0, spin=0, frozen=[0, 3], alt=[1, 0, 0, 1], orth=[0, 0, 1, 1], nq=4),
    "LiH": dict(xyz=[("Li", (0., 0., 0.)), ("H", (0., 0., 1.5949))], q=0, spin=0, frozen=[0, 5],
                alt=[1, 0, 0, 1, 0, 0, 0, 0], orth=[0, 0, 1, 1, 0, 0, 0, 0], nq=8),
}
MOLS["H4f"]["xyz"] = MOLS["H4"]["xyz"]
MAPPINGS = ["JW", "BK", "JKMN", "scBK", "scbk", "SCBK"]
ANSATZE = ["UCCSD", "UpCCGSD", "UCCGD", "HEA", "QMF", "QCC", "ILC", "VSQS", "pUCCD", "UCC1", "UCC3", "USER"]
HEAVY = {"UCCSD", "UpCCGSD", "UCCGD", "VSQS"}
HF_AT_ZERO = {"UCCSD", "UpCCGSD", "UCCGD", "pUCCD", "UCC1", "UCC3"}
THETAS = ["zero", "equal", "alt", "onehot", "dense"]
DEFL = [("ref", 1), ("ref", 0.4), ("ref+orth", 1), ("ref+orth", 0.4)]
OPS = ["N", "Sz", "S^2"]
_HNOPEN = {}
PENALTY = {"N": [1.5, None], "Sz": [0.7, None], "S^2": [0.4, None]}   # target values filled in per molecule
PROJ_RESULT = "1"

# rough cost of one Tangelo circuit simulation (s), only used to order shards (heaviest first)
UNIT = {"H2": 0.03, "H4f": 0.03, "BARE": 0.01,
        "H3": {"UCCSD": 0.13, "UpCCGSD": 0.3, "UCCGD": 0.45, "VSQS": 0.7, "_": 0.05},
        "H3t": {"UCCSD": 0.03, "UpCCGSD": 0.15, "UCCGD": 0.2, "VSQS": 0.7, "_": 0.04},
        "H4": {"UCCSD": 0.6, "UpCCGSD": 0.45, "UCCGD": 0.9, "VSQS": 0.8, "pUCCD": 0.01, "_": 0.07},
        "LiH": {"UCCSD": 0.3, "UpCCGSD": 0.45, "UCCGD": 0.9, "VSQS": 0.8, "pUCCD": 0.01, "_": 0.07}}
LEVEL_UNITS = {"A": 540, "A-": 230, "B": 75, "C": 48}


def generic(seed):
    return round(0.37 + runner.seed_delta(seed) * 0.1, 6)


def theta_vec(name, n, g):
    if name == "zero":
        return [0.0] * n
    if name == "equal":
        return [g] * n
    if name == "alt":
        return [g if i % 2 == 0 else -g for i in range(n)]
    if name == "onehot":
        return [g if i == n // 2 else 0.0 for i in range(n)]
    if name == "dense":
        return [round(g * math.sin(1.7 * i + 0.4) + 0.11 * (i % 3) - 0.05, 9) for i in range(n)]
    raise ValueError(name)


def valid_config(mol, ans, mapping, utd):
    """Configurations the solver documents as buildable."""
    if mol == "BARE":
        return ans in ("HEA", "USER") and mapping in ("JW", "BK")
    if ans in ("UCC1", "UCC3"):
        return mapping == "JW" and utd and MOLS[mol]["nq"] == 4
    if mol == "H3t" and ans in ("QCC", "ILC"):
        return False    # no candidate generators for the high-spin two-electron state: the ansatz declines ("DIS is empty")
    if ans == "pUCCD":
        # the mapping string is overridden by HCB: one representative string (+ a second one to show the override)
        return MOLS[mol]["spin"] == 0 and mapping in ("JW", "scBK")
    return True


def level_of(tier, mol, ans, mapping):
    if tier == "quick":
        return "A" if mol == "BARE" else "C"
    nq = 2 if mol == "BARE" else MOLS[mol]["nq"]
    if nq <= 4:
        return "A-" if mol == "H4f" else "A"      # H4f repeats the H2 structure; what it adds is the frozen-orbital bookkeeping
    if unit_cost(mol, ans, "JW") >= 0.2:
        return "B"
    return "A-"


def configs(tier):
    out = []
    mols = ["H2", "H3", "H3t", "H4", "H4f", "BARE"] if tier == "quick" else ["H2", "H3", "H3t", "H4", "H4f", "LiH", "BARE"]
    for mol in mols:
        for ans in ANSATZE:
            if tier == "quick" and mol == "H4f" and ans not in ("UCCSD", "HEA", "QMF"):
                continue      # frozen occupied + frozen virtual orbital: what it adds is the active-space bookkeeping
            if tier == "quick" and mol == "H4" and ans not in ("UCCSD", "UpCCGSD", "HEA", "QCC"):
                continue
            if tier == "quick" and mol == "H3" and ans in ("UCCGD", "VSQS"):
                continue
            if tier == "quick" and mol == "H3t" and ans not in ("UCCSD", "HEA", "QMF", "USER"):
                continue
            for mapping in MAPPINGS:
                if mol in ("H4", "LiH") and ans in HEAVY and mapping == "SCBK":
                    continue
                if tier == "quick" and mol in ("H3", "H4") and ans in HEAVY and mapping in ("scbk", "SCBK"):
                    continue
                for utd in (False, True):
                    if valid_config(mol, ans, mapping, utd):
                        out.append((mol, ans, mapping, utd))
    return out


def unit_cost(mol, ans, mapping):
    u = UNIT[mol]
    if isinstance(u, dict):
        u = u.get(ans, u["_"])
    return u * (0.5 if mapping.upper() == "SCBK" else 1.0)


def shards(tier, seed):
    sh = []
    for mol, ans, mapping, utd in configs(tier):
        lvl = level_of(tier, mol, ans, mapping)
        sh.append({"kind": "cfg", "mol": mol, "ansatz": ans, "mapping": mapping, "utd": utd, "level": lvl, "seed": seed,
                   "_cost": LEVEL_UNITS[lvl] * unit_cost(mol, ans, mapping)})
    sh.sort(key=lambda s: -s["_cost"])
    return sh


def bounds(tier, seed):
    cf = configs(tier)
    lv = {}
    for mol, ans, mapping, utd in cf:
        k = f"{mol}:{level_of(tier, mol, ans, mapping)}"
        lv[k] = lv.get(k, 0) + 1
    return {"tier": tier, "generic_g": generic(seed), "configurations": len(cf), "configurations_per_molecule_and_level": lv,
            "molecules": {k: {"frozen": v["frozen"], "spin": v["spin"], "alt_occupation": v["alt"], "orth_occupation": v["orth"]}
                          for k, v in MOLS.items()},
            "mapping_strings": MAPPINGS, "ansatze": ANSATZE, "theta_alphabet": THETAS,
            "deflation_settings": ["none"] + [f"{a},coeff={c}" for a, c in DEFL], "operators": OPS,
            "projective": "RY(0.9) q0; MEASURE q0; RX(0.5) q_last; desired_meas_result='1'",
            "penalty": {k: v[0] for k, v in PENALTY.items()},
            "tolerances": {"energy": TOL_E, "variational": TOL_VAR, "hf_energy": TOL_HF}}


# ---------------------------------------------------------------------------------------------------------------------
# design: which (variant, theta, deflation) combinations are run at each level

def variants_for(level, is_mol, ans=None):
    refs = ["none", "vec", "circ"]
    pens = [False, True] if is_mol else [False]
    projs = [False, True]
    if level in ("A", "A-"):
        return [dict(ref=r, pen=p, proj=j) for r in refs for p in pens for j in projs]
    out = [dict(ref="none", pen=False, proj=False), dict(ref="vec", pen=False, proj=False),
           dict(ref="circ", pen=False, proj=False)]
    if is_mol:
        out.append(dict(ref="none", pen=True, proj=False))
    out.append(dict(ref="none", pen=False, proj=True))
    # all-options corner (QMF/QCC/ILC document that they refuse a Circuit reference: use the occupation vector there)
    out.append(dict(ref="vec" if ans in ("QMF", "QCC", "ILC") else "circ", pen=is_mol, proj=True))
    return out


def is_baseline(v):
    return v["ref"] == "none" and not v["pen"] and not v["proj"]


def thetas_for(level, v):
    if level == "A":
        return list(THETAS)
    if level == "A-":
        return list(THETAS) if is_baseline(v) else ["alt", "dense"]
    if level == "B":
        return list(THETAS) if is_baseline(v) else ["dense"]
    return ["zero", "alt", "dense"] if is_baseline(v) else ["dense"]


def deflations_for(level, v, tname):
    """Deflation settings evaluated on top of the plain energy for this (variant, vector)."""
    if v["proj"]:
        # the inverse-circuit overlap cannot be formed with a MEASURE gate: one probe per configuration records what happens
        return [DEFL[0]] if (tname == "dense" and v["ref"] == "none" and not v["pen"]) else []
    if level == "A":
        return list(DEFL)
    if level == "A-":
        return list(DEFL) if tname in ("alt", "dense") else []
    if level == "B":
        return list(DEFL) if (tname == "dense" and not v["pen"]) else []
    if tname != "dense" or v["pen"]:
        return []
    if is_baseline(v):
        return list(DEFL)
    return [DEFL[3]] if v["ref"] == "vec" else []


# ---------------------------------------------------------------------------------------------------------------------
# real objects

_MOL_CACHE = {}


def quiet(fn, *a, **k):
    with contextlib.redirect_stdout(io.StringIO()), warnings.catch_warnings():
        warnings.simplefilter("ignore")
        return fn(*a, **k)


def get_mol(name):
    if name not in _MOL_CACHE:
        from tangelo import SecondQuantizedMolecule
        d = MOLS[name]
        kw = {} if d["frozen"] == "none" else {"frozen_orbitals": list(d["frozen"])}
        _MOL_CACHE[name] = quiet(SecondQuantizedMolecule, [(a, tuple(c)) for a, c in d["xyz"]], d["q"], d["spin"],
                                 basis="sto-3g", **kw)
    return _MOL_CACHE[name]


def n_system_qubits(mol, ans, mapping):
    if mol == "BARE":
        return 2
    n = MOLS[mol]["nq"]
    if ans == "pUCCD":
        return n // 2
    return n - 2 if mapping.upper() == "SCBK" else n


def basis_circuit(bits):
    from tangelo.linq import Circuit, Gate
    return Circuit([Gate("X", i) for i, b in enumerate(bits) if b], n_qubits=len(bits))


def hf_occ(mol):
    m = get_mol(mol)
    n, ne, sp = m.n_active_sos, m.n_active_electrons, m.active_spin
    na, nb = (ne + sp) // 2, (ne - sp) // 2
    occ = [0] * n
    for i in range(na):
        occ[2 * i] = 1
    for i in range(nb):
        occ[2 * i + 1] = 1
    return occ


def mapped_bits(cfg, occ):
    """Qubit basis state of an occupation vector (interleaved) in the configuration's encoding; an *input* generator."""
    mol, ans, mapping, utd = cfg
    if mol == "BARE":
        return list(occ)
    if ans == "pUCCD":
        return [int(b) for b in occ[::2]]
    from tangelo.toolboxes.qubit_mappings.statevector_mapping import get_mapped_vector
    return [int(b) for b in quiet(get_mapped_vector, np.array(occ), mapping, utd)]


def occ_vectors(cfg):
    mol, ans = cfg[0], cfg[1]
    if mol == "BARE":
        return [1, 0], [0, 1], [1, 1]
    d = MOLS[mol]
    hf = hf_occ(mol)
    alt = d["orth"] if ans == "pUCCD" else d["alt"]    # pUCCD can only represent paired determinants
    return hf, alt, d["orth"]


def user_circuit(n, g):
    from tangelo.linq import Circuit, Gate
    gs = [Gate("RY", q, parameter=0.1 * (q + 1), is_variational=True) for q in range(n)]
    gs += [Gate("CNOT", q + 1, q) for q in range(n - 1)]
    gs += [Gate("RZ", q, parameter=0.2, is_variational=True) for q in range(n)]
    gs += [Gate("H", 0), Gate("CNOT", n - 1, 0)]
    gs += [Gate("RX", q, parameter=-0.3, is_variational=True) for q in range(0, n, 2)]
    return Circuit(gs, n_qubits=n)


def bare_hamiltonian(g):
    from tangelo.toolboxes.operators import QubitOperator
    H = QubitOperator((), 0.3) + QubitOperator("Z0", 0.5) + QubitOperator("Z1", -0.4) + QubitOperator("Z0 Z1", 0.25)
    H += QubitOperator("X0 X1", 0.2) + QubitOperator("Y0 Y1", 0.2) + QubitOperator("X0", g) + QubitOperator("Y1", -0.15)
    return H


def make_options(cfg, v, g, defl=None):
    """Option dict for VQESolver (inputs only; nothing here is an oracle)."""
    from tangelo.linq import Circuit, Gate
    from tangelo.algorithms.variational import BuiltInAnsatze
    mol, ans, mapping, utd = cfg
    n = n_system_qubits(mol, ans, mapping)
    opt = {"qubit_mapping": mapping, "up_then_down": utd, "verbose": False}
    if mol == "BARE":
        opt["qubit_hamiltonian"] = bare_hamiltonian(g)
        if ans == "HEA":
            opt["ansatz_options"] = {"n_qubits": 2, "reference_state": "zero", "n_layers": 2}
    else:
        opt["molecule"] = get_mol(mol)
    opt["ansatz"] = user_circuit(n, g) if ans == "USER" else BuiltInAnsatze[ans]
    hf, alt, orth = occ_vectors(cfg)
    if v["ref"] == "vec":
        opt["ref_state"] = list(alt)
    elif v["ref"] == "circ":
        c = basis_circuit(mapped_bits(cfg, alt))
        opt["ref_state"] = c + Circuit([Gate("RY", 0, parameter=0.41), Gate("CNOT", n - 1, 0)])
    if v["pen"]:
        m = get_mol(mol)
        s = m.active_spin / 2
        opt["penalty_terms"] = {"N": [PENALTY["N"][0], m.n_active_electrons], "Sz": [PENALTY["Sz"][0], s],
                                "S^2": [PENALTY["S^2"][0], s * (s + 1)]}
    if v["proj"]:
        opt["projective_circuit"] = Circuit([Gate("RY", 0, parameter=0.9), Gate("MEASURE", 0),
                                             Gate("RX", n - 1, parameter=0.5)])
        opt["simulate_options"] = {"desired_meas_result": PROJ_RESULT}
    if defl is not None:
        opt["deflation_circuits"], opt["deflation_coeff"] = deflation_circuits(cfg, defl), defl[1]
    return opt


def deflation_circuits(cfg, defl):
    hf, alt, orth = occ_vectors(cfg)
    cs = [basis_circuit(mapped_bits(cfg, hf))]
    if defl[0] == "ref+orth":
        cs.append(basis_circuit(mapped_bits(cfg, orth)))
    return cs


def circ_src(c):
    gs = []
    for g in c._gates:
        a = [repr(g.name), repr(g.target[0] if len(g.target) == 1 else list(g.target))]
        if g.control is not None:
            a.append(f"control={list(g.control)!r}")
        if g.parameter != "":
            a.append(f"parameter={float(g.parameter)!r}")
        if g.is_variational:
            a.append("is_variational=True")
        gs.append("Gate(" + ", ".join(a) + ")")
    return "Circuit([" + ", ".join(gs) + f"], n_qubits={c.width})"


def repro_script(cfg, v, g, seq, call, defl):
    mol, ans, mapping, utd = cfg
    opt = make_options(cfg, v, g, defl)
    L = ["import warnings; warnings.filterwarnings('ignore')",
         "from tangelo import SecondQuantizedMolecule",
         "from tangelo.linq import Circuit, Gate",
         "from tangelo.toolboxes.operators import QubitOperator",
         "from tangelo.algorithms.variational import VQESolver, BuiltInAnsatze"]
    items = []
    if mol == "BARE":
        H = opt["qubit_hamiltonian"]
        L.append("H = " + " + ".join(f"QubitOperator({' '.join(p + str(q) for q, p in t)!r}, {float(np.real(c))!r})"
                                     for t, c in H.terms.items()))
        items.append('"qubit_hamiltonian": H')
    else:
        d = MOLS[mol]
        fr = "" if d["frozen"] == "none" else f", frozen_orbitals={list(d['frozen'])!r}"
        L.append(f"mol = SecondQuantizedMolecule({[(a, tuple(c)) for a, c in d['xyz']]!r}, q={d['q']}, spin={d['spin']}, "
                 f"basis='sto-3g'{fr})")
        items.append('"molecule": mol')
    items.append('"ansatz": ' + (circ_src(opt["ansatz"]) if ans == "USER" else f"BuiltInAnsatze.{ans}"))
    items.append(f'"qubit_mapping": {mapping!r}, "up_then_down": {utd}')
    for k in ("ansatz_options", "penalty_terms", "simulate_options", "deflation_coeff"):
        if k in opt:
            items.append(f'"{k}": {opt[k]!r}')
    if "ref_state" in opt:
        r = opt["ref_state"]
        items.append('"ref_state": ' + (repr(list(r)) if isinstance(r, list) else circ_src(r)))
    if "projective_circuit" in opt:
        items.append('"projective_circuit": ' + circ_src(opt["projective_circuit"]))
    if "deflation_circuits" in opt:
        items.append('"deflation_circuits": [' + ", ".join(circ_src(c) for c in opt["deflation_circuits"]) + "]")
    L.append("s = VQESolver({" + ", ".join(items) + "})")
    L.append("s.build()")
    if seq:
        L.append("n = len(s.initial_var_params)")
        L.append(f"g = {g!r}")
        L.append("import math")
        L.append("vec = {'zero': [0.0]*n, 'equal': [g]*n, 'alt': [g*(-1)**i for i in range(n)], "
                 "'onehot': [g*(i == n//2) for i in range(n)], "
                 "'dense': [round(g*math.sin(1.7*i + 0.4) + 0.11*(i % 3) - 0.05, 9) for i in range(n)]}")
        for t in seq[:-1]:
            L.append(f"s.energy_estimation(vec[{t!r}])")
        if call is None or call == "E":
            L.append(f"print(s.energy_estimation(vec[{seq[-1]!r}]))")
            if defl is not None and not v["proj"]:
                L.append(f"s.deflation_circuits = []; print('without deflation:', s.energy_estimation(vec[{seq[-1]!r}]))")
        else:
            extra = ", ref_state=s.reference_circuit" if v["ref"] != "none" and ans not in ("QMF", "QCC", "ILC") else ""
            if mol == "BARE":
                extra += ", n_active_mos=1, n_active_electrons=1, n_active_sos=2, spin=1"
            L.append(f"print(s.operator_expectation({call!r}, vec[{seq[-1]!r}]{extra}))")
    return "\n".join(L)


def documented_refusal(cfg, v):
    ans = cfg[1]
    if v["ref"] == "vec" and ans in ("UCC1", "UCC3", "VSQS"):
        return True
    if v["ref"] == "circ" and ans in ("QMF", "QCC", "ILC"):
        return True
    return False


# ---------------------------------------------------------------------------------------------------------------------
# reference side

def descs(circ):
    return [SV.desc(g) for g in circ._gates]


def ref_state_of(gates, n, outcomes):
    """Normalised reference state of a gate list (MEASURE gates post-selected on `outcomes`); None if the branch is empty."""
    if SV.n_measures(gates):
        psi, prob = SV.run_measured(gates, n, outcomes)
        return psi
    return SV.run(gates, n)


def width_of(gates):
    w = 0
    for _, t, c, _, _ in gates:
        w = max([w] + [q + 1 for q in t] + [q + 1 for q in (c or [])])
    return w


def dense_op(qop, n):
    return P.matrix(P.from_terms(qop.terms), n)


def op_width(qop):
    return max([q + 1 for t in qop.terms for q, _ in t] + [0])


def expval(M, psi):
    return complex(np.vdot(psi, M @ psi))


def ref_fermion_op(name, n_sos):
    if name == "N":
        return F.number_operator(n_sos)
    if name == "Sz":
        return F.sz_operator(n_sos, up_then_down=False)
    if name == "S^2":
        return F.s2_operator(n_sos, up_then_down=False)
    raise ValueError(name)


_HCB = {}


def hcb_matrix(op, n_sos, n):
    """V^ O V with V the isometry from pair-occupation kets to seniority-zero Fock kets; O the reference fermionic operator."""
    k = (op, n_sos, n)
    if k not in _HCB:
        OF = F.op_matrix(n_sos, ref_fermion_op(op, n_sos))
        n_mo = n_sos // 2
        if n != n_mo:
            raise RuntimeError(f"HCB register of {n} qubits for {n_mo} spatial orbitals")
        idx = []
        for b in range(2 ** n_mo):
            bits = [(b >> (n_mo - 1 - i)) & 1 for i in range(n_mo)]
            idx.append(F.index_of([x for bit in bits for x in (bit, bit)]))
        _HCB[k] = OF[np.ix_(idx, idx)]
    return _HCB[k]


def to_tangelo_fermion(sym):
    from tangelo.toolboxes.operators import FermionOperator
    out = FermionOperator()
    for term, c in sym.items():
        c = complex(c)
        out += FermionOperator(tuple(term), c.real if abs(c.imag) < 1e-15 else c)
    return out


def sigkey(cfg, v=None):
    mol, ans, mapping, utd = cfg
    s = f"{mol},{ans},{mapping},utd={utd}"
    if v is not None:
        s += f",ref={v['ref']},pen={v['pen']},proj={v['proj']}"
    return s


def exc_sig(e):
    return f"{type(e).__name__}"


# ---------------------------------------------------------------------------------------------------------------------
# one configuration

class Run:
    def __init__(self, acc, cfg, level, seed, focus=None):
        self.acc, self.cfg, self.level, self.seed, self.focus = acc, tuple(cfg), level, seed, focus
        self.g = generic(seed)
        self.is_mol = cfg[0] != "BARE"

    def case(self, v, tname=None, extra=None):
        mol, ans, mapping, utd = self.cfg
        c = {"kind": "case", "mol": mol, "ansatz": ans, "mapping": mapping, "utd": utd, "variant": dict(v), "seed": self.seed,
             "level": self.level}
        if tname is not None:
            c["theta"] = tname
        if extra:
            c.update(extra)
        nq = 2 if mol == "BARE" else MOLS[mol]["nq"]
        c["word"] = "x" * (nq * 4 + (v["ref"] != "none") * 3 + v["pen"] * 3 + v["proj"] * 3 + len(mapping)
                           + 2 * len(c.get("seq", [])))
        return c

    def repro(self, v, seq=(), call=None, defl=None):
        """Standalone reproduction (plain Tangelo calls) stored with each witness."""
        try:
            return repro_script(self.cfg, v, self.g, list(seq), call, defl)
        except Exception as e:     # never let the pretty-printer disturb a verdict
            return f"(no script: {e!r})"

    def bad(self, site, kind, sig, case, detail):
        self.acc.violation(f"{site}/{kind}/{sig}", case, detail, group=f"{site}/{kind}")

    # -- build ------------------------------------------------------------------------------------------------------
    def build(self, v, defl=None):
        from tangelo.algorithms.variational import VQESolver
        cfg, acc = self.cfg, self.acc
        try:
            opt = make_options(cfg, v, self.g, defl)
        except Exception as e:      # input generator failed (e.g. the encoding cannot map the determinant): not a solver finding
            acc.count(f"input_generator_failed:{type(e).__name__}")
            return None
        np.random.seed(20240 + self.seed)
        acc.transitions += 1
        try:
            solver = quiet(VQESolver, opt)
            quiet(solver.build)
        except Exception as e:
            if documented_refusal(cfg, v) and isinstance(e, ValueError):
                acc.count("documented_refusals")
                return None
            if v["ref"] == "vec" and cfg[1] in ("pUCCD", "QMF", "QCC", "ILC"):
                # An occupation-vector reference state is refused loudly at build time for these ansaetze (no HCB branch
                # in get_mapped_vector; "zero" reference / Bloch angles for QMF-type ansaetze). The statement is about the
                # energies a solver reports, not about which option combinations can be built: counted, not reported.
                acc.count(f"loud_refusal_at_build[ref=vec,{cfg[1]}]")
                return None
            acc.ev()
            nondef = ",".join(k for k in ("ref", "pen", "proj") if v[k] not in ("none", False))
            mp = cfg[2] if cfg[1] != "pUCCD" else "HCB"
            self.bad("build", f"exception-{exc_sig(e)}",
                     f"{cfg[1]},{mp},ref={v['ref']},pen={v['pen']}",
                     self.case(v), {"error": repr(e)[:300], "non_default_options": nondef, "repro": self.repro(v, defl=defl)})
            return None
        if documented_refusal(cfg, v):
            acc.count("documented_refusal_but_built")
        return solver

    # -- reference data of a built solver -----------------------------------------------------------------------------
    def prepare(self, solver, v):
        cfg = self.cfg
        info = {}
        H = solver.qubit_hamiltonian
        n = max(op_width(H), solver.ansatz.circuit.width,
                solver.reference_circuit.width if solver.ref_state is not None else 0,
                solver.projective_circuit.width if solver.projective_circuit else 0)
        info["n"] = n
        info["H_obj"] = H
        info["H_terms"] = dict(H.terms)
        info["Hm"] = dense_op(H, n)
        herm = float(np.abs(info["Hm"] - info["Hm"].conj().T).max())
        info["lmin"] = float(np.linalg.eigvalsh((info["Hm"] + info["Hm"].conj().T) / 2)[0]) if herm < 1e-9 else None
        info["enc"] = {}
        if v["pen"] and self.is_mol and solver.qubit_mapping.upper() != "HCB":
            self.check_penalty_hamiltonian(solver, info, v)
        return info

    def check_penalty_hamiltonian(self, solver, info, v):
        """With penalty_terms the Hamiltonian the solver minimises must be H_molecule + sum_k w_k (O_k - t_k)^2, the O_k being the
        reference N / Sz / S^2 (mc/ref/fermion.py) under the solver's own encoding and ordering."""
        from tangelo.algorithms.variational import VQESolver
        acc = self.acc
        key = ("Hnopen", self.cfg)
        if key not in _HNOPEN:
            try:
                opt = make_options(self.cfg, dict(v, pen=False, ref="none", proj=False), self.g, None)
                s0 = quiet(VQESolver, opt)
                quiet(s0.build)
                _HNOPEN[key] = dense_op(s0.qubit_hamiltonian, info["n"]) if op_width(s0.qubit_hamiltonian) <= info["n"] else None
            except Exception:
                _HNOPEN[key] = None
        H0 = _HNOPEN[key]
        if H0 is None or H0.shape != info["Hm"].shape:
            acc.count("penalty_reference_unavailable")
            return
        m = get_mol(self.cfg[0])
        sp = m.active_spin / 2
        targets = {"N": m.n_active_electrons, "Sz": sp, "S^2": sp * (sp + 1)}
        Href = H0.copy()
        I = np.eye(H0.shape[0])
        for op in OPS:
            stt, M = self.enc_matrix(solver, info, op)
            if stt != "ok":
                acc.count("penalty_reference_unavailable")
                return
            D = M - targets[op] * I
            Href = Href + PENALTY[op][0] * (D @ D)
        acc.ev()
        acc.count("penalty_hamiltonians_compared")
        d = float(np.linalg.norm(info["Hm"] - Href, 2))
        if d > 1e-6:
            self.bad("build(penalty_terms)", "hamiltonian-is-not-H+sum-w(O-t)^2", f"{solver.qubit_mapping},utd={solver.up_then_down},{self.cfg[1]}",
                     self.case(v), {"operator_norm_distance": d, "penalty_terms": {k: [PENALTY[k][0], targets[k]] for k in OPS},
                                    "repro": self.repro(v)})

    def enc_matrix(self, solver, info, op):
        """Dense matrix of the solver's encoding of the reference fermionic operator `op` (or the exception it raises)."""
        if op in info["enc"]:
            return info["enc"][op]
        from tangelo.toolboxes.qubit_mappings.mapping_transform import fermion_to_qubit_mapping
        mol = self.cfg[0]
        if op == "QOP":      # a user-supplied qubit operator: its own dense matrix
            r = info["enc"][op] = ("ok", dense_op(self.op_argument(op, info), info["n"]))
            return r
        if op == "FOP":      # a user-supplied fermionic operator N + 0.5 Sz: by linearity of the encoding
            a, b = self.enc_matrix(solver, info, "N"), self.enc_matrix(solver, info, "Sz")
            r = info["enc"][op] = ("ok", a[1] + 0.5 * b[1]) if a[0] == b[0] == "ok" else ("exc", "N or Sz not encodable")
            return r
        if solver.qubit_mapping.upper() == "HCB":
            # hard-core bosons: qubit i = pair occupation of spatial orbital i.  The Tangelo HCB transform is not a
            # representation of the fermionic algebra (it reads spin-free integrals), so the expectation value "of that
            # same state" is taken in Fock space: |b_0 b_1 ..> -> |b_0 b_0 b_1 b_1 ..> (interleaved spin-orbitals).
            r = ("ok", hcb_matrix(op, get_mol(mol).n_active_sos, info["n"]))
            info["enc"][op] = r
            return r
        if mol == "BARE":
            n_sos, n_el, spin = 2, 1, 1
        else:
            m = get_mol(mol)
            n_sos, n_el, spin = m.n_active_sos, m.n_active_electrons, m.active_spin
        try:
            fop = to_tangelo_fermion(ref_fermion_op(op, n_sos))
            q = quiet(fermion_to_qubit_mapping, fermion_operator=fop, mapping=solver.qubit_mapping, n_spinorbitals=n_sos,
                      n_electrons=n_el, up_then_down=solver.up_then_down, spin=spin)
            if op_width(q) > info["n"]:
                raise ValueError(f"encoded {op} acts on {op_width(q)} qubits, circuit has {info['n']}")
            r = ("ok", dense_op(q, info["n"]))
        except Exception as e:
            r = ("exc", repr(e)[:200])
        info["enc"][op] = r
        return r

    def op_argument(self, op, info):
        """What is handed to operator_expectation: the documented strings, a QubitOperator, or a FermionOperator."""
        if op == "QOP":
            from tangelo.toolboxes.operators import QubitOperator
            n = info["n"]
            return QubitOperator("Z0", 0.7) + QubitOperator(f"X0 Y{n - 1}" if n > 1 else "X0", -0.45) + QubitOperator((), 0.25)
        if op == "FOP":
            mol = self.cfg[0]
            n_sos = 2 if mol == "BARE" else get_mol(mol).n_active_sos
            sym = dict(ref_fermion_op("N", n_sos))
            for t, c in ref_fermion_op("Sz", n_sos).items():
                sym[t] = sym.get(t, 0) + 0.5 * c
            return to_tangelo_fermion(sym)
        return op

    def gate_list(self, solver, ref_arg_is_reference):
        gates = []
        if ref_arg_is_reference:
            gates += descs(solver.reference_circuit)
        gates += descs(solver.ansatz.circuit)
        if solver.projective_circuit:
            gates += descs(solver.projective_circuit)
        return gates

    def state(self, solver, info, cache):
        gates = self.gate_list(solver, solver.ref_state is not None)
        key = repr(gates)
        if cache.get("key") != key:
            n = info["n"]
            if width_of(gates) > n:
                raise RuntimeError("gate outside the register")
            outcomes = [int(b) for b in PROJ_RESULT] if solver.projective_circuit else []
            cache["key"], cache["psi"] = key, ref_state_of(gates, n, outcomes)
        return cache["psi"]

    # -- the checks -------------------------------------------------------------------------------------------------
    def fresh(self, v, first_defl):
        solver = self.build(v, first_defl)
        if solver is None:
            return None
        st = {"solver": solver, "info": self.prepare(solver, v), "cache": {}, "seq": [],
              "built_defl": (list(solver.deflation_circuits), solver.deflation_coeff),
              "nvar": len(solver.initial_var_params)}
        self.acc.count("solvers_built")
        return st

    def run_variant(self, v, theta_seq=None, only_defl="all", only_ops=None):
        cfg, acc, level = self.cfg, self.acc, self.level
        thetas = thetas_for(level, v) if theta_seq is None else list(theta_seq)
        first_defl = None
        for t in thetas:
            ds = deflations_for(level, v, t)
            if ds and not v["proj"]:
                first_defl = ds[-1]
                break
        st = self.fresh(v, first_defl)
        if st is None:
            return
        for tname in thetas:
            solver, info = st["solver"], st["info"]
            theta = theta_vec(tname, st["nvar"], self.g)
            acc.states += 1
            st["seq"].append(tname)
            case = self.case(v, tname, {"seq": list(st["seq"])})
            # ---- plain energy ----------------------------------------------------------------------------------------
            solver.deflation_circuits = []
            acc.transitions += 1
            try:
                e0 = quiet(solver.energy_estimation, list(theta))
            except Exception as e:
                acc.ev()
                # does the same vector work on a freshly built solver?  (separates "this vector" from "this history")
                hist = len(st["seq"]) > 1
                st2 = self.fresh(v, first_defl)
                e0 = None
                if st2 is not None and hist:
                    st2["solver"].deflation_circuits = []
                    try:
                        e0 = quiet(st2["solver"].energy_estimation, list(theta))
                    except Exception:
                        e0 = None
                kind = f"exception-{exc_sig(e)}" + ("-only-after-earlier-evaluations" if e0 is not None else "")
                self.bad("energy_estimation", kind, f"{cfg[1]},{cfg[2]},theta={tname}", case,
                         {"error": repr(e)[:300], "evaluated_before_on_this_solver": st["seq"][:-1],
                          "same_vector_on_fresh_solver": e0, "repro": self.repro(v, case["seq"], "E")})
                if st2 is None:
                    return
                st = st2
                st["seq"].append(tname)
                if e0 is None:
                    continue
                solver, info = st["solver"], st["info"]
            try:
                psi = self.state(solver, info, st["cache"])
            except KeyError as e:
                raise RuntimeError(f"reference simulator does not know gate {e!r} ({sigkey(cfg, v)})")
            acc.ev()
            if psi is None:
                acc.count("post_selection_branch_empty")
                continue
            e_ref = expval(info["Hm"], psi)
            big = int(np.sum(np.abs(psi) ** 2 > 1e-6))
            if big >= 2:
                acc.nt(("E", cfg, v, tname))
            acc.out(round(float(np.real(e0)), 6))
            if not abs(e0 - e_ref) <= TOL_E:
                self.bad("energy_estimation", "value-mismatch", sigkey(cfg, v), case,
                         {"solver": e0, "reference": e_ref, "diff": abs(e0 - e_ref), "theta": theta[:12],
                          "repro": self.repro(v, st["seq"], "E")})
            if info["lmin"] is not None:
                acc.ev()
                if not np.real(e0) >= info["lmin"] - TOL_VAR:
                    self.bad("energy_estimation", "below-lowest-eigenvalue", sigkey(cfg, v), case,
                             {"solver": e0, "lambda_min": info["lmin"], "theta": theta[:12], "repro": self.repro(v, st["seq"], "E")})
            if (tname == "zero" and is_baseline(v) and cfg[1] in HF_AT_ZERO and self.is_mol):
                acc.ev()
                emf = float(get_mol(cfg[0]).mf_energy)
                if not abs(e0 - emf) <= TOL_HF:
                    self.bad("energy_estimation", "zero-vector-energy-differs-from-mean-field", sigkey(cfg), case,
                             {"solver": e0, "pyscf_mean_field": emf, "diff": abs(e0 - emf), "repro": self.repro(v, st["seq"], "E")})
            if self.focus is None:
                acc.sample({"config": sigkey(cfg, v), "theta": tname, "energy": float(np.real(e0)), "reference": float(np.real(e_ref)),
                            "n_gates": len(solver.ansatz.circuit._gates), "basis_states_in_psi": big}, cap=2)
            # ---- deflation -------------------------------------------------------------------------------------------
            built_defl = st["built_defl"]
            for defl in deflations_for(level, v, tname):
                if only_defl != "all" and list(defl) != list(only_defl or []):
                    continue
                dcase = self.case(v, tname, {"defl": list(defl), "seq": list(st["seq"])})
                if (list(built_defl[0]) and defl[1] == built_defl[1]
                        and len(built_defl[0]) == (2 if defl[0] == "ref+orth" else 1)):
                    circs = built_defl[0]          # the objects handed to the constructor
                else:
                    circs = deflation_circuits(cfg, defl)
                solver.deflation_circuits, solver.deflation_coeff = list(circs), defl[1]
                acc.transitions += 1
                try:
                    ed = quiet(solver.energy_estimation, list(theta))
                except Exception as e:
                    if v["proj"] and isinstance(e, AttributeError) and "not an invertible gate" in repr(e):
                        # deflation needs the inverse of the state-preparation circuit; with a projective (MEASURE) circuit
                        # the combination is refused loudly. Counted, not reported.
                        acc.count("loud_refusal[deflation+projective-circuit]")
                        continue
                    acc.ev()
                    sig = "with-projective-circuit" if v["proj"] else f"no-projective,{sigkey(cfg, v)}"
                    self.bad("energy_estimation(deflation)", f"exception-{exc_sig(e)}", sig, dcase,
                             {"error": repr(e)[:300], "repro": self.repro(v, st["seq"], "E", defl)})
                    continue
                finally:
                    solver.deflation_circuits = []
                acc.ev()
                n = info["n"]
                exp_inc, ovs = 0.0, []
                for c in circs:
                    phi = SV.run(descs(c), n)
                    ov = abs(np.vdot(phi, psi)) ** 2
                    ovs.append(float(ov))
                    exp_inc += defl[1] * ov
                inc = ed - e0
                if exp_inc > 1e-6:
                    acc.nt(("D", cfg, v, tname, defl))
                acc.count("deflation_evaluations")
                if not abs(inc - exp_inc) <= TOL_E:
                    self.bad("energy_estimation(deflation)", "increment-mismatch",
                             f"{defl[0]},coeff={defl[1]},{cfg[1]},{cfg[2]},ref={v['ref']},theta={tname}",
                             dcase, {"solver_increment": inc, "reference_increment": exp_inc, "overlaps": ovs, "coeff": defl[1],
                                     "plain_energy": e0, "ansatz_circuit_width": solver.ansatz.circuit.width, "register": n, "repro": self.repro(v, st["seq"], "E", defl)})
            # ---- operator expectations ---------------------------------------------------------------------------------
            for op in OPS + ["QOP", "FOP"]:
                if only_ops is not None and op not in only_ops:
                    continue
                if op == "FOP" and solver.qubit_mapping.upper() == "HCB":
                    continue        # the HCB transform is only defined for spin-free Hamiltonians
                ocase = self.case(v, tname, {"op": op, "seq": list(st["seq"])})
                H_before = solver.qubit_hamiltonian
                kw = {}
                if solver.ref_state is not None:
                    kw["ref_state"] = solver.reference_circuit
                if cfg[0] == "BARE":
                    kw.update(n_active_mos=1, n_active_electrons=1, n_active_sos=2, spin=1)
                acc.transitions += 1
                err = None
                try:
                    val = quiet(solver.operator_expectation, self.op_argument(op, info), list(theta), **kw)
                except Exception as e:
                    err = e
                acc.ev()
                mp_sig = f"{op},{solver.qubit_mapping},utd={solver.up_then_down}"
                restored = solver.qubit_hamiltonian is H_before and dict(solver.qubit_hamiltonian.terms) == info["H_terms"]
                if not restored:
                    self.bad("operator_expectation", "hamiltonian-not-restored" + ("-after-exception" if err else ""),
                             mp_sig + f",{cfg[1]}", ocase, {"error": repr(err)[:200] if err else None,
                                                            "repro": self.repro(v, st["seq"], op)})
                    solver.qubit_hamiltonian = H_before
                stt, M = self.enc_matrix(solver, info, op)
                if err is not None:
                    if stt == "exc":
                        acc.count("operator_not_encodable_by_mapping(both sides refuse)")
                        continue
                    self.bad("operator_expectation", f"exception-{exc_sig(err)}", mp_sig + ("" if self.is_mol else ",bare"), ocase,
                             {"error": repr(err)[:300], "repro": self.repro(v, st["seq"], op)})
                    continue
                if stt == "exc":
                    self.bad("operator_expectation", "answer-where-encoding-refuses", mp_sig, ocase, {"solver": val, "enc_error": M})
                    continue
                try:
                    psi2 = self.state(solver, info, st["cache"])
                except KeyError as e:
                    raise RuntimeError(f"reference simulator does not know gate {e!r}")
                if psi2 is None:
                    continue
                ref_val = expval(M, psi2)
                acc.count("operator_expectations_compared")
                if abs(ref_val - round(ref_val.real)) > 1e-6 or big >= 2:
                    acc.nt(("O", cfg, v, tname, op))
                if not abs(val - ref_val) <= TOL_E:
                    self.bad("operator_expectation", "value-mismatch", mp_sig + f",{cfg[1]},{cfg[0]}", ocase,
                             {"solver": val, "reference": ref_val, "diff": abs(val - ref_val), "repro": self.repro(v, st["seq"], op)})
            # ---- the same energy again: nothing evaluated in between (deflation, operator expectations) may have left a trace ----
            if only_ops is None or only_ops == ["E-again"]:
                acc.transitions += 1
                acc.ev()
                solver.deflation_circuits = []
                try:
                    e1 = quiet(solver.energy_estimation, list(theta))
                except Exception as e:
                    e1 = repr(e)[:200]
                if isinstance(e1, str) or not abs(e1 - e0) <= TOL_E:
                    self.bad("energy_estimation", "value-changes-after-operator_expectation-and-deflation-calls", sigkey(cfg, v),
                             self.case(v, tname, {"op": "E-again", "seq": list(st["seq"])}),
                             {"first": e0, "again": e1, "repro": self.repro(v, st["seq"], "E")})
                    solver.qubit_hamiltonian = info["H_obj"]

    def run(self):
        for v in variants_for(self.level, self.is_mol, self.cfg[1]):
            self.run_variant(v)


def run_shard(sh):
    acc = Acc()
    cfg = (sh["mol"], sh["ansatz"], sh["mapping"], sh["utd"])
    Run(acc, cfg, sh["level"], sh["seed"]).run()
    acc.count(f"configs_level_{sh['level']}")
    return acc


def replay_case(case):
    acc = Acc()
    cfg = (case["mol"], case["ansatz"], case["mapping"], case["utd"])
    r = Run(acc, cfg, case.get("level", "A"), case.get("seed", 0), focus="replay")
    v = case["variant"]
    if "theta" not in case:
        r.build(v)
        return acc
    seq = case.get("seq") or [case["theta"]]
    if case.get("op") == "E-again":
        r.run_variant(v, theta_seq=seq, only_defl=None, only_ops=None)
    elif "op" in case:
        r.run_variant(v, theta_seq=seq, only_defl=None, only_ops=[case["op"]])
    elif "defl" in case:
        r.run_variant(v, theta_seq=seq, only_defl=case["defl"], only_ops=[])
    else:
        r.run_variant(v, theta_seq=seq, only_defl=None, only_ops=[])
    # keep what concerns the replayed vector
    keep = {k: w for k, w in acc.viol.items() if w[1]["case"].get("theta") == case["theta"]}
    acc.viol = keep or acc.viol
    return acc


def selftest():
    SV.selftest()
    P.selftest()
    F.selftest()
    # reference N/Sz/S^2 under a hand-written Jordan-Wigner image agree with their occupation-number definition
    n = 4
    Nm = F.op_matrix(n, F.number_operator(n))
    assert np.allclose(np.diag(Nm).real, [bin(i).count("1") for i in range(16)])
    S2m = F.op_matrix(n, F.s2_operator(n, False))
    v = np.zeros(16); v[F.index_of((1, 0, 0, 1))] = 1 / np.sqrt(2); v[F.index_of((0, 1, 1, 0))] = 1 / np.sqrt(2)
    assert abs(v @ S2m @ v - 2.0) < 1e-12       # (a0 b1 + b0 a1)/sqrt2 is the m=0 triplet in this sign convention
    # post-selection reference: RY then MEASURE keeps a normalised state
    psi, p = SV.run_measured([["RY", [0], None, 0.9, False], ["MEASURE", [0], None, "", False]], 1, [1])
    assert abs(np.linalg.norm(psi) - 1) < 1e-12 and abs(p - math.sin(0.45) ** 2) < 1e-12
    assert theta_vec("dense", 5, 0.37) != theta_vec("equal", 5, 0.37) and len(set(theta_vec("dense", 7, 0.37))) == 7


if __name__ == "__main__":
    import sys
    runner.main(sys.modules[__name__])
