"""C04 - Qubit Hamiltonians reproduce mean-field and full-CI energies.

E1 over a catalogue: the FULL product  molecule x geometry x reference x frozen-orbital pattern x active-space rotation
x encoding x ordering.  Real code: SecondQuantizedMolecule (SCF, freeze_mos, mo_coeff setter, fermionic_hamiltonian),
fermion_to_qubit_mapping, get_reference_circuit, FCISolver, CCSDSolver.  Oracle: mc/ref/chem.py (PySCF AO integrals,
textbook frozen-core fold in the AO basis, pyscf.fci kernels, mcscf.CASCI/UCASCI cross-check) and a numpy Pauli-sum
evaluator written here (sector blocks of the qubit Hamiltonian; qubit 0 = most significant bit as in mc/ref/statevec).
"""
import contextlib
import io
import math

import numpy as np

from mc import runner
from mc.runner import Acc
from mc.ref import statevec as SV
from mc.ref import chem as CH

PID = "C04"
DESIGN_REF = "DESIGN.md section 2 / C04"
ENGINE = "seqspace (full product of a finite catalogue)"
RULE = ("cases = molecule x geometry(2) x reference(RHF/ROHF, UHF) x frozen-orbital pattern x active-space rotation "
        "(id, Givens occ-virt, pi/2 virt-virt swap, occ-occ mix; thorough: + composite) x encoding(JW,BK,scBK,JKMN) x ordering(2); each case "
        "compares the encoded reference-determinant energy, the (n_alpha,n_beta)-sector minimum of the qubit Hamiltonian, "
        "FCISolver/CCSDSolver and Tangelo's orbital/electron bookkeeping with the PySCF oracle; a case is non-trivial "
        "when at least one mechanism beyond plain RHF/JW is exercised: frozen orbitals folded, open-shell or "
        "spin-polarised (Ca != Cb) reference, rotated orbitals, or a correlation energy > 1e-6 Ha (sector minimum is "
        "not the reference diagonal element); distinct = distinct (molecule, geometry, reference, frozen, rotation, "
        "encoding, ordering)")
ASSUMPTIONS = [
    "basis sets / molecules outside the catalogue, > 12 active spin-orbitals, Psi4 back-end: not explored",
    "geometries: two per molecule (near-equilibrium and stretched), uniformly scaled by 1+0.05*d, d seed-derived",
    "rotations: one representative per kind (Givens angle 0.3+0.2*d, exact pi/2 swap, occ-occ angle 0.7-0.2*d; thorough "
    "adds one composite rotation, alpha-only for UHF); for UHF alpha and beta are rotated by different angles",
    "sector of the qubit Hamiltonian fixed with N_alpha, N_beta mapped by the same Tangelo mapping call (their "
    "faithfulness is C03's subject; they must come out diagonal) and cross-checked by direct decoding for JW",
    "tolerances: 1e-7 Ha for the reference-determinant energy and for rotation invariance, 1e-6 Ha for sector minima "
    "vs PySCF FCI/CASCI and for FCISolver/CCSDSolver (CCSD only for <= 2 active electrons, where it is exact)",
    "UHF with unequal alpha/beta active spaces: oracle = UCASCI over the physical orbitals only (padding orbitals of "
    "the register are never occupied in the oracle)",
    "the determinant energy of rotated orbitals (check a2) is a consequence of the statement (H is the Hamiltonian in "
    "the given orbital basis), reported under its own finding group",
]
TOL_E = 1e-7
TOL_CI = 1e-6
TOL_ORACLE = 1e-8      # agreement demanded between the two independent PySCF routes (else harness error)
TOL_HERM = 1e-6        # anti-Hermitian part / out-of-sector leak of the qubit Hamiltonian that is tolerated: integrals that
#                        vanish by symmetry up to SCF noise (~1e-8) are dropped one-sidedly by the 1e-8 term thresholds of
#                        openfermion, which leaves odd-Y terms of that size; the eigenvalue shift is second order
ENCODINGS = ("JW", "BK", "scBK", "JKMN")
ORDERINGS = (False, True)


# ---------------------------------------------------------------------------------------------------------------------
# catalogue

def _chain(n, d):
    return [("H", (0.0, 0.0, i * d)) for i in range(n)]


def _geom(name):
    if name in ("H2", "H2_631g"):
        return _chain(2, 0.74)
    if name == "HeH+":
        return [("He", (0.0, 0.0, 0.0)), ("H", (0.0, 0.0, 0.775))]
    if name == "H3+":
        return [("H", (0.0, 0.0, 0.0)), ("H", (0.0, 0.0, 0.88)), ("H", (0.0, 0.79, 0.40))]
    if name == "H3":
        return [("H", (0.0, 0.0, 0.0)), ("H", (0.0, 0.0, 0.93)), ("H", (0.0, 0.25, 1.90))]
    if name in ("H4chain", "H4triplet"):
        return [("H", (0.0, 0.0, 0.0)), ("H", (0.0, 0.0, 0.85)), ("H", (0.0, 0.0, 1.80)), ("H", (0.0, 0.0, 2.70))]
    if name == "H4rect":
        return [("H", (0.0, 0.0, 0.0)), ("H", (0.0, 0.0, 0.80)), ("H", (0.0, 1.25, 0.0)), ("H", (0.0, 1.25, 0.80))]
    if name == "LiH":
        return [("Li", (0.0, 0.0, 0.0)), ("H", (0.0, 0.0, 1.60))]
    if name == "H2O":
        return [("O", (0.0, 0.0, 0.1173)), ("H", (0.0, 0.7572, -0.4692)), ("H", (0.0, -0.7572, -0.4692))]
    raise KeyError(name)


# name -> (charge, spin, basis, (scale geometry 0, scale geometry 1))
MOLS = {
    "H2": (0, 0, "sto-3g", (1.0, 1.9)),
    "H2_631g": (0, 0, "6-31g", (1.0, 1.9)),
    "HeH+": (1, 0, "sto-3g", (1.0, 1.6)),
    "H3+": (1, 0, "sto-3g", (1.0, 1.7)),
    "H3": (0, 1, "sto-3g", (1.0, 1.6)),
    "H4chain": (0, 0, "sto-3g", (1.0, 1.8)),
    "H4rect": (0, 0, "sto-3g", (1.0, 1.7)),
    "H4triplet": (0, 2, "sto-3g", (1.0, 1.6)),
    "LiH": (0, 0, "sto-3g", (1.0, 1.8)),
    "H2O": (0, 0, "sto-3g", (1.0, 1.35)),
}

# frozen-orbital patterns: (category label, frozen_orbitals argument, tier). "r" = RHF/ROHF, "u" = UHF.
Q, T = "quick", "thorough"
PATTERNS = {
    "H2": {"r": [("none", None, Q), ("int", 0, Q)],
           "u": [("none", None, Q), ("perspin_unequal", [[], [1]], Q), ("perspin_unequal", [[1], []], Q)]},
    "H2_631g": {"r": [("none", None, Q), ("contiguous", [2, 3], Q), ("interior_virtual", [2], Q),
                      ("noncontig_virtual", [1, 3], Q), ("contiguous", [3], Q)],
                "u": [("none", None, Q), ("perspin_equal", [[2], [2]], Q), ("perspin_shifted", [[1], [3]], Q),
                      ("perspin_unequal", [[1, 2], [3]], Q), ("perspin_unequal", [[], [1, 2, 3]], Q)]},
    "HeH+": {"r": [("none", None, Q)],
             "u": [("none", None, Q), ("perspin_unequal", [[], [1]], Q), ("perspin_unequal", [[1], []], Q)]},
    "H3+": {"r": [("none", None, Q), ("contiguous", [2], Q), ("interior_virtual", [1], Q)],
            "u": [("none", None, Q), ("perspin_equal", [[1], [1]], Q), ("perspin_shifted", [[2], [1]], Q),
                  ("perspin_unequal", [[], [2]], Q), ("perspin_unequal", [[1, 2], []], Q)]},
    "H3": {"r": [("none", None, Q), ("int", 1, Q), ("contiguous", [0], Q), ("contiguous", [2], Q)],
           "u": [("none", None, Q), ("int", 1, Q), ("perspin_equal", [[2], [2]], Q), ("perspin_unequal", [[0], []], Q),
                 ("perspin_unequal", [[], [0]], Q), ("perspin_shifted", [[2], [1]], Q), ("perspin_unequal", [[0, 2], [1]], Q),
                 ("perspin_shifted_occ", [[1], [0]], Q), ("perspin_unequal", [[0, 1], []], Q)]},
    "H4chain": {"r": [("none", None, Q), ("int", 1, Q), ("contiguous", [1, 2], Q), ("noncontig_occ_virt", [0, 3], Q),
                      ("interior_virtual", [2], Q), ("noncontig_occ_virt", [0, 2], Q), ("contiguous", [3], Q)],
                "u": [("none", None, Q), ("int", 1, Q), ("perspin_equal", [[0, 3], [0, 3]], Q),
                      ("perspin_equal", [[2], [2]], Q), ("perspin_unequal", [[1], []], Q),
                      ("perspin_unequal", [[3], [0, 2]], Q), ("perspin_shifted", [[0, 2], [1, 3]], Q),
                      ("perspin_shifted_occ", [[0], [1]], Q), ("perspin_shifted_occ", [[0, 3], [1, 2]], Q)]},
    "H4triplet": {"r": [("none", None, Q), ("int", 1, Q), ("contiguous", [3], Q), ("noncontig_occ_virt", [0, 3], Q)],
                  "u": [("none", None, Q), ("int", 1, Q), ("perspin_equal", [[3], [3]], Q),
                        ("perspin_unequal", [[0], [0, 2]], Q), ("perspin_unequal", [[1], []], Q),
                        ("perspin_unequal", [[], [0]], Q), ("perspin_shifted", [[0, 3], [0, 2]], Q),
                        ("perspin_shifted_occ", [[1], [0]], Q), ("perspin_shifted_occ", [[0, 2], [0, 3]], Q)]},
    "LiH": {"r": [("contiguous_occ_virt", [0, 4, 5], Q), ("noncontig_occ_virt", [0, 3, 4], Q), ("interior_virtual", [2, 3], Q),
                  ("noncontig_occ_virt", [0, 3], Q), ("none", None, T), ("int", 1, T), ("interior_virtual", [3], T),
                  ("noncontig_occ_virt", [0, 5], T), ("frozen_core_default", "frozen_core", T)],
            "u": [("perspin_equal", [[0, 4, 5], [0, 4, 5]], Q), ("perspin_equal", [[0, 3, 4], [0, 3, 4]], Q),
                  ("perspin_shifted", [[0, 3], [0, 5]], Q), ("perspin_unequal", [[0, 4, 5], [0, 5]], Q),
                  ("perspin_unequal", [[2, 3], [0, 2, 3]], Q), ("perspin_shifted_occ", [[0, 4, 5], [1, 4, 5]], Q),
                  ("none", None, T), ("int", 1, T),
                  ("perspin_equal", [[3], [3]], T), ("perspin_unequal", [[0], [0, 5]], T),
                  ("frozen_core_default", "frozen_core", T)]},
    "H2O": {"r": [("int", 1, T), ("int", 2, T), ("contiguous", [0, 1, 2], T), ("noncontig_occ_virt", [0, 2, 6], T),
                  ("interior_virtual", [5], T), ("noncontig_occ_virt", [0, 6], T), ("noncontig_occ_virt", [0, 1, 5], T)],
            "u": [("int", 2, T), ("perspin_equal", [[0, 1, 2], [0, 1, 2]], T), ("perspin_shifted", [[0, 1, 6], [0, 1, 5]], T),
                  ("perspin_unequal", [[0, 1, 2], [0, 1]], T), ("perspin_unequal", [[0, 1, 2, 6], [0, 1, 2]], T),
                  ("perspin_unequal", [[0, 1], [0, 1, 3]], T), ("perspin_shifted_occ", [[0, 1, 3], [0, 2, 4]], T)]},
}
PATTERNS["H4rect"] = PATTERNS["H4chain"]
MOL_ORDER = ["H2", "H2_631g", "HeH+", "H3+", "H3", "H4chain", "H4rect", "H4triplet", "LiH", "H2O"]
ROTATIONS = ("id", "ov", "vv", "oo")
ROTATIONS_T = ROTATIONS + ("mix",)     # thorough: composite rotation; for UHF applied to the alpha orbitals only


def n_core_orbitals(name):
    """The documented 'frozen_core' default: one 1s core orbital per second-row atom of the catalogue."""
    return sum(1 for el, _ in _geom(name) if el not in ("H", "He"))


def geometry(name, gi, seed):
    s = MOLS[name][3][gi] * (1.0 + 0.05 * runner.seed_delta(seed))
    return [(el, tuple(round(s * x, 10) for x in xyz)) for el, xyz in _geom(name)]


def angles(seed):
    d = runner.seed_delta(seed)
    return {"ov": round(0.3 + 0.2 * d, 6), "oo": round(0.7 - 0.2 * d, 6), "mix": round(-0.45 - 0.1 * d, 6)}


# ---------------------------------------------------------------------------------------------------------------------
# numpy Pauli-sum evaluation (qubit 0 = most significant bit of the basis-state index)

_TAB = {}


def _tables(n):
    t = _TAB.get(n)
    if t is None:
        idx = np.arange(2 ** n, dtype=np.int64)
        par = np.zeros(2 ** n, dtype=np.int8)
        for b in range(n):
            par ^= ((idx >> b) & 1).astype(np.int8)
        t = _TAB[n] = (idx, par)
    return t


def _masks(term, n):
    x = zy = ny = 0
    for q, p in term:
        if q >= n or q < 0:
            raise IndexError(f"qubit index {q} outside register of {n}")
        bit = 1 << (n - 1 - q)
        if p == "X":
            x |= bit
        elif p == "Y":
            x |= bit
            zy |= bit
            ny += 1
        elif p == "Z":
            zy |= bit
        else:
            raise ValueError(p)
    return x, zy, ny


def diagonal(terms, n):
    """(diagonal of the operator as a vector, sum |c| of the terms that are not diagonal)."""
    idx, par = _tables(n)
    d = np.zeros(2 ** n, dtype=complex)
    off = 0.0
    for term, c in terms.items():
        x, zy, _ = _masks(term, n)
        if x:
            off += abs(c)
        else:
            d += c * (1 - 2 * par[idx & zy])
    return d, off


def columns(terms, n, S):
    """Columns H|s>, s in S, as a (2^n, |S|) array."""
    _, par = _tables(n)
    S = np.asarray(S, dtype=np.int64)
    Tm = np.zeros((2 ** n, len(S)), dtype=complex)
    cols = np.arange(len(S))
    for term, c in terms.items():
        x, zy, ny = _masks(term, n)
        ph = (c * (1j) ** ny) * (1 - 2 * par[S & zy])
        Tm[S ^ x, cols] += ph
    return Tm


def _pauli_selftest():
    terms = {(): 0.3, ((0, "X"), (2, "Y")): 0.7 - 0.1j, ((1, "Z"),): -0.4, ((0, "Y"), (1, "Y"), (2, "Z")): 0.25,
             ((2, "X"),): 1.1, ((0, "Z"), (2, "Z")): -0.6}
    M = SV.op_matrix(terms, 3)
    Tm = columns(terms, 3, list(range(8)))
    assert np.allclose(M, Tm, atol=1e-12)
    d, off = diagonal(terms, 3)
    Md = SV.op_matrix({t: c for t, c in terms.items() if all(p == "Z" for _, p in t)}, 3)
    assert np.allclose(np.diag(Md), d) and abs(off - (abs(0.7 - 0.1j) + 0.25 + 1.1)) < 1e-12
    sub = columns(terms, 3, [1, 6])
    assert np.allclose(sub, M[:, [1, 6]])


# ---------------------------------------------------------------------------------------------------------------------
# expected bookkeeping (harness side, from the PySCF occupations and the frozen spec only)

def expected_partition(mo_occ, spec, uhf, nmo, n_core=0):
    """Per-spin frozen-occupied / frozen-virtual / active (occupied first) lists and active electron numbers."""
    if spec is None:
        spec = 0
    if spec == "frozen_core":
        spec = n_core
    if isinstance(spec, int):
        fr = [list(range(spec)), list(range(spec))]
    elif uhf:
        fr = [list(spec[0]), list(spec[1])]
    else:
        fr = [list(spec), list(spec)]
    mo_occ = np.asarray(mo_occ)
    if uhf:
        occ = [[i for i in range(nmo) if mo_occ[0][i] > 0.5], [i for i in range(nmo) if mo_occ[1][i] > 0.5]]
    else:
        occ = [[i for i in range(nmo) if mo_occ[i] > 0.5], [i for i in range(nmo) if mo_occ[i] > 1.5]]
    out = {"frozen_occ": [], "frozen_virt": [], "active": [], "act_occ": [], "act_virt": [], "nelec": []}
    for s in range(2):
        fo = [i for i in fr[s] if i in occ[s]]
        fv = [i for i in fr[s] if i not in occ[s]]
        ao = [i for i in occ[s] if i not in fr[s]]
        av = [i for i in range(nmo) if i not in occ[s] and i not in fr[s]]
        out["frozen_occ"].append(fo)
        out["frozen_virt"].append(fv)
        out["act_occ"].append(ao)
        out["act_virt"].append(av)
        out["active"].append(ao + av)
        out["nelec"].append(len(ao))
    if not uhf:
        # restricted: one spatial active list = orbitals with any occupation first (docc, socc), then virtuals
        assert out["frozen_occ"][0] == out["frozen_occ"][1], "frozen half-filled orbital in the catalogue"
        out["active"][1] = list(out["active"][0])
    return out


def givens(n, i, j, theta):
    R = np.eye(n)
    c, s = math.cos(theta), math.sin(theta)
    R[i, i] = c
    R[j, j] = c
    R[i, j] = -s
    R[j, i] = s
    return R


def swap90(n, i, j):
    R = np.eye(n)
    R[i, i] = 0.0
    R[j, j] = 0.0
    R[i, j] = -1.0
    R[j, i] = 1.0
    return R


def rotation(kind, part, uhf, nmo, ang):
    """Rotation matrix (restricted) or pair (UHF) acting inside the active space only; None if not available."""
    if kind == "id":
        return (np.eye(nmo), np.eye(nmo)) if uhf else np.eye(nmo)

    def one(s, scale):
        if uhf:
            ao, av = part["act_occ"][s], part["act_virt"][s]
        else:
            # restricted: anything with electrons counts as occupied, empty as virtual
            ao, av = part["act_occ"][0], part["act_virt"][0]
        if kind == "ov":
            return givens(nmo, ao[-1], av[0], scale * ang["ov"]) if ao and av else None
        if kind == "vv":
            return swap90(nmo, av[0], av[-1]) if len(av) >= 2 else None
        if kind == "oo":
            return givens(nmo, ao[0], ao[-1], scale * ang["oo"]) if len(ao) >= 2 else None
        if kind == "mix":
            if not (ao and av) or len(ao) + len(av) < 3:
                return None
            R = givens(nmo, ao[0], av[-1], ang["mix"]) @ givens(nmo, ao[-1], av[0], ang["ov"])
            if len(av) >= 2:
                R = R @ swap90(nmo, av[0], av[-1])
            if len(ao) >= 2:
                R = R @ givens(nmo, ao[0], ao[-1], ang["oo"])
            return R
        raise KeyError(kind)

    if not uhf:
        return one(0, 1.0)
    if kind == "mix":
        Ra = one(0, 1.0)
        return None if Ra is None else (Ra, np.eye(nmo))
    Ra, Rb = one(0, 1.0), one(1, -0.6)
    if Ra is None and Rb is None:
        return None
    return (Ra if Ra is not None else np.eye(nmo), Rb if Rb is not None else np.eye(nmo))


# ---------------------------------------------------------------------------------------------------------------------
# real-code helpers

@contextlib.contextmanager
def quiet_fds():
    """Silence PySCF's 'WARN: ECP not specified' lines (written through a stream bound at import time)."""
    import os
    import sys
    sys.stdout.flush()
    sys.stderr.flush()
    saved = [os.dup(1), os.dup(2)]
    null = os.open(os.devnull, os.O_WRONLY)
    try:
        os.dup2(null, 1)
        os.dup2(null, 2)
        yield
    finally:
        sys.stdout.flush()
        sys.stderr.flush()
        os.dup2(saved[0], 1)
        os.dup2(saved[1], 2)
        for fd in saved + [null]:
            os.close(fd)


def build_molecule(name, gi, uhf, seed):
    from tangelo import SecondQuantizedMolecule
    q, spin, basis, _ = MOLS[name]
    with quiet_fds():
        mol = SecondQuantizedMolecule(geometry(name, gi, seed), q=q, spin=spin, basis=basis, frozen_orbitals=None,
                                      uhf=uhf, symmetry=False)
    return mol


def ints_distance(a, b):
    """max |difference| between two (core, one-body, two-body) integral sets (RHF arrays or UHF tuples/lists of arrays)."""
    def flat(x):
        if isinstance(x, (tuple, list)):
            return [y for z in x for y in flat(z)]
        return [np.asarray(x, dtype=float)]
    fa, fb = flat(a), flat(b)
    if len(fa) != len(fb) or any(x.shape != y.shape for x, y in zip(fa, fb)):
        return float("inf")
    return max(float(np.max(np.abs(x - y))) if x.size else 0.0 for x, y in zip(fa, fb))


def copy_C(C, uhf):
    return [np.array(C[0], dtype=float), np.array(C[1], dtype=float)] if uhf else np.array(C, dtype=float)


def refkind(name, uhf):
    return "uhf" if uhf else ("rhf" if MOLS[name][1] == 0 else "rohf")


def number_ops(n_reg):
    from tangelo.toolboxes.operators import FermionOperator
    na, nb = FermionOperator(), FermionOperator()
    for p in range(n_reg // 2):
        na += FermionOperator(((2 * p, 1), (2 * p, 0)), 1.0)
        nb += FermionOperator(((2 * p + 1, 1), (2 * p + 1, 0)), 1.0)
    return na, nb


def jw_counts(nq, utd):
    """Direct decoding of the JW basis states: (n_alpha, n_beta) per basis-state index."""
    idx, _ = _tables(nq)
    na = np.zeros(2 ** nq, dtype=int)
    nb = np.zeros(2 ** nq, dtype=int)
    for qb in range(nq):
        bit = (idx >> (nq - 1 - qb)) & 1
        is_alpha = (qb < nq // 2) if utd else (qb % 2 == 0)
        if is_alpha:
            na += bit
        else:
            nb += bit
    return na, nb


class Combo:
    """One (molecule, geometry, reference) with its SecondQuantizedMolecule, explored over patterns/rotations/encodings."""

    def __init__(self, name, gi, uhf, seed, acc, mol):
        self.name, self.gi, self.uhf, self.seed, self.acc = name, gi, uhf, seed, acc
        self.ang = angles(seed)
        self.ref = refkind(name, uhf)
        self.mol = mol
        self.nmo = int(self.mol.n_mos)
        self.C0 = copy_C(self.mol.mo_coeff, uhf)
        self.mf = self.mol.mean_field
        self.ints = CH.ao_integrals(self.mf)
        self.mo_occ = np.array(self.mol.mo_occ, dtype=float)
        self.polarised = bool(uhf and not np.allclose(self.C0[0], self.C0[1], atol=1e-6)) if uhf else False
        self._nops = {}
        # oracle self-consistency: determinant energy of the SCF orbitals is the SCF energy
        p0 = expected_partition(self.mo_occ, None, uhf, self.nmo)
        e0 = CH.det_energy(self.mf, self._C(self.C0), p0["act_occ"][0], p0["act_occ"][1], self.ints)
        if abs(e0 - float(self.mf.e_tot)) > TOL_ORACLE:
            raise RuntimeError(f"oracle: determinant energy {e0} != SCF energy {self.mf.e_tot} ({name},{gi},{uhf})")

    def live(self, spec):
        if not isinstance(spec, list):
            return spec
        # the selection is a SET of orbitals: it is handed over in descending order here (the out-of-place copy made just before
        # got the ascending listing; the two are compared and all bookkeeping below is judged on this object)
        if len(spec) == 2 and all(isinstance(x, list) for x in spec):
            if not hasattr(self, "_live2"):
                self._live2 = [[], []]
            self._live2[0][:] = spec[0][::-1]
            self._live2[1][:] = spec[1][::-1]
            return self._live2
        if not hasattr(self, "_live1"):
            self._live1 = []
        self._live1[:] = spec[::-1]
        return self._live1

    def _C(self, C):
        return (np.asarray(C[0]), np.asarray(C[1])) if self.uhf else np.asarray(C)

    def case(self, label, spec, rot, enc=None, utd=None):
        c = {"kind": "c04", "mol": self.name, "geom": self.gi, "uhf": self.uhf, "seed": self.seed, "label": label,
             "frozen": spec, "rot": rot}
        if enc is not None:
            c["enc"] = enc
            c["utd"] = utd
        return c

    def bad(self, site, kind, sig, case, detail):
        self.acc.violation(f"{site}/{kind}/{sig}", dict(case, focus=f"{site}/{kind}"), detail, group=f"{site}/{kind}")

    def mapped_number_ops(self, enc, utd, n_reg, n_el, spin):
        from tangelo.toolboxes.qubit_mappings.mapping_transform import fermion_to_qubit_mapping
        k = (enc, utd, n_reg, n_el, spin)
        if k not in self._nops:
            na, nb = number_ops(n_reg)
            self._nops[k] = tuple(fermion_to_qubit_mapping(o, enc, n_spinorbitals=n_reg, n_electrons=n_el,
                                                           up_then_down=utd, spin=spin).terms for o in (na, nb))
        return self._nops[k]

    # -----------------------------------------------------------------------------------------------------------------
    def run_pattern(self, label, spec, rots=ROTATIONS, encs=ENCODINGS, orderings=ORDERINGS):
        """Everything for one frozen-orbital pattern: bookkeeping, then rotations x encodings x orderings."""
        from tangelo.toolboxes.qubit_mappings.mapping_transform import fermion_to_qubit_mapping, get_qubit_number
        from tangelo.toolboxes.qubit_mappings.statevector_mapping import get_reference_circuit
        acc, mol, uhf = self.acc, self.mol, self.uhf
        sigp = f"{self.ref}:{label}"
        case0 = self.case(label, spec, "id")
        try:
            # history: the Hamiltonian of the previous selection has just been evaluated at the current orbitals (no orbital
            # assignment in between), then the selection changes
            _ = mol.fermionic_hamiltonian
            mol.freeze_mos(None)
            full = repr(mol.active_mos)
            cp = mol.freeze_mos(spec, inplace=False)
            untouched = (repr(mol.active_mos) == full)
            # history: list-valued selections are handed over in ONE list object that the caller re-fills in place from pattern to
            # pattern (anything keyed on the identity of that list, or holding a reference to it, goes stale here)
            mol.freeze_mos(self.live(spec))
        except Exception as e:
            self.bad("freeze_mos", "exception", sigp, case0, {"err": repr(e)[:300]})
            return
        # freeze_mos(inplace=False): the original keeps its (empty) frozen set, the copy describes the same active space
        acc.ev()
        try:
            fsort = (lambda f: [sorted(f[0]), sorted(f[1])] if (f and isinstance(f[0], (list, tuple))) else (sorted(f) if f else f))
            same = (cp.active_mos == mol.active_mos and fsort(cp.frozen_mos) == fsort(mol.frozen_mos)
                    and tuple(cp.n_active_ab_electrons) == tuple(mol.n_active_ab_electrons)
                    and cp.n_active_sos == mol.n_active_sos)
            if same and "id" in rots:
                ta, tb = cp.fermionic_hamiltonian.terms, mol.fermionic_hamiltonian.terms
                same = set(ta) == set(tb) and all(abs(ta[k] - tb[k]) < 1e-12 for k in ta)
            if not (same and untouched):
                self.bad("freeze_mos(inplace=False)", "copy-differs-or-original-changed", sigp, case0,
                         {"original_untouched": bool(untouched), "copy_equivalent": bool(same)})
        except Exception as e:
            self.bad("freeze_mos(inplace=False)", "exception", sigp, case0, {"err": repr(e)[:300]})
        part = expected_partition(self.mo_occ, spec, uhf, self.nmo, n_core_orbitals(self.name))
        n_alpha, n_beta = part["nelec"]
        n_reg = 2 * max(len(part["active"][0]), len(part["active"][1]))

        # ---- bookkeeping of the real object vs the harness' own partition --------------------------------------------
        acc.ev()
        try:
            if uhf:
                # (the frozen lists are sets of orbitals: the order in which they are reported follows the caller's listing)
                got = {"active": [list(mol.active_mos[0]), list(mol.active_mos[1])],
                       "frozen_occ": [sorted(mol.frozen_occupied[0]), sorted(mol.frozen_occupied[1])],
                       "frozen_virt": [sorted(mol.frozen_virtual[0]), sorted(mol.frozen_virtual[1])]}
                exp = {k: part[k] for k in got}
            else:
                got = {"active": list(mol.active_mos), "frozen_occ": sorted(mol.frozen_occupied),
                       "frozen_virt": sorted(mol.frozen_virtual)}
                exp = {k: part[k][0] for k in got}
            got["nelec"] = [int(x) for x in mol.n_active_ab_electrons]
            exp["nelec"] = [n_alpha, n_beta]
            got["n_active_electrons"], exp["n_active_electrons"] = int(mol.n_active_electrons), n_alpha + n_beta
            got["active_spin"], exp["active_spin"] = int(mol.active_spin), n_alpha - n_beta
            got["n_active_sos"], exp["n_active_sos"] = int(mol.n_active_sos), n_reg
        except Exception as e:
            self.bad("bookkeeping", "exception", sigp, case0, {"err": repr(e)[:300]})
            return
        wrong = sorted(k for k in exp if got[k] != exp[k])
        if wrong:
            self.bad("bookkeeping", "mismatch", f"{sigp}:{'+'.join(wrong)}", case0, {"expected": exp, "observed": got})
            return
        n_el, a_spin = got["n_active_electrons"], got["active_spin"]

        e_sector_id = {}
        for rot in rots:
            R = rotation(rot, part, uhf, self.nmo, self.ang)
            if R is None:
                acc.count("rotation_not_available")
                continue
            C = [self.C0[0] @ R[0], self.C0[1] @ R[1]] if uhf else self.C0 @ R
            caser = self.case(label, spec, rot)
            sigr = f"{sigp}:{rot}"
            acc.states += 1
            # ---- oracle (PySCF): CASCI/UCASCI energy and determinant energy, two independent routes -----------------
            fo = (part["frozen_occ"][0], part["frozen_occ"][1])
            act = (part["active"][0], part["active"][1])
            fv = (part["frozen_virt"][0], part["frozen_virt"][1])
            Cn = self._C(C)
            e_cas, info = CH.cas_energy(self.mf, Cn, fo, act, (n_alpha, n_beta), self.ints)
            if uhf:
                e_x = CH.casci_crosscheck(self.mf, Cn, fo, act, fv, (n_alpha, n_beta))
            else:
                e_x = CH.casci_crosscheck(self.mf, Cn, fo[0], act[0], fv[0], (n_alpha, n_beta))
            if e_x is not None:
                acc.count("oracle_crosschecked")
                if abs(e_x - e_cas) > TOL_ORACLE:
                    raise RuntimeError(f"oracle routes disagree: AO fold {e_cas} vs mcscf {e_x} for {caser}")
            elif len(act[0]) + len(act[1]) <= 10:
                # unequal alpha/beta active spaces: second route = naive numpy determinant-space diagonalisation
                ecore, h1, g2 = CH.active_space(self.mf, Cn, fo, act, self.ints)
                e_x = CH.fock_space_min(ecore, h1, g2, (n_alpha, n_beta))
                acc.count("oracle_crosschecked(naive determinant FCI, unequal active spaces)")
                if abs(e_x - e_cas) > TOL_ORACLE:
                    raise RuntimeError(f"oracle routes disagree: direct_uhf(padded) {e_cas} vs naive {e_x} for {caser}")
            else:
                acc.count("oracle_single_route(unequal active spaces)")
            occ_a = part["frozen_occ"][0] + part["active"][0][:n_alpha]
            occ_b = part["frozen_occ"][1] + part["active"][1][:n_beta]
            e_det = CH.det_energy(self.mf, Cn, occ_a, occ_b, self.ints)
            if e_cas > e_det + 1e-9:
                raise RuntimeError(f"oracle: CAS energy {e_cas} above determinant energy {e_det} for {caser}")

            # ---- real code: the three ways of replacing the orbitals must give the same integrals ---------------------
            alt_routes = {}
            if rot != "id":
                try:
                    mol.get_active_space_integrals()              # integrals have been evaluated at the old orbitals
                    # (c) the live array returned by mol.mo_coeff modified in place, then assigned back
                    live = mol.mo_coeff
                    if uhf:
                        live[0][...] = C[0]
                        live[1][...] = C[1]
                    else:
                        live[...] = C
                    mol.mo_coeff = live
                    alt_routes["live-array-modified-in-place"] = mol.get_active_space_integrals()
                    self._restore()
                    mol.get_active_space_integrals()
                    # (b) explicit argument, stored orbitals untouched
                    alt_routes["explicit-mo_coeff-argument"] = mol.get_active_space_integrals(mo_coeff=copy_C(C, uhf))
                except Exception as e:
                    self.bad("get_active_space_integrals", "exception", sigr, caser, {"err": repr(e)[:300]})
                self._restore()
            # ---- real code: set orbitals, build the fermionic Hamiltonian ---------------------------------------------
            try:
                if rot != "id":
                    mol.mo_coeff = C          # (identity: the SCF orbitals restored after the previous rotation are still in place)
                ferm = mol.fermionic_hamiltonian
                mf_energy = float(mol.mf_energy)
            except Exception as e:
                self.bad("fermionic_hamiltonian", "exception", sigr, caser, {"err": repr(e)[:300]})
                self._restore()
                continue
            if alt_routes:
                base = mol.get_active_space_integrals()
                for rname, got in alt_routes.items():
                    acc.ev()
                    d = ints_distance(base, got)
                    if d > 1e-9:
                        self.bad("rotation_routes", f"integrals-differ-from-setter-route/{rname}", sigr, caser, {"max_abs_diff": d})
            nontrivial_base = bool(any(part["frozen_occ"]) or any(part["frozen_virt"]) or self.ref != "rhf"
                                   or self.polarised or rot != "id" or (e_det - e_cas) > 1e-6)

            # ---- classical solvers ------------------------------------------------------------------------------------
            if not uhf:
                acc.ev()
                try:
                    from tangelo.algorithms.classical.fci_solver import FCISolver
                    e_fci = float(FCISolver(mol).simulate())
                    if abs(e_fci - e_cas) > TOL_CI:
                        self.bad("FCISolver", "energy-mismatch", sigr, caser,
                                 {"FCISolver": e_fci, "oracle_casci": e_cas, "diff": e_fci - e_cas})
                except Exception as e:
                    self.bad("FCISolver", "exception", sigr, caser, {"err": repr(e)[:300]})
            if n_el <= 2 and rot in ("id", "vv"):
                acc.ev()
                try:
                    from tangelo.algorithms.classical.ccsd_solver import CCSDSolver
                    e_cc = float(CCSDSolver(mol).simulate())
                    if abs(e_cc - e_cas) > TOL_CI:
                        self.bad("CCSDSolver", "energy-mismatch", sigr, caser,
                                 {"CCSDSolver": e_cc, "oracle_casci": e_cas, "diff": e_cc - e_cas})
                    acc.count("ccsd_compared")
                except Exception as e:
                    self.bad("CCSDSolver", "exception", sigr, caser, {"err": repr(e)[:300]})

            # ---- encodings x orderings --------------------------------------------------------------------------------
            for enc in encs:
                for utd in orderings:
                    casee = self.case(label, spec, rot, enc, utd)
                    sige = f"{sigr}:{enc}:{'utd' if utd else 'alt'}"
                    acc.transitions += 1
                    try:
                        hq = fermion_to_qubit_mapping(ferm, enc, n_spinorbitals=n_reg, n_electrons=n_el,
                                                      up_then_down=utd, spin=a_spin)
                        nq = int(get_qubit_number(enc, n_reg))
                        terms = dict(hq.terms)
                        na_t, nb_t = self.mapped_number_ops(enc, utd, n_reg, n_el, a_spin)
                        with contextlib.redirect_stderr(io.StringIO()):
                            circ = get_reference_circuit(n_reg, n_el, enc, up_then_down=utd, spin=a_spin)
                        gates = [SV.desc(g) for g in circ._gates]
                        cwidth = int(circ.width)
                    except Exception as e:
                        self.bad("mapping", "exception", sige, casee, {"err": repr(e)[:300]})
                        continue
                    try:
                        dH, _ = diagonal(terms, nq)
                        dNa, offa = diagonal(na_t, nq)
                        dNb, offb = diagonal(nb_t, nq)
                    except IndexError as e:
                        self.bad("mapping", "qubit-index-outside-register", sige, casee, {"err": repr(e)})
                        continue
                    if offa > 1e-12 or offb > 1e-12:
                        raise RuntimeError(f"encoded number operators are not diagonal for {enc}: harness assumption broken")
                    dNa, dNb = np.rint(dNa.real).astype(int), np.rint(dNb.real).astype(int)
                    if enc == "JW":
                        ja, jb = jw_counts(nq, utd)
                        acc.ev()
                        if not (np.array_equal(ja, dNa) and np.array_equal(jb, dNb)):
                            self.bad("sector", "jw-number-operator-mismatch", sige, casee, None)
                            continue
                    S = np.nonzero((dNa == n_alpha) & (dNb == n_beta))[0]
                    dim_exp = math.comb(n_reg // 2, n_alpha) * math.comb(n_reg // 2, n_beta)
                    if len(S) != dim_exp:
                        self.bad("sector", "dimension", sige, casee, {"dim": int(len(S)), "expected": dim_exp})
                        continue

                    # (a) reference determinant
                    acc.ev()
                    ok_ref = all(g[0] == "X" and len(g[1]) == 1 and not g[2] for g in gates) and cwidth == nq
                    if not ok_ref:
                        self.bad("reference_circuit", "not-an-X-circuit-of-register-width", sige, casee,
                                 {"gates": gates, "width": cwidth, "expected_width": nq})
                    else:
                        psi = SV.run(gates, nq)
                        b = int(np.argmax(np.abs(psi)))
                        assert abs(abs(psi[b]) - 1) < 1e-12
                        e_ref = float(dH[b].real)
                        if b not in set(S.tolist()):
                            self.bad("reference_circuit", "outside-target-sector", sige, casee,
                                     {"n_alpha,n_beta of state": [int(dNa[b]), int(dNb[b])], "target": [n_alpha, n_beta]})
                        elif rot == "id":
                            if abs(e_ref - mf_energy) > TOL_E:
                                self.bad("reference_energy", "differs-from-mf_energy", sige, casee,
                                         {"<ref|H|ref>": e_ref, "mf_energy": mf_energy, "diff": e_ref - mf_energy})
                        elif abs(e_ref - e_det) > TOL_E:
                            self.bad("reference_energy(rotated)", "differs-from-determinant-energy", sige, casee,
                                     {"<ref|H|ref>": e_ref, "oracle_determinant": e_det, "diff": e_ref - e_det})

                    # (b) sector minimum
                    acc.ev()
                    Tm = columns(terms, nq, S)
                    inS = np.zeros(2 ** nq, dtype=bool)
                    inS[S] = True
                    leak = float(np.max(np.abs(Tm[~inS]))) if (~inS).any() else 0.0
                    B = Tm[S]
                    anti = float(np.max(np.abs(B - B.conj().T)))
                    if leak > TOL_HERM or anti > TOL_HERM:
                        self.bad("sector_min", "hamiltonian-not-block-hermitian", sige, casee, {"leak": leak, "antiherm": anti})
                        continue
                    e_min = float(np.linalg.eigvalsh((B + B.conj().T) / 2)[0])
                    acc.out(round(e_min, 6))
                    if abs(e_min - e_cas) > TOL_CI:
                        self.bad("sector_min", "differs-from-casci", sige, casee,
                                 {"sector_min": e_min, "oracle_casci": e_cas, "diff": e_min - e_cas,
                                  "nelec": [n_alpha, n_beta], "oracle": info})
                    # (c) rotation invariance
                    if rot == "id":
                        e_sector_id[(enc, utd)] = e_min
                    elif (enc, utd) in e_sector_id:
                        acc.ev()
                        if abs(e_min - e_sector_id[(enc, utd)]) > TOL_E:
                            self.bad("rotation_invariance", "sector-min-changed", sige, casee,
                                     {"rotated": e_min, "unrotated": e_sector_id[(enc, utd)],
                                      "diff": e_min - e_sector_id[(enc, utd)]})
                    if nontrivial_base or enc != "JW" or utd:
                        acc.nt((self.name, self.gi, uhf, label, repr(spec), rot, enc, utd))
                    if enc == "BK" and utd and rot in ("ov", "id"):
                        acc.sample(dict(casee, n_qubits=nq, nelec=[n_alpha, n_beta], sector_dim=int(len(S)),
                                        sector_min=e_min, oracle_casci=e_cas, mf_energy=mf_energy), cap=2)
            self._restore()

    def _restore(self):
        self.mol.mo_coeff = copy_C(self.C0, self.uhf)


# ---------------------------------------------------------------------------------------------------------------------

def _patterns(name, uhf, tier):
    out = []
    for label, spec, t in PATTERNS[name]["u" if uhf else "r"]:
        if t == Q or tier == T:
            out.append((label, spec))
    return out


def shards(tier, seed):
    sh = []
    for name in MOL_ORDER:
        for gi in (0, 1):
            for uhf in (False, True):
                pats = _patterns(name, uhf, tier)
                if not pats:
                    continue
                # heavy molecules: one pattern per shard; light ones: all patterns in one shard
                heavy = name in ("H4chain", "H4rect", "H4triplet", "LiH", "H2O", "H2_631g")
                if heavy:
                    for i in range(len(pats)):
                        sh.append({"kind": name, "geom": gi, "uhf": uhf, "seed": seed, "tier": tier, "pat": [i]})
                else:
                    sh.append({"kind": name, "geom": gi, "uhf": uhf, "seed": seed, "tier": tier,
                               "pat": list(range(len(pats)))})
    for name, frozen in (("H2", None), ("H3", [2]), ("H4chain", [0, 3]), ("H4triplet", 1), ("LiH", [0, 4, 5])):
        for uhf in (False, True):
            sh.append({"kind": "shared-solver", "mol": name, "frozen": (frozen if not (uhf and isinstance(frozen, list)) else [frozen, frozen]),
                       "uhf": uhf, "seed": seed, "tier": tier})
    # longest first
    wt = {"H2O": 9, "LiH": 8, "H4chain": 4, "H4rect": 4, "H4triplet": 4, "H2_631g": 3}
    sh.sort(key=lambda s: -wt.get(s["kind"], 0))
    return sh


class ConstructionFailed(Exception):
    pass


def check_shared_solver(case, acc):
    """History on ONE integral-solver object: it builds a molecule at geometry A (Hamiltonian evaluated), then a molecule at geometry
    B (and with another frozen selection); the second molecule must have the Hamiltonian and mean-field energy of a molecule built with
    a solver of its own."""
    from tangelo import SecondQuantizedMolecule
    from tangelo.toolboxes.molecular_computation.integral_solver_pyscf import IntegralSolverPySCF
    name, uhf, seed = case["mol"], case["uhf"], case["seed"]
    q, spin, basis, _ = MOLS[name]
    sig = f"{name}:{'uhf' if uhf else 'r'}"

    def mk(gi, frozen, solver=None):
        kw = {} if solver is None else {"solver": solver}
        with quiet_fds():
            return SecondQuantizedMolecule(geometry(name, gi, seed), q=q, spin=spin, basis=basis, frozen_orbitals=frozen,
                                           uhf=uhf, symmetry=False, **kw)
    acc.states += 1
    acc.transitions += 3
    try:
        shared = IntegralSolverPySCF()
        a = mk(0, None, shared)
        _ = a.fermionic_hamiltonian
        b = mk(1, case["frozen"], shared)
        hb = dict(b.fermionic_hamiltonian.terms)
        ref = mk(1, case["frozen"])
        hr = dict(ref.fermionic_hamiltonian.terms)
    except Exception as e:
        acc.violation(f"shared-solver/exception/{sig}", case, {"err": repr(e)[:300]}, group="shared-solver/exception")
        return
    acc.ev()
    acc.nt(("shared-solver", name, uhf, repr(case["frozen"])))
    d = max([abs(hb.get(k, 0) - hr.get(k, 0)) for k in set(hb) | set(hr)] + [0.0])
    if d > 1e-8 or abs(float(b.mf_energy) - float(ref.mf_energy)) > 1e-8:
        acc.violation(f"shared-solver/second-molecule-differs-from-one-built-with-its-own-solver/{sig}", case,
                      {"max_term_difference": float(d), "mf_energy": [float(b.mf_energy), float(ref.mf_energy)]},
                      group="shared-solver/second-molecule-differs")
    acc.out(("shared-solver", name, round(float(ref.mf_energy), 6)))


def make_combo(name, gi, uhf, seed, acc):
    """Build the molecule; an exception of the real constructor on a catalogue molecule is a finding, not a harness error."""
    try:
        mol = build_molecule(name, gi, uhf, seed)
    except Exception as e:
        if type(e).__name__ == "BasisNotFoundError":
            # The installed PySCF has no CRENBL set for He, which Tangelo uses only to count atoms/electrons: any molecule
            # containing He cannot be constructed here. That is an environment limitation at construction time, not a
            # statement about qubit-Hamiltonian energies (C04): counted and skipped, see DESIGN.md section 7.
            acc.count(f"skipped_unsupported_element[{name}]")
            raise ConstructionFailed()
        acc.ev()
        acc.states += 1
        case = {"kind": "c04", "mol": name, "geom": gi, "uhf": uhf, "seed": seed, "label": "none", "frozen": None, "rot": "id"}
        acc.violation(f"SecondQuantizedMolecule/exception/{name}:{refkind(name, uhf)}:{type(e).__name__}",
                      dict(case, focus="SecondQuantizedMolecule/exception"),
                      {"err": repr(e)[:300], "xyz": geometry(name, gi, seed), "q": MOLS[name][0], "spin": MOLS[name][1],
                       "basis": MOLS[name][2]}, group="SecondQuantizedMolecule/exception")
        raise ConstructionFailed()
    return Combo(name, gi, uhf, seed, acc, mol)


def run_shard(sh):
    acc = Acc()
    if sh["kind"] == "shared-solver":
        check_shared_solver({"kind": "shared-solver", "mol": sh["mol"], "frozen": sh["frozen"], "uhf": sh["uhf"], "seed": sh["seed"]}, acc)
        return acc
    try:
        cb = make_combo(sh["kind"], sh["geom"], sh["uhf"], sh["seed"], acc)
    except ConstructionFailed:
        return acc
    pats = _patterns(sh["kind"], sh["uhf"], sh["tier"])
    for i in sh["pat"]:
        label, spec = pats[i]
        cb.run_pattern(label, spec, rots=ROTATIONS_T if sh["tier"] == T else ROTATIONS)
    return acc


def replay_case(case):
    acc = Acc()
    if case.get("kind") == "shared-solver":
        check_shared_solver(case, acc)
        return acc
    try:
        cb = make_combo(case["mol"], case["geom"], case["uhf"], case["seed"], acc)
    except ConstructionFailed:
        return acc
    rots = ("id",) if case["rot"] == "id" else ("id", case["rot"])
    encs = (case["enc"],) if case.get("enc") else ENCODINGS
    ords = (case["utd"],) if case.get("enc") else ORDERINGS
    cb.run_pattern(case["label"], case["frozen"], rots=rots, encs=encs, orderings=ords)
    foc = case.get("focus")
    if foc:
        acc.viol = {k: v for k, v in acc.viol.items() if k.startswith(foc + "/")} or acc.viol
    return acc


def bounds(tier, seed):
    return {"tier": tier, "molecules": {n: {"charge": MOLS[n][0], "spin": MOLS[n][1], "basis": MOLS[n][2],
                                            "geometry_scales": [round(s * (1 + 0.05 * runner.seed_delta(seed)), 6)
                                                                for s in MOLS[n][3]],
                                            "patterns_RHF/ROHF": [[l, s] for l, s in _patterns(n, False, tier)],
                                            "patterns_UHF": [[l, s] for l, s in _patterns(n, True, tier)]}
                                        for n in MOL_ORDER if _patterns(n, False, tier) or _patterns(n, True, tier)},
            "rotations": list(ROTATIONS_T if tier == T else ROTATIONS), "angles": angles(seed), "encodings": list(ENCODINGS),
            "orderings(up_then_down)": list(ORDERINGS), "max_active_spin_orbitals": 8 if tier == Q else 12,
            "tolerances": {"TOL_E": TOL_E, "TOL_CI": TOL_CI, "TOL_ORACLE": TOL_ORACLE, "TOL_HERM": TOL_HERM}}


def selftest():
    SV.selftest()
    _pauli_selftest()
    CH.selftest()
    # partition helper
    p = expected_partition([2, 1, 1, 0], [0, 3], False, 4)
    assert p["active"] == [[1, 2], [1, 2]] and p["nelec"] == [2, 0] and p["frozen_occ"] == [[0], [0]]
    p = expected_partition([[1, 1, 0, 0], [1, 1, 0, 0]], [[1], []], True, 4)
    assert p["active"] == [[0, 2, 3], [0, 1, 2, 3]] and p["nelec"] == [1, 2] and p["frozen_virt"] == [[], []]
    R = swap90(4, 1, 3)
    assert np.allclose(R.T @ R, np.eye(4)) and np.allclose(givens(4, 0, 2, 0.3).T @ givens(4, 0, 2, 0.3), np.eye(4))


if __name__ == "__main__":
    import sys
    runner.main(sys.modules[__name__])
